"""C06 — transposition, complement and relabelling act as dualities on contexts / lattices;
the monotone lattice is exactly the set of monotone pairs, ordered consistently with its covers.

Every case carries the input and everything the implementation was observed to return
(K.T, K.T.T, ~K, ~~K, the lattices, their children dictionaries, the <= matrix); the Coq check
c06_check compares it with the model (Model/Duality.v) and the spec (Spec/DualitySpec.v)."""
import itertools
from harness.core import coq, Raw, guarded, canon, classify_exception, ERR_KINDS, zlit
from harness import gen
try:        # imported here so that forked worker processes do not each import the library again
    import fcapy.context  # noqa
    import fcapy.lattice  # noqa
except Exception:  # pragma: no cover  (the first case will report the import error)
    pass

ID = 'C06'
COQ_IMPORTS = ['FCA.Corr.C06']
CASE_TYPE = 'c06_case'
CHECK = 'c06_check'
SHOW = 'c06_show'
SHARD = 90
RULE = ('cases = (kind in {K.T.T, primes of K.T for all subsets, lattice(K.T) vs lattice(K).T, ~~K with names, '
        'row/column permutation + renaming, monotone lattice}, table <= 6x6, back-end, exact algorithm '
        'CbO/Lindig/default, for the lattice kinds also Sofia with a non-binding limit and ConceptLattice(shuffled '
        'concept list), followed by a recorded warm-up history of 0-3 order queries or remove+add(no fill) steps '
        'before .T is taken; the four relation dictionaries, the leq_elements matrix and <= on the concept objects '
        'of every lattice are compared with the spec; relabelling also through K[row_perm, col_perm]); non-trivial = the table has two different rows and is not constant, the '
        'permutation is not the identity (relabel), some attribute name is "not "-prefixed (complement)')
EXHAUSTIVE = {'thorough': 'all tables of shape <= 3x3 (h,w in 1..3) x 3 back-ends x {K.T.T, primes for all '
                          'subsets, ~~K} and x {CbO, Lindig (= the default)} x {lattice transposition, monotone lattice}'}
TRUSTED_EXTRA = [
    'the lattice construction (CbO, Lindig, sort_concepts, order construction) enters the C06 theorems only through '
    'the predicate lattice_for (Lemmas/C06_Lattice.v); every case re-checks the implementation\'s lattices against '
    'the spec enumeration concepts_spec / covers_spec',
    'ConceptLattice.T reads parents_dict, modelled as POSet._transpose_hierarchy(children_dict) (POSet.__init__ builds '
    'it so; lazily filled caches agree by C09)',
    'hash values are abstract integers carried by the data (adler32 is outside the model)',
]
ASSUMPTIONS = [
    'tables with rows but no columns are outside the property (numpy cannot hold them; FormalContext.T raises '
    'AssertionError on the other back-ends, which is proved of the model and checked)',
    'contexts have no target/description (FormalContext.T drops both)',
    'open finding D19: attribute names starting with "not not " (guard names_ok) — tolerated only where the '
    'implementation\'s wrong output equals the faithful model\'s',
]
BACKENDS = ['BinTableLists', 'BinTableNumpy', 'BinTableBitarray']
COQ_BACKEND = {'BinTableLists': 'BLists', 'BinTableNumpy': 'BNumpy', 'BinTableBitarray': 'BBitarray',
               'auto': 'BBitarray'}
ALGOS = [None, 'CbO', 'Lindig']
# lattice construction paths: the three exact algorithms, Sofia with a limit that never binds on
# tables <= 6x6, and ConceptLattice(list of concepts) in shuffled order.  All but Lindig leave the
# relation caches of the lattice empty, to be filled lazily by the queries that follow.
BUILDS = [None, 'CbO', 'Lindig', 'Sofia', 'list']
WARM_QUERIES = ['parents', 'children', 'descendants', 'ancestors', 'leq']
# 'readd' = remove(c) then add(c, fill_up_cache=False): resets the four relation caches but keeps the
# comparison cache; the concept moves to the end of the list (top and bottom cannot be removed: skipped)
WARM_QUERIES_LAT = WARM_QUERIES + ['readd']
KINDS = ['trans', 'primes', 'latT', 'compl', 'relabel', 'mono']

# names that a double complement restores (none starts with 'not not ')
BASES = ['a', 'b', 'c', 'd', 'x', 'y', 'z', 'nota', 'not', 'no', 'n', '', ' a', 'Not a', 'NOT b', 'a not b',
         'notnot a', ' not a', 'not', 'eé', 'not\ta']
SAFE_PREFIXED = ['not a', 'not b', 'not x', 'not ', 'not  a', 'not not', 'not nota', 'not é', 'not Not a']
# names the double complement does not restore (finding D19)
BROKEN = ['not not a', 'not not ', 'not not not a', 'not not not not b', 'not not  x', 'not not not']


def sublists(l):
    """Same enumeration order as Coq's [sublists]."""
    if not l:
        return [[]]
    r = sublists(l[1:])
    return r + [[l[0]] + s for s in r]


# ------------------------------------------------------------------ implementation side

def _ctx(table, onames, anames, backend):
    from fcapy.context import FormalContext
    return FormalContext(data=[list(r) for r in table], object_names=list(onames), attribute_names=list(anames),
                         backend=backend)


def _ctx_hist(case):
    """The case's context, reached through its rename history if it has one: built under other
    names, used (K.T / a CbO lattice / ~K / a monotone lattice), then renamed with the setters in
    the recorded order.  The FINAL context is always (table, onames, anames) of the case."""
    t, on, an, be = case['table'], case['onames'], case['anames'], case['backend']
    h = case.get('hist')
    if not h:
        return _ctx(t, on, an, be)
    K = _ctx(t, h['on0'], h['an0'], be)
    for wu in h['warm']:
        if wu == 'T':
            K.T
        elif wu == 'TT':
            K.T.T
        elif wu == 'cbo':
            _lattice(K, 'CbO')
        elif wu == 'inv':
            ~K
        elif wu == 'mono':
            _lattice(K, None, is_monotone=True)
    for ax in h['set']:
        if ax == 'o':
            K.object_names = list(on)
        else:
            K.attribute_names = list(an)
    return K


def _by_name(names_in, idx, fn, names_out):
    """fn([names_in[i] for i in idx]) mapped back to indexes of names_out (names are distinct)."""
    pos = {s: k for k, s in enumerate(names_out)}
    res = fn([names_in[i] for i in idx])
    return [pos.get(s, 4999) for s in res]


def _ctx_d(K):
    return [canon(K.data.to_list()), list(K.object_names), list(K.attribute_names)]


def _try(fn):
    try:
        return ['ok', canon(fn())]
    except Exception as e:  # noqa
        return ['err', classify_exception(e), str(e)[:120]]


def _order(L):
    n = len(L)
    leq = [[L.leq_elements(i, j) for j in range(n)] for i in range(n)]
    cle = [[L[i] <= L[j] for j in range(n)] for i in range(n)]
    for m in (leq, cle):
        for row in m:
            for v in row:
                if not isinstance(canon(v), bool):
                    raise TypeError('order answer is not a bool: %r' % (v,))
    return ([[j for j in range(n) if leq[i][j]] for i in range(n)],
            [[j for j in range(n) if cle[i][j]] for i in range(n)])


def _warm(L, case, allow_readd=True):
    n = len(L)
    for q, a, b in case.get('warm') or []:
        i, j = a % n, b % n
        if q == 'leq':
            L.leq_elements(i, j)
        elif q == 'readd':
            if allow_readd and i not in (L.top, L.bottom):
                c = L[i]
                L.remove(c)
                L.add(c, fill_up_cache=False)
        else:
            getattr(L, q)(i)


def _lat_d(L, leq_first=False):
    order = _order(L) if leq_first else None
    cs = []
    for c in L:
        cs.append([canon(list(c.extent_i)), list(c.extent), canon(list(c.intent_i)), list(c.intent),
                   None if c.context_hash is None else int(c.context_hash), bool(c.is_monotone)])
    n = len(L)
    # children first (for L.T this is what was handed over), then the other three dictionaries
    chd = L.children_dict
    ch = [sorted(canon(chd[i])) for i in range(n)]
    pad, ded, and_ = L.parents_dict, L.descendants_dict, L.ancestors_dict
    if order is None:
        order = _order(L)
    return {'concepts': cs, 'children': ch, 'mono': bool(L.is_monotone), 'leq': order[0], 'cle': order[1],
            'parents': [sorted(canon(pad[i])) for i in range(n)],
            'desc': [sorted(canon(ded[i])) for i in range(n)],
            'anc': [sorted(canon(and_[i])) for i in range(n)]}


def _lattice(K, algo, **kw):
    from fcapy.lattice import ConceptLattice
    if algo is None:
        return ConceptLattice.from_context(K, **kw)
    if algo == 'Sofia':
        return ConceptLattice.from_context(K, algo='Sofia', L_max=100000, **kw)
    return ConceptLattice.from_context(K, algo=algo, **kw)


def _build(K, case):
    """The lattice of K through the case's construction path, then the case's warm-up history of
    order queries (indexes are taken modulo the number of concepts)."""
    import random
    from fcapy.lattice import ConceptLattice
    algo = case.get('algo')
    if algo == 'list':
        cs = list(_lattice(K, 'CbO'))
        random.Random(case.get('shuffle', 0)).shuffle(cs)
        L = ConceptLattice(cs)
    else:
        L = _lattice(K, algo)
    _warm(L, case)
    return L


def run_impl(case):
    kind = case['kind']
    t, on, an, be = case['table'], case['onames'], case['anames'], case['backend']
    algo = case.get('algo')

    def go():
        K = _ctx_hist(case)
        if kind == 'trans':
            KT = K.T
            KTT = KT.T
            return {'a': _ctx_d(KT), 'b': _ctx_d(KTT), 'eq': _try(lambda: KTT == K)}
        if kind == 'primes':
            KT = K.T
            xs, ys = sublists(list(range(len(t)))), sublists(list(range(len(t[0]) if t else 0)))
            bA, bO = case.get('basesA') or [], case.get('basesO') or []
            return {'eT': [canon(KT.extension_i(list(x))) for x in xs],
                    'iT': [canon(KT.intention_i(list(y))) for y in ys],
                    'iK': [canon(K.intention_i(list(x))) for x in xs],
                    'eK': [canon(K.extension_i(list(y))) for y in ys],
                    # by name: objects of K.T are called like the attributes of K and vice versa
                    'eTn': [_by_name(on, x, KT.extension, an) for x in xs],
                    'iTn': [_by_name(an, y, KT.intention, on) for y in ys],
                    # listings with repeated entries (the same sets), on both sides of the duality
                    'eTr': [canon(KT.extension_i(list(x))) for x in case.get('repsO') or []],
                    'iKr': [canon(K.intention_i(list(x))) for x in case.get('repsO') or []],
                    'iTr': [canon(KT.intention_i(list(y))) for y in case.get('repsA') or []],
                    'eKr': [canon(K.extension_i(list(y))) for y in case.get('repsA') or []],
                    # restricted to a base set, on both sides of the duality
                    'eTb': [[canon(KT.extension_i(list(x), base_objects_i=list(b))) for x in xs] for b in bA],
                    'iKb': [[canon(K.intention_i(list(x), base_attrs_i=list(b))) for x in xs] for b in bA],
                    'iTb': [[canon(KT.intention_i(list(y), base_attrs_i=list(b))) for y in ys] for b in bO],
                    'eKb': [[canon(K.extension_i(list(y), base_objects_i=list(b))) for y in ys] for b in bO]}
        if kind == 'latT':
            lf = bool(case.get('leq_first'))
            L = _build(K, case)
            LT = L.T                       # observed before anything else is asked of L
            dLT = _lat_d(LT, lf)
            L2 = _build(K.T, case)
            return {'L': _lat_d(L, lf), 'LT': dLT, 'L2': _lat_d(L2, lf)}
        if kind == 'compl':
            K1 = ~K
            K2 = ~K1
            return {'a': _ctx_d(K1), 'b': _ctx_d(K2), 'eq': _try(lambda: K2 == K)}
        if kind == 'relabel':
            ps, pc = case['ps'], case['pc']
            t2 = [[t[i][j] for j in pc] for i in ps]
            K2 = _ctx(t2, case['onames2'], case['anames2'], be)
            lf = bool(case.get('leq_first'))
            # the library's own route: K[rows, cols]
            K3 = K[list(ps), list(pc)]
            ys, xs = sublists(list(range(len(pc)))), sublists(list(range(len(ps))))
            e3 = [canon(K3.extension_i(list(y))) for y in ys]
            i3 = [canon(K3.intention_i(list(x))) for x in xs]
            return {'L1': _lat_d(_build(K, case), lf), 'L2': _lat_d(_build(K2, case), lf),
                    'K3': _ctx_d(K3), 'L3': _lat_d(_build(K3, case), lf), 'e3': e3, 'i3': i3}
        if kind == 'mono':
            malgo = 'CbO' if algo == 'list' else algo
            Lc = _lattice(~K, malgo)
            M = _lattice(K, malgo, is_monotone=True)
            _warm(M, case, allow_readd=False)   # the model compares M position by position
            lf = bool(case.get('leq_first'))
            MT = M.T                            # transposition of a monotone lattice, taken before M is observed
            dMT = _lat_d(MT, lf)
            le = [[_try(lambda a=a, b=b: bool(a <= b))[:2] for b in M] for a in M]
            return {'Lc': _lat_d(Lc, lf), 'M': _lat_d(M, lf), 'le': le, 'hash': int(K.hash_fixed()), 'MT': dMT}
        raise ValueError('unknown kind ' + kind)
    r = guarded(go, timeout_s=20)
    return list(r)


# ------------------------------------------------------------------ Coq terms

class _Dict:
    def __init__(self):
        self.ids = {}
        self.strs = []

    def id(self, s):
        if not isinstance(s, str):
            s = 'NOT-A-STRING:' + repr(s)
        if s not in self.ids:
            self.ids[s] = len(self.strs)
            self.strs.append(s)
        return self.ids[s]

    def many(self, names):
        return [self.id(s) for s in names]

    def term(self):
        return '(mkstrs (%s)%%N)' % coq([[ord(ch) for ch in s] for s in self.strs])


def _tbl_ok(t):
    return isinstance(t, list) and all(isinstance(r, list) and all(isinstance(v, bool) for v in r) for r in t)


def _idx_ok(l):
    return isinstance(l, list) and all(isinstance(x, int) and not isinstance(x, bool) and 0 <= x < 5000 for x in l)


class _Bad(Exception):
    pass


def _ctx_term(d, cd):
    t, on, an = cd
    if not _tbl_ok(t):
        raise _Bad()
    return '(mkctx %s %s %s)' % (coq(t), coq(d.many(on)), coq(d.many(an)))


def _opt_z(h):
    return 'None' if h is None else '(Some %s)' % zlit(h)


def _lat_term(d, ld):
    cs = []
    for ei, e, ii, i, h, m in ld['concepts']:
        if not (_idx_ok(ei) and _idx_ok(ii)):
            raise _Bad()
        cs.append('mkcon %s %s %s %s %s %s' % (coq(ei), coq(d.many(e)), coq(ii), coq(d.many(i)), _opt_z(h), coq(bool(m))))
    n = len(cs)
    masks = []
    for f in ('children', 'parents', 'desc', 'anc', 'leq', 'cle'):
        # sets of concept indexes, one bit mask per key; an entry for every concept, nothing out of range
        if len(ld[f]) != n or not all(_idx_ok(c) and all(x < n for x in c) and len(set(c)) == len(c) for c in ld[f]):
            raise _Bad()
        masks.append('([%s])%%N' % '; '.join(str(sum(1 << x for x in c)) for c in ld[f]))
    return '(mklat [%s] %s %s)' % ('; '.join(cs), coq(bool(ld['mono'])), ' '.join(masks))


def _ires_bool(r):
    if r[0] == 'ok' and isinstance(r[1], bool):
        return '(IOk %s)' % coq(r[1])
    if r[0] == 'ok':
        return '(IErr 12)'
    return '(IErr %d)' % ERR_KINDS.get(r[1], 11)


def to_coq(case, out):
    kind = case['kind']
    d = _Dict()
    b = COQ_BACKEND[case['backend']]
    k = _ctx_term(d, [case['table'], case['onames'], case['anames']])
    if kind == 'relabel':
        on2, an2 = coq(d.many(case['onames2'])), coq(d.many(case['anames2']))
    try:
        if out[0] != 'ok':
            o = '(IErr %d)' % ERR_KINDS.get(out[1], 11)
        else:
            v = out[1]
            if kind in ('trans', 'compl'):
                o = '(IOk (%s, %s, %s))' % (_ctx_term(d, v['a']), _ctx_term(d, v['b']), _ires_bool(v['eq']))
            elif kind == 'primes':
                if not all(all(_idx_ok(x) for x in v[f]) for f in ('eT', 'iT', 'iK', 'eK', 'eTn', 'iTn',
                                                                     'eTr', 'iKr', 'iTr', 'eKr')):
                    raise _Bad()
                if not all(all(all(_idx_ok(x) for x in per) for per in v[f]) for f in ('eTb', 'iKb', 'iTb', 'eKb')):
                    raise _Bad()
                o = '(IOk (%s, %s, %s, %s, (%s, %s), (%s, %s, %s, %s), (%s, %s, %s, %s)))' % tuple(
                    coq(v[f]) for f in ('eT', 'iT', 'iK', 'eK', 'eTn', 'iTn', 'eTr', 'iKr', 'iTr', 'eKr',
                                        'eTb', 'iKb', 'iTb', 'eKb'))
            elif kind == 'latT':
                o = '(IOk (%s, %s, %s))' % (_lat_term(d, v['L']), _lat_term(d, v['LT']), _lat_term(d, v['L2']))
            elif kind == 'relabel':
                if not all(all(_idx_ok(x) for x in v[f]) for f in ('e3', 'i3')):
                    raise _Bad()
                o = '(IOk (%s, %s, (%s, %s, %s, %s)))' % (_lat_term(d, v['L1']), _lat_term(d, v['L2']),
                                                          _ctx_term(d, v['K3']), _lat_term(d, v['L3']),
                                                          coq(v['e3']), coq(v['i3']))
            elif kind == 'mono':
                le = '[' + '; '.join('[' + '; '.join(_ires_bool(x) for x in row) + ']' for row in v['le']) + ']'
                o = '(IOk (%s, %s, %s, %s))' % (_lat_term(d, v['Lc']), _lat_term(d, v['M']), le, _lat_term(d, v['MT']))
    except _Bad:
        o = '(IErr 12)'     # output of an impossible shape
    strs = d.term()
    if kind == 'trans':
        return 'CTrans %s %s %s %s' % (b, strs, k, o)
    if kind == 'primes':
        return 'CPrimes %s %s %s %s %s %s %s' % (b, coq(case['table']), coq(case.get('basesA') or []),
                                                 coq(case.get('basesO') or []), coq(case.get('repsO') or []),
                                                 coq(case.get('repsA') or []), o)
    if kind == 'latT':
        return 'CLatT %s %s %s %s' % (b, strs, k, o)
    if kind == 'compl':
        return 'CCompl %s %s %s %s' % (b, strs, k, o)
    if kind == 'relabel':
        return 'CRelabel %s %s %s %s %s %s %s %s' % (b, strs, k, coq(case['ps']), coq(case['pc']), on2, an2, o)
    h = _opt_z(out[1]['hash']) if out[0] == 'ok' else 'None'
    return 'CMono %s %s %s %s %s' % (b, strs, k, h, o)


# ------------------------------------------------------------------ evidence helpers

def _names_class(case):
    an = case['anames']
    if any(m.startswith('not not ') for m in an):
        return 'not-not'
    if any(m.startswith('not ') for m in an):
        return 'not'
    return 'plain'


def nontrivial(case):
    t = case['table']
    flat = [v for r in t for v in r]
    if not flat or all(flat) or not any(flat) or len({tuple(r) for r in t}) < 2:
        return False
    if case['kind'] == 'relabel':
        return case['ps'] != sorted(case['ps']) or case['pc'] != sorted(case['pc'])
    if case['kind'] == 'compl':
        return _names_class(case) != 'plain'
    return True


def stats(case):
    t = case['table']
    return {'kind': case['kind'], 'shape': '%dx%d' % (len(t), len(t[0]) if t else 0), 'backend': case['backend'],
            'algo': str(case.get('algo')), 'table_kind': case.get('tkind', ''), 'names': _names_class(case),
            'warm_up': '+'.join(q for q, _, _ in (case.get('warm') or [])) or 'none',
            'rename_history': ('none' if not case.get('hist') else
                               '+'.join(case['hist']['warm']) + '/set:' + ''.join(case['hist']['set'])),
            'bases': len(case.get('basesA') or []) + len(case.get('basesO') or []),
            'repeated_listings': len(case.get('repsO') or []) + len(case.get('repsA') or []),
            'homonyms': ('o' if len(set(case['onames'])) < len(case['onames']) else '') +
                        ('a' if len(set(case['anames'])) < len(case['anames']) else '') or 'none'}


# ------------------------------------------------------------------ generation

def default_names(h, w):
    return ['g%d' % i for i in range(h)], ['m%d' % j for j in range(w)]


def random_names(rng, n, pool_extra=(), p_extra=0.0):
    """n distinct names; with probability p_extra per slot drawn from pool_extra."""
    out = []
    tries = 0
    while len(out) < n:
        tries += 1
        if pool_extra and rng.random() < p_extra:
            s = rng.choice(pool_extra)
        else:
            s = rng.choice(BASES + SAFE_PREFIXED)
        if tries > 200:
            s = s + str(tries)
        if s not in out:
            out.append(s)
    return out


def _mk(kind, backend, t, on, an, algo=None, tkind='', **extra):
    c = {'kind': kind, 'backend': backend, 'table': t, 'onames': on, 'anames': an, 'algo': algo, 'tkind': tkind}
    c.update(extra)
    return c


def _perm(rng, n):
    p = list(range(n))
    rng.shuffle(p)
    return p


def random_case(rng, kind, max_dim, broken=False):
    if kind == 'primes':
        max_dim = min(max_dim, 6)
    t, tkind = gen.random_table(rng, max_dim, max_dim)
    h, w = len(t), len(t[0])
    be = rng.choice(BACKENDS + ['auto'])
    algo = rng.choice(ALGOS)
    warm_extra = {}
    if kind in ('latT', 'relabel', 'mono'):
        algo = rng.choice(BUILDS)
        nq = rng.choice([0, 1, 1, 2, 2, 3])
        qs = WARM_QUERIES if kind == 'mono' else WARM_QUERIES_LAT
        warm_extra = {'warm': [[rng.choice(qs), rng.randrange(1000), rng.randrange(1000)] for _ in range(nq)],
                      'shuffle': rng.randrange(1000), 'leq_first': rng.random() < 0.5}
    on = random_names(rng, h)
    if broken:
        an = random_names(rng, w, BROKEN, 0.5)
        if not any(m.startswith('not not ') for m in an):
            an[rng.randrange(w)] = rng.choice([b for b in BROKEN if b not in an])
    else:
        an = random_names(rng, w)
    homonyms = kind in ('trans', 'latT', 'relabel', 'mono') and rng.random() < 0.3
    if homonyms:
        which = rng.choice(['o', 'a', 'oa'])
        if 'o' in which:
            on = with_homonyms(rng, on)
        if 'a' in which and not broken:
            an = with_homonyms(rng, an)
    extra = {}
    if kind == 'relabel':
        ps, pc = _perm(rng, h), _perm(rng, w)
        mode = rng.choice(['permute', 'rename', 'identity-rename', 'rows-only', 'cols-only'])
        if mode == 'rows-only':
            pc = list(range(w))
        if mode == 'cols-only':
            ps = list(range(h))
        if mode == 'identity-rename':
            ps, pc = list(range(h)), list(range(w))
        if mode in ('rename', 'identity-rename'):
            on2, an2 = random_names(rng, h), random_names(rng, w)
            if not homonyms and rng.random() < 0.3:     # distinct -> homonymous
                on2, an2 = with_homonyms(rng, on2), with_homonyms(rng, an2)
        else:
            on2, an2 = [on[i] for i in ps], [an[j] for j in pc]
        extra = {'ps': ps, 'pc': pc, 'onames2': on2, 'anames2': an2}
    extra.update(warm_extra)
    if kind == 'primes':
        extra['basesA'] = random_bases(rng, w)
        extra['basesO'] = random_bases(rng, h)
        extra['repsO'] = random_listings(rng, h)
        extra['repsA'] = random_listings(rng, w)
    if kind != 'relabel' and rng.random() < 0.5:
        extra['hist'] = random_hist(rng, kind, on, an)
    return _mk(kind, be, t, on, an, algo, tkind, **extra)


def random_listings(rng, n):
    """Listings over range(n) with repeated entries; half of them padded to exactly n entries."""
    out = []
    for _ in range(4):
        k = rng.randint(1, max(1, n - 1))
        base = rng.sample(range(n), min(k, n))
        length = n if rng.random() < 0.5 else rng.randint(len(base) + 1, n + 2)
        lst = base + [rng.choice(base) for _ in range(max(0, length - len(base)))]
        rng.shuffle(lst)
        out.append(lst)
    return out


def with_homonyms(rng, names):
    """Copy some names onto other positions (names are positional labels: homonyms are legal)."""
    names = list(names)
    n = len(names)
    if n >= 2:
        for _ in range(rng.choice([1, 1, 2])):
            i, j = rng.sample(range(n), 2)
            names[j] = names[i]
    return names


def random_bases(rng, n):
    """A few duplicate-free base sets over range(n): empty, sorted subset, unsorted subset, reversed full."""
    out = [[]] if rng.random() < 0.3 else []
    k = rng.randint(1, n)
    out.append(sorted(rng.sample(range(n), k)))
    p = rng.sample(range(n), rng.randint(1, n))
    out.append(p)
    if rng.random() < 0.5:
        out.append(list(reversed(range(n))))
    # a base listing that repeats indexes: the answer is the filter of the listing, repeats kept
    q = rng.sample(range(n), rng.randint(1, n))
    q = q + [rng.choice(q) for _ in range(rng.randint(1, 3))]
    if rng.random() < 0.5:
        rng.shuffle(q)
    out.append(q)
    return out


def random_hist(rng, kind, on, an):
    """Other initial names for the axes that will be renamed, a use of the context, the setter order."""
    order = rng.choice([['o'], ['a'], ['a'], ['o', 'a'], ['a', 'o']])
    on0 = ['old g%d' % i for i in range(len(on))] if 'o' in order else list(on)
    an0 = [('not old m%d' if i % 2 else 'old m%d') % i for i in range(len(an))] if 'a' in order else list(an)
    pool = {'trans': ['T', 'TT', 'cbo'], 'primes': ['T', 'cbo'], 'latT': ['T', 'cbo', 'TT'],
            'compl': ['inv', 'T'], 'mono': ['inv', 'mono', 'T']}[kind]
    warm = rng.sample(pool, rng.randint(1, len(pool)))
    return {'on0': on0, 'an0': an0, 'warm': warm, 'set': order}


def small_tables(max_h=3, max_w=3):
    for h in range(1, max_h + 1):
        for w in range(1, max_w + 1):
            for t in gen.all_tables(h, w):
                yield t


def exhaustive_cases():
    for t in small_tables():
        h, w = len(t), len(t[0])
        on, an = default_names(h, w)
        an_not = ['not ' + m if j % 2 == 0 else m for j, m in enumerate(an)]
        for be in BACKENDS:
            yield _mk('trans', be, t, on, an, tkind='exhaustive')
            yield _mk('primes', be, t, on, an, tkind='exhaustive',
                      basesA=[list(reversed(range(w))), list(range(0, w, 2)), [w - 1, w - 1, 0]],
                      basesO=[list(reversed(range(h))), list(range(h - 1, h)), [0, 0]],
                      repsO=[[0] * h, [h - 1] + [0] * (h - 1)], repsA=[[0] * w, [w - 1] + [0] * (w - 1)])
            yield _mk('compl', be, t, on, an_not, tkind='exhaustive')
            for algo in ('CbO', 'Lindig'):      # algo=None is Lindig for a FormalContext
                # one parents query on a position that varies with the table, before L.T
                warm = [['parents', sum(map(sum, t)) + h, 0]] if algo == 'CbO' else []
                yield _mk('latT', be, t, on, an, algo, tkind='exhaustive', warm=warm, leq_first=(algo == 'Lindig'))
                yield _mk('mono', be, t, on, an_not, algo, tkind='exhaustive')


def edge_cases():
    """Hand-made shapes that the random generator reaches rarely or never."""
    out = []
    for be in ('BinTableLists', 'BinTableBitarray'):
        # no rows at all
        out.append(_mk('trans', be, [], [], [], tkind='0x0'))
        out.append(_mk('compl', be, [], [], [], tkind='0x0'))
        out.append(_mk('mono', be, [], [], [], None, tkind='0x0'))
        out.append(_mk('latT', be, [], [], [], None, tkind='0x0'))
        # rows without columns: FormalContext.T rejects them (outside the property)
        out.append(_mk('trans', be, [[], []], ['g0', 'g1'], [], tkind='nx0'))
        out.append(_mk('compl', be, [[], []], ['g0', 'g1'], [], tkind='nx0'))
        out.append(_mk('mono', be, [[], []], ['g0', 'g1'], [], None, tkind='nx0'))
    for be in BACKENDS:
        for n in (2, 3, 4):
            contra = [[i != j for j in range(n)] for i in range(n)]
            on, an = default_names(n, n)
            for algo in BUILDS:
                out.append(_mk('latT', be, contra, on, an, algo, tkind='contranominal',
                               warm=[['parents', n, 0], ['readd', 1, 0], ['children', 1, 0]], shuffle=n,
                               leq_first=(algo in (None, 'Lindig'))))
                out.append(_mk('mono', be, contra, on, ['not ' + m for m in an], algo, tkind='contranominal'))
            out.append(_mk('relabel', be, contra, on, an, 'CbO', tkind='contranominal',
                           ps=list(reversed(range(n))), pc=[(j + 1) % n for j in range(n)],
                           onames2=['r%d' % i for i in range(n)], anames2=['not c%d' % i for i in range(n)]))
    return out


def generate(rng, tier):
    cases = list(edge_cases())
    ex = list(exhaustive_cases())
    if tier == 'thorough':
        cases += ex
        n_rand, dim = 1000, 6
    else:
        cases += rng.sample(ex, 400)
        n_rand, dim = 140, 6
    for kind in KINDS:
        for _ in range(n_rand):
            cases.append(random_case(rng, kind, dim))
    # the stream of names a double complement cannot restore (recorded finding D19)
    for _ in range(n_rand // 4):
        cases.append(random_case(rng, 'compl', 4, broken=True))
        cases.append(random_case(rng, 'mono', 4, broken=True))
    return cases


# ------------------------------------------------------------------ shrinking

def _reindex_bases(bases, i):
    return [[x - 1 if x > i else x for x in b if x != i] for b in (bases or [])]


def _drop_row(case, i):
    c = dict(case)
    c['table'] = [r for k, r in enumerate(case['table']) if k != i]
    c['onames'] = [s for k, s in enumerate(case['onames']) if k != i]
    if case.get('basesO') is not None:
        c['basesO'] = _reindex_bases(case['basesO'], i)
    if case.get('repsO') is not None:
        c['repsO'] = [r for r in _reindex_bases(case['repsO'], i) if r]
    if case.get('hist'):
        c['hist'] = dict(case['hist'], on0=[s for k, s in enumerate(case['hist']['on0']) if k != i])
    if case['kind'] == 'relabel':
        pos = case['ps'].index(i)
        c['ps'] = [x - 1 if x > i else x for k, x in enumerate(case['ps']) if k != pos]
        c['onames2'] = [s for k, s in enumerate(case['onames2']) if k != pos]
    return c


def _drop_col(case, j):
    c = dict(case)
    c['table'] = [[v for k, v in enumerate(r) if k != j] for r in case['table']]
    c['anames'] = [s for k, s in enumerate(case['anames']) if k != j]
    if case.get('basesA') is not None:
        c['basesA'] = _reindex_bases(case['basesA'], j)
    if case.get('repsA') is not None:
        c['repsA'] = [r for r in _reindex_bases(case['repsA'], j) if r]
    if case.get('hist'):
        c['hist'] = dict(case['hist'], an0=[s for k, s in enumerate(case['hist']['an0']) if k != j])
    if case['kind'] == 'relabel':
        pos = case['pc'].index(j)
        c['pc'] = [x - 1 if x > j else x for k, x in enumerate(case['pc']) if k != pos]
        c['anames2'] = [s for k, s in enumerate(case['anames2']) if k != pos]
    return c


def shrink(case):
    out = []
    t = case['table']
    h, w = len(t), len(t[0]) if t else 0
    if h > 1:
        out += [_drop_row(case, i) for i in range(h)]
    if w > 1:
        out += [_drop_col(case, j) for j in range(w)]
    for i in range(h):
        for j in range(w):
            if t[i][j]:
                c = dict(case)
                c['table'] = [[(False if (a == i and b == j) else v) for b, v in enumerate(r)] for a, r in enumerate(t)]
                out.append(c)
    # simpler names, one at a time (kept distinct)
    for key, pre in (('onames', 'g'), ('anames', 'm')):
        for k, s in enumerate(case[key]):
            simple = '%s%d' % (pre, k)
            if s != simple and simple not in case[key] and not case.get('hist'):
                c = dict(case)
                c[key] = [simple if q == k else v for q, v in enumerate(case[key])]
                if case['kind'] == 'relabel' and case.get(key + '2') is not None:
                    p = case['ps'] if key == 'onames' else case['pc']
                    if s in case[key + '2'] and [case[key][x] for x in p] == case[key + '2']:
                        c[key + '2'] = [c[key][x] for x in p]
                out.append(c)
    if case.get('hist'):
        c = dict(case)
        c['hist'] = None
        out.append(c)
    for key in ('basesA', 'basesO', 'repsO', 'repsA'):
        for k in range(len(case.get(key) or [])):
            c = dict(case)
            c[key] = case[key][:k] + case[key][k + 1:]
            out.append(c)
    warm = case.get('warm') or []
    for k in range(len(warm)):
        c = dict(case)
        c['warm'] = warm[:k] + warm[k + 1:]
        out.append(c)
    return out

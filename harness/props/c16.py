"""C16 — stability equals its definition and is bracketed by its published bounds; measures are
stored one value per concept and come back as equally long arrays."""
import itertools
import math
import random
import warnings
from fractions import Fraction
from harness.core import coq, some, Raw, guarded, canon, qlit, ERR_KINDS
from harness import gen

ID = 'C16'
COQ_IMPORTS = ['FCA.Corr.C16']
COQ_HEADER = 'From Coq Require Import ZArith QArith.\nOpen Scope nat_scope.\n'
CASE_TYPE = 'c16_case'
CHECK = 'c16_check'
SHOW = 'c16_show'
SHARD = 12
RULE = ('case = (boolean table, back-end, how the lattice is built: from_context by Lindig / CbO, ConceptLattice('
        'concept list in shuffled or raw CbO order), or from_context followed by remove + add of non-extreme '
        'concepts; order of the calc_concepts_measures calls; optionally a history: remove concepts -> recompute '
        '-> add them back -> recompute, or a second lattice built from the same concept objects); at every '
        'observation the implementation stores Stab / LStab / UStab / log_stability_lbound for EVERY concept of '
        'the CURRENT lattice and returns lattice.measures; the model and the spec are evaluated on the current '
        'concept list and its covers (a pruned lattice promises only Stab <= UStab); '
        'all floats are converted exactly with fractions.Fraction (they are dyadic) '
        'and compared for equality with the Q values of the model and of the spec; the log bound is compared '
        'through its integer part min-delta (exactly via n_bin_attrs=1, and via the stored value + log2(n) '
        'within 1e-9) and in the log-free form (1-stab)*2^min-delta <= n; '
        'non-trivial = table not constant, >= 3 objects and >= 2 attributes')
EXHAUSTIVE = {'thorough': 'all boolean tables of shape <= 3x3, 2x4 and 4x2 (default back-end, both lattice '
                          'algorithms alternating), every concept of each lattice'}
TRUSTED_EXTRA = ['C16: floats are read with fractions.Fraction (exact); log2(n_bin_attrs) is added back in Python '
                 'with tolerance 1e-9 to recover the integer part of log_stability_lbound']
BACKENDS = ['BinTableBitarray', 'BinTableBitarray', 'BinTableLists', 'BinTableNumpy']
COQ_BACKEND = {'BinTableLists': 'BLists', 'BinTableNumpy': 'BNumpy', 'BinTableBitarray': 'BBitarray'}
OP_NAMES = {0: ['stability_bounds', 'LStab', 'UStab'], 1: ['log_stability_lbound'], 2: ['stability']}
KEY_IDS = {'LStab': 1, 'UStab': 2, 'log_stability_lbound': 3, 'Stab': 4}


def _frac(x):
    fr = Fraction(x)          # exact for int and float; raises on inf / nan
    return [fr.numerator, fr.denominator]


def _nat_or_inf(x, shift=0.0):
    """-> 'inf' | natural number | 'bad'"""
    if isinstance(x, float) and math.isinf(x) and x > 0:
        return 'inf'
    try:
        if shift == 0.0:
            fr = Fraction(x)
            if fr.denominator == 1 and fr.numerator >= 0:
                return int(fr.numerator)
            return 'bad'
        r = float(x) + shift
        d = round(r)
        if abs(r - d) <= 1e-9 and d >= 0:
            return int(d)
    except Exception:  # noqa
        pass
    return 'bad'


def _observe(L, K, ops, first, key_order=None):
    """calc_concepts_measures for `ops`, then read every concept of the CURRENT lattice."""
    from fcapy.lattice import concept_measures as cms
    for op, alias in ops:
        L.calc_concepts_measures(OP_NAMES[op][alias], K)
    md = L.measures
    n_bin = K.n_bin_attrs
    concepts = []
    match = True
    for i, c in enumerate(L):
        m = c.measures
        ext = sorted(canon(c.extent_i))       # listings are sets: their order is not observable in the measures
        intent = sorted(canon(c.intent_i))
        if intent == [-2]:
            # LatViz layout: the bottom node's intent is the placeholder "BOTTOM"; it stands for the intent of
            # the (empty) bottom extent, i.e. for every attribute
            intent = [m for m in range(K.n_attributes) if all(K.data[g][m] for g in ext)]
        concepts.append({'extent': ext, 'intent': intent, 'children': sorted(canon(L.children(i))),
                         'stab': _frac(m['Stab']), 'lstab': _frac(m['LStab']), 'ustab': _frac(m['UStab']),
                         'logd': _nat_or_inf(cms.log_stability_lbound(i, L, 1)),
                         'logm': _nat_or_inf(m['log_stability_lbound'], math.log2(n_bin))})
        if first:
            # direct calls agree with what was stored
            lb, ub = cms.stability_bounds(i, L)
            match = match and lb == m['LStab'] and ub == m['UStab']
            if len(ext) <= 6:
                match = match and cms.stability(i, L, K) == m['Stab']
        # arrays agree with the per-concept dicts
        for k in md:
            match = match and len(md[k]) > i and md[k][i] is not None and md[k][i] == m[k]
    # concepts read from JSON also carry 'Supp', 'Context_Hash', 'Monotone' in their measures dict: those
    # arrays must be as long as the others; only the four stability keys are reported by name
    match = match and all(len(v) == len(concepts) for v in md.values())
    names = [k for k in md if k in KEY_IDS]
    if key_order is not None:
        # a lattice read back from a file lists its keys in the file's order: reported in the original's order
        names = [k for k in key_order if k in names] + [k for k in names if k not in key_order]
    return {'concepts': concepts, 'keys': [KEY_IDS[k] for k in names],
            'lens': [int(len(md[k])) for k in names], 'match': bool(match)}


def _find(L, ext):
    for c in L:
        if sorted(c.extent_i) == sorted(ext):
            return c
    raise KeyError('no concept with extent %r' % (ext,))


def run_impl(case):
    import fcapy.context  # noqa  (outside the alarm)
    import fcapy.lattice  # noqa

    def go():
        from fcapy.context import FormalContext
        from fcapy.lattice import ConceptLattice
        from fcapy.algorithms import concept_construction as cca
        t = case['table']
        K = FormalContext(data=[list(r) for r in t], backend=case['backend'])
        build = case.get('build', 'from_context')
        warm = case.get('warm', 0)
        if warm:
            # questions with non-default parameters put to the SAME context object before anything is built
            from harness.c16c18_warm import warm_context
            warm_context(K, t, warm, focus=_extents(t))
        if build == 'cbo_raw':
            L = ConceptLattice(list(cca.close_by_one(K)))            # generation order, not sorted
        elif build == 'latviz_file':
            L = ConceptLattice.read_json(case['path'])               # a lattice file shipped with the library
        else:
            if case['algo'] == 'Sofia':
                L = ConceptLattice.from_context(K, algo='Sofia', L_max=100000)   # non-binding limit: complete lattice
            else:
                L = ConceptLattice.from_context(K, algo=case['algo'])
            if build == 'shuffled':
                cs = list(L)
                random.Random(case['perm_seed']).shuffle(cs)
                L = ConceptLattice(cs)
            elif build == 'permuted':
                # hand-made concepts whose extent / intent listings are permuted (same sets)
                from fcapy.lattice.formal_concept import FormalConcept
                r = random.Random(case['perm_seed'])
                cs = []
                for c in L:
                    ei, ii = list(c.extent_i), list(c.intent_i)
                    r.shuffle(ei)
                    r.shuffle(ii)
                    cs.append(FormalConcept(ei, [K.object_names[g] for g in ei], ii,
                                            [K.attribute_names[m] for m in ii], context_hash=c.context_hash))
                if r.random() < 0.5:
                    r.shuffle(cs)
                L = ConceptLattice(cs)
            elif build == 'json_permuted':
                # a lattice file (as a third party may write it) whose Inds / Names lists are permuted
                import json as _json
                r = random.Random(case['perm_seed'])
                d = _json.loads(L.write_json(K.object_names, K.attribute_names))
                for node in d[1]['Nodes']:
                    for part in ('Ext', 'Int'):
                        if isinstance(node[part], dict):
                            perm = list(range(len(node[part]['Inds'])))
                            r.shuffle(perm)
                            node[part]['Inds'] = [node[part]['Inds'][k] for k in perm]
                            node[part]['Names'] = [node[part]['Names'][k] for k in perm]
                L = ConceptLattice.read_json(json_data=_json.dumps(d))
            elif build == 'latviz':
                # the LatViz layout of data/animal_movement_lattice.json: the bottom node (empty extent) carries
                # the placeholder "BOTTOM" instead of an intent, nodes carry no measures of ours
                import json as _json
                d = _json.loads(L.write_json(K.object_names, K.attribute_names))
                bot = d[0]['Bottom'][0]
                for k, node in enumerate(d[1]['Nodes']):
                    for key in ('LStab', 'UStab', 'Stab', 'log_stability_lbound', 'Context_Hash', 'Monotone'):
                        node.pop(key, None)
                    if k == bot and node['Ext']['Count'] == 0:
                        node['Int'] = 'BOTTOM'
                        node['Ext'] = {'Inds': [], 'Count': 0}
                L = ConceptLattice.read_json(json_data=_json.dumps(d))
            elif build == 'remove_add':
                removed = [_find(L, e) for e in case['pre_remove']]
                for c in removed:
                    L.remove(c)
                for c in removed:
                    L.add(c)
        snaps = []
        if warm:
            # ... and again between building the lattice and computing the measures, on the lattice's own extents
            from harness.c16c18_warm import warm_context
            warm_context(K, t, warm + 1, focus=[tuple(sorted(c.extent_i)) for c in L])
        with warnings.catch_warnings():
            warnings.simplefilter('ignore')
            ops_list = case['ops_list']
            snaps.append(dict(_observe(L, K, ops_list[0], True), complete=True, fresh=True))
            removed = []
            complete, fresh = True, True
            k = 1
            for step in case.get('history', []):
                kind = step[0]
                mutate_only = kind.endswith('_only')
                kind = kind[:-5] if mutate_only else kind
                if kind == 'remove':
                    for e in step[1]:
                        c = _find(L, e)
                        L.remove(c)
                        removed.append(c)
                    complete, fresh = False, False
                elif kind in ('add', 'add_nofill'):
                    for c in removed:
                        if kind == 'add':
                            L.add(c)
                        else:
                            L.add(c, fill_up_cache=False)
                    removed = []
                    complete, fresh = True, False
                elif kind in ('cycle', 'cycle_nofill'):
                    # remove and add back with NO read in between: same size, the re-added concepts now come last
                    cs = [_find(L, e) for e in step[1]]
                    for c in cs:
                        L.remove(c)
                    for c in cs:
                        if kind == 'cycle':
                            L.add(c)
                        else:
                            L.add(c, fill_up_cache=False)
                    fresh = False
                elif kind == 'derive':
                    # a lattice DERIVED from L (transpose, copies, a file written and read back) gets measures of
                    # its own; the values stored in L must not move
                    import copy as _copy
                    how = step[1]
                    Kd = K
                    if how == 'T':
                        D, Kd = L.T, K.T
                    elif how == 'TT':
                        D = L.T.T
                    elif how == 'copy':
                        D = _copy.copy(L)
                    elif how == 'deepcopy':
                        D = _copy.deepcopy(L)
                    else:
                        D = ConceptLattice.read_json(json_data=L.write_json(K.object_names, K.attribute_names))
                    if how in ('TT', 'deepcopy', 'json'):
                        for e in step[2]:
                            D.remove(_find(D, e))          # a pruned derived lattice has other bounds
                    for m in ('stability_bounds', 'log_stability_lbound', 'stability'):
                        D.calc_concepts_measures(m, Kd)
                    D.measures
                elif kind == 'json_back':
                    # the lattice written with its measures and read back is judged WITHOUT recomputing: every
                    # stored value (0 and 0.0 included) must have survived, for every concept; the same for the
                    # per-concept to_dict / from_dict and write_json / read_json routes
                    from fcapy.lattice.formal_concept import FormalConcept
                    if len(L) < 3:          # write_json refuses such lattices: a plain read instead
                        snaps.append(dict(_observe(L, K, [], False), complete=complete, fresh=fresh))
                        k += 1
                        continue
                    D = ConceptLattice.read_json(json_data=L.write_json(K.object_names, K.attribute_names))
                    sn = _observe(D, K, [], False, key_order=list(L.measures))
                    ok = sn['match'] and len(D) == len(L)
                    for c in L:
                        for c2 in (FormalConcept.from_dict(c.to_dict(K.object_names, K.attribute_names)),
                                   FormalConcept.read_json(json_data=c.write_json(K.object_names, K.attribute_names))):
                            for key, v in c.measures.items():
                                ok = ok and key in c2.measures and c2.measures[key] == v and \
                                    type(c2.measures[key]) in (type(v), float, int)
                            ok = ok and sorted(c2.extent_i) == sorted(c.extent_i) and \
                                sorted(c2.intent_i) == sorted(c.intent_i)
                    sn['match'] = bool(ok)
                    snaps.append(dict(sn, complete=complete, fresh=fresh))
                    k += 1
                    continue
                elif kind == 'rebuild':     # a second lattice over the SAME concept objects, some left out
                    L = ConceptLattice([c for c in L if sorted(c.extent_i) not in [sorted(e) for e in step[1]]])
                    complete, fresh = (not step[1]), False
                # 'calc' and 'read' change nothing; a '*_only' step and 'read' observe WITHOUT recomputing
                ops = [] if (mutate_only or kind in ('read', 'derive')) else ops_list[k]
                if ops and warm:
                    from harness.c16c18_warm import warm_context
                    warm_context(K, t, warm + 1 + k, focus=[tuple(sorted(c.extent_i)) for c in L])
                if ops:
                    fresh = True
                snaps.append(dict(_observe(L, K, ops, False), complete=complete, fresh=fresh))
                k += 1
        return {'n_bin': int(K.n_bin_attrs), 'snaps': snaps}
    r = guarded(go, timeout_s=60)
    return list(r)


def _optopt(v):
    if v == 'bad':
        return 'None'
    if v == 'inf':
        return '(Some None)'
    return '(Some (Some %d))' % v


def to_coq(case, out):
    head = 'Build_c16_case %s %s' % (COQ_BACKEND[case['backend']], coq(case['table']))
    if out[0] != 'ok':
        return '%s [] %d' % (head, ERR_KINDS.get(out[1], 11))
    snaps = []
    cum = []
    for ops, sn in zip(case['ops_list'], out[1]['snaps']):
        cum = cum + [op for op, _ in ops]
        cs = []
        for k in sn['concepts']:
            cs.append('Build_c16_concept %s %s %s %s %s %s %s %s' % (
                coq(k['extent']), coq(k['intent']), coq(k['children']),
                qlit(Fraction(*k['stab'])), qlit(Fraction(*k['lstab'])), qlit(Fraction(*k['ustab'])),
                _optopt(k['logd']), _optopt(k['logm'])))
        snaps.append('Build_c16_snap %s %s [%s] %s %s %s %s' % (
            coq(bool(sn['complete'])), coq(bool(sn['fresh'])), '; '.join(cs), coq(cum), coq(sn['keys']), coq(sn['lens']),
            coq(bool(sn['match']))))
    return '%s [%s] 0' % (head, '; '.join(snaps))


def extra_evidence(cases, outs):
    """Largest dyadic exponent among the implementation's values (every value must be k / 2^e), the
    largest extent and the number of concepts whose measures were compared."""
    max_exp, max_ext, n_concepts, non_dyadic, n_snaps = 0, 0, 0, 0, 0
    zeros = {'LStab': 0, 'UStab': 0, 'Stab': 0, 'log_stability_lbound': 0}
    for o in outs:
        if not (isinstance(o, (list, tuple)) and o and o[0] == 'ok'):
            continue
        for sn in o[1]['snaps']:
            n_snaps += 1
            for k in sn['concepts']:
                n_concepts += 1
                max_ext = max(max_ext, len(k['extent']))
                zeros['LStab'] += k['lstab'][0] == 0
                zeros['UStab'] += k['ustab'][0] == 0
                zeros['Stab'] += k['stab'][0] == 0
                zeros['log_stability_lbound'] += isinstance(k['logm'], int) and 2 ** k['logm'] == o[1]['n_bin']
                for key in ('stab', 'lstab', 'ustab'):
                    den = k[key][1]
                    if den & (den - 1):
                        non_dyadic += 1
                    max_exp = max(max_exp, den.bit_length() - 1)
    return {'largest_dyadic_exponent': max_exp, 'largest_extent': max_ext, 'observations': n_snaps,
            'concepts_compared': n_concepts, 'non_dyadic_values': non_dyadic,
            'zero_valued_measures_seen': {k: int(v) for k, v in zeros.items()}}


def nontrivial(case):
    t = case['table']
    flat = [v for r in t for v in r]
    return any(flat) and not all(flat) and len(t) >= 3 and len(t[0]) >= 2


def stats(case):
    t = case['table']
    o0 = case['ops_list'][0][0]
    return {'shape': '%dx%d' % (len(t), len(t[0])), 'backend': case['backend'], 'algo': case['algo'],
            'kind': case.get('kind', ''), 'first_op': OP_NAMES[o0[0]][o0[1]],
            'build': case.get('build', 'from_context'), 'context_warm_up': bool(case.get('warm')),
            'history': '+'.join(st[0] for st in case.get('history', [])) or 'none'}


def _ops(rng):
    ops = [[0, rng.randrange(3)], [1, 0], [2, 0]]
    rng.shuffle(ops)
    if rng.random() < 0.3:      # a measure computed twice (the second call overwrites)
        ops.append(list(rng.choice(ops)))
    return ops


def _extents(t):
    """all extents of the table, top and bottom first (the harness's own closure)"""
    h, w = len(t), len(t[0])
    out = set()
    for k in range(w + 1):
        for B in itertools.combinations(range(w), k):
            out.add(tuple(g for g in range(h) if all(t[g][m] for m in B)))
    out = sorted(out, key=lambda e: (-len(e), e))
    return out


def _mk(rng, t, kind, backend=None, algo=None, plain=False):
    c = {'table': t, 'backend': backend or rng.choice(BACKENDS),
         'algo': algo or rng.choice(['Lindig', 'Lindig', 'CbO', 'Sofia']), 'ops_list': [_ops(rng)], 'kind': kind,
         'build': 'from_context', 'history': []}
    if plain:
        return c
    if rng.random() < 0.5:
        c['warm'] = rng.randrange(1, 10 ** 6)
    exts = _extents(t)
    inner = [list(e) for e in exts[1:-1]]          # neither top nor bottom
    r = rng.random()
    if r < 0.25:
        c['build'] = 'shuffled'
        c['perm_seed'] = rng.randrange(10 ** 6)
    elif r < 0.33:
        c['build'] = 'cbo_raw'
    elif r < 0.45:
        # write_json refuses lattices with fewer than 3 concepts
        c['build'] = rng.choice(['permuted', 'json_permuted']) if len(exts) >= 3 else 'permuted'
        c['perm_seed'] = rng.randrange(10 ** 6)
    elif r < 0.52 and len(exts) >= 3 and len(exts[-1]) == 0:
        c['build'] = 'latviz'
    elif r < 0.62 and inner:
        c['build'] = 'remove_add'
        c['pre_remove'] = rng.sample(inner, rng.randint(1, min(2, len(inner))))
    r = rng.random()
    if inner and r < 0.3:
        # measures -> remove -> measures on the pruned lattice -> add back -> measures
        c['history'] = [['remove', rng.sample(inner, rng.randint(1, min(2, len(inner))))],
                        [rng.choice(['add', 'add_nofill'])]]
        if rng.random() < 0.3:
            c['history'].append(['remove', [rng.choice(inner)]])
    elif inner and r < 0.4:
        # a second lattice that reuses the concept objects (and their stored measures)
        c['history'] = [['rebuild', rng.sample(inner, rng.randint(1, min(2, len(inner))))]]
    elif inner and r < 0.62:
        # reads WITHOUT recomputing: the arrays of lattice.measures must follow the concepts of the
        # current lattice (entry i = the value held by concept i) whatever was removed or added since
        ex = ['remove_only', rng.sample(inner, rng.randint(1, min(2, len(inner))))]
        back = [rng.choice(['add_only', 'add_nofill_only'])]
        cyc = [rng.choice(['cycle_only', 'cycle_nofill_only']), ex[1]]
        c['history'] = rng.choice([[ex, back, ['calc']],
                                   [ex, ['calc'], back, ['read'], ['calc']],
                                   [ex, back, ['read']],
                                   [cyc, ['read'], ['calc']],
                                   [cyc, ['calc']],
                                   [['read'], cyc, ['calc'], cyc]])
    elif r < 0.8 and len(exts) >= 3 and c['build'] != 'latviz':
        # measures on a derived lattice, then RE-READ the original (json needs >= 3 concepts)
        how = rng.choice(['T', 'T', 'TT', 'copy', 'deepcopy', 'json'])
        prune = rng.sample(inner, 1) if inner and rng.random() < 0.7 else []
        c['history'] = [['derive', how, prune]]
        if rng.random() < 0.4:
            c['history'] += [['calc'], ['derive', rng.choice(['T', 'deepcopy', 'json']), prune]]
    # write the lattice with its measures, read it back, judge the copy as it is (write_json needs >= 3 concepts;
    # only when every measure is up to date, i.e. after a calc)
    if len(exts) >= 3 and not c['build'].startswith('latviz') and rng.random() < 0.4:
        c['history'] = c['history'] + [['json_back']]
    c['ops_list'] += [([] if (st[0].endswith('_only') or st[0] in ('read', 'derive', 'json_back')) else _ops(rng))
                      for st in c['history']]
    return c


def exhaustive_tables():
    for (h, w) in [(1, 1), (1, 2), (2, 1), (2, 2), (1, 3), (3, 1), (2, 3), (3, 2), (3, 3), (2, 4), (4, 2)]:
        for t in gen.all_tables(h, w):
            yield t


def special_tables(n):
    """Shapes with known stability: contranominal scale (boolean lattice), nominal scale, chain."""
    out = []
    for k in range(1, n + 1):
        out.append(([[i != j for j in range(k)] for i in range(k)], 'contranominal'))
        out.append(([[i == j for j in range(k)] for i in range(k)], 'nominal'))
        out.append(([[j <= i for j in range(k)] for i in range(k)], 'ordinal'))
    return out


def unused_attr_table(rng, max_h, max_w):
    """a random table with one all-False attribute and one object that has every other attribute"""
    t, _ = gen.random_table(rng, max_h, max_w, min_h=2, min_w=2)
    h, w = len(t), len(t[0])
    j = rng.randrange(w)
    g = rng.randrange(h)
    t = [[(False if b == j else (True if a == g else v)) for b, v in enumerate(r)] for a, r in enumerate(t)]
    return t


def generate(rng, tier):
    cases = []
    ex = list(exhaustive_tables())
    if tier == 'thorough':
        for n, t in enumerate(ex):
            cases.append(_mk(rng, t, 'exhaustive', backend='BinTableBitarray', algo=['Lindig', 'CbO'][n % 2],
                             plain=True))
        for t in rng.sample(ex, 600):
            cases.append(_mk(rng, t, 'exhaustive-history'))
        n_rand, max_h, max_w = 2500, 12, 7
        spec = special_tables(7)
    else:
        for t in rng.sample(ex, 120):
            cases.append(_mk(rng, t, 'exhaustive'))
        n_rand, max_h, max_w = 330, 10, 6
        spec = special_tables(5)
    for t, kind in spec:
        cases.append(_mk(rng, t, kind))
    for _ in range(n_rand // 10):
        cases.append(_mk(rng, unused_attr_table(rng, max_h, max_w), 'unused_attr', algo=rng.choice(['Sofia', 'Sofia', 'Lindig', 'CbO'])))
    for _ in range(n_rand):
        t, kind = gen.random_table(rng, max_h, max_w)
        if kind == 'contranominal' and len(t) > 7:
            t = [r[:7] for r in t[:7]]
        cases.append(_mk(rng, t, kind))
    return cases


def shrink(case):
    out = []
    if case.get('history'):
        for k in range(len(case['history'])):
            c = dict(case)
            c['history'] = case['history'][:k]
            c['ops_list'] = case['ops_list'][:k + 1]
            out.append(c)
        return out
    if case.get('build', 'from_context') == 'remove_add':
        c = dict(case)
        c['build'] = 'from_context'
        out.append(c)
        return out
    out = gen.shrink_table_case(case)
    c = dict(case)
    c['ops_list'] = [case['ops_list'][0][:3]]
    if c['ops_list'] != case['ops_list']:
        out.append(c)
    return out

"""C20 — a decision lattice converted from a regression tree predicts as the tree does; scaling.

A case = a numeric table (exact fractions on a dyadic grid), a target, how the tree is obtained
(scikit-learn DecisionTreeRegressor / a tree of a bootstrapped RandomForestRegressor / a hand-made
tree given by its arrays), the interval engine, and (constant, mode) scaling requests.
run_impl fits the tree (scikit-learn is outside the model), converts it with
DecisionLatticeRegressor.from_decision_tree, and returns the fitted tree's arrays together with
DL.predict(K), tree.predict(X) and the scaled predictions; the arrays are what Coq sees."""
from fractions import Fraction
from harness.core import coq, Raw, guarded, canon, ERR_KINDS

ID = 'C20'
COQ_IMPORTS = ['FCA.Corr.C20']
COQ_HEADER = ('From Coq Require Import ZArith.\n'
              'Definition q (a : BinNums.Z) (b : BinNums.positive) := QArith_base.Qmake a b.\n')
CASE_TYPE = 'c20_case'
CHECK = 'c20_check'
SHOW = 'c20_show'
SHARD = 40
RULE = ('cases = (table of <= 40 rows x 1-4 numeric columns on dyadic grids (integers, quarters, 1/1024, and finely resolved '
        'float32-representable columns: neighbours 2**-23 apart around 0.5 and 2**-10, 2**-22 apart around 1, 2**20 + k), target, tree source '
        '[sklearn DecisionTreeRegressor depth 1/2/3/None x max_leaf_nodes None/3/4/6/8 (best-first growth: '
        'children numbered consecutively, not pre-order) x seed, tree of a bootstrapped RandomForestRegressor '
        '(same parameters), hand-made fitted tree with arbitrary node values, hand-made tree violating the fitted '
        'hypothesis]; the node NUMBERING of hand-made trees is varied: pre-order, breadth-first (xgboost), '
        'best-first (siblings consecutive), random parent-before-child order, '
        'interval engine, scaling requests); non-trivial = the converted tree has >= 5 nodes, the table has '
        '>= 6 rows and the predictions take >= 3 distinct values')
TRUSTED_EXTRA = ['scikit-learn fitting and tree.predict are outside the model: the fitted arrays are the case, '
                 'tree.predict is compared with the spec tree_predict on every fitted case',
                 'hand-made trees are passed through from_decision_tree as a DecisionTreeRegressor whose tree_ '
                 'attribute carries the arrays',
                 'predictions are compared with the tolerance 1e-9*max(1,|x|); "original unchanged" exactly']
ASSUMPTIONS = ['data values are exactly representable in float32 (guard of the open finding D82) and below 2**23 in magnitude '
               '(from there on thr + 1e-9 == thr in float64; harmless for float32 data because thresholds are midpoints, '
               'but not generated)',
               'node 0 is the root and every parent has a smaller index than its children (true of scikit-learn depth-first '
               'and best-first builders and of xgboost; _parse_dt_arrays_to_drules reads premises[parent] while filling the list)',
               'the tree is fitted on the table: every node is reached by a row and no value lies strictly '
               'between a threshold and threshold+1e-9 (checked in Coq on every case, counted as non-fitted otherwise)',
               'xgboost boosters, from_random_forest / from_gradient_boosting sums are not covered']
ENGINES = ['IntervalPS', 'IntervalNumpyPS']
SCALES = [Fraction(2), Fraction(-1), Fraction(1, 2), Fraction(-3, 4), Fraction(3), Fraction(1, 3), Fraction(-7, 5),
          Fraction(1), Fraction(0), Fraction(10), Fraction(1, 1024), Fraction(-1, 8)]


def fr(p):
    return Fraction(p[0], p[1])


def ffr(x):
    f = Fraction(float(x))
    return [f.numerator, f.denominator]


def q(f):
    f = Fraction(f)
    return '(q %s %d)' % (('(%d)' % f.numerator) if f.numerator < 0 else str(f.numerator), f.denominator)


# ------------------------------------------------------------------ implementation

def build_tree(case, X, y):
    import numpy as np
    src = case['src']
    if src == 'dt':
        from sklearn.tree import DecisionTreeRegressor
        dt = DecisionTreeRegressor(max_depth=case['depth'], random_state=case['seed'],
                                   min_samples_leaf=case.get('msl', 1), max_features=case.get('mf'),
                                   max_leaf_nodes=case.get('mln'))
        dt.fit(X, y)
        return dt, True
    if src == 'rf':
        from sklearn.ensemble import RandomForestRegressor
        rf = RandomForestRegressor(n_estimators=case['rf_n'], max_depth=case['depth'], random_state=case['seed'],
                                   bootstrap=True, n_jobs=1, max_leaf_nodes=case.get('mln'))
        rf.fit(X, y)
        return rf.estimators_[case['rf_index']], True
    from types import SimpleNamespace
    from sklearn.tree import DecisionTreeRegressor
    t = case['tree']
    dt = DecisionTreeRegressor()
    dt.tree_ = SimpleNamespace(
        children_left=np.array(t['cl']), children_right=np.array(t['cr']), feature=np.array(t['f']),
        threshold=np.array([float(fr(v)) for v in t['thr']], dtype=float),
        value=np.array([float(fr(v)) for v in t['val']], dtype=float).reshape(-1, 1, 1))
    return dt, False


def tree_arrays(tr):
    import numpy as np
    return {'cl': [int(v) for v in tr.children_left], 'cr': [int(v) for v in tr.children_right],
            'f': [int(v) for v in tr.feature], 'thr': [ffr(v) for v in tr.threshold],
            'val': [ffr(v) for v in np.asarray(tr.value).flatten()]}


def snapshot(tr):
    import numpy as np
    return [np.array(getattr(tr, k), copy=True) for k in ('value', 'threshold', 'children_left', 'children_right', 'feature')]


def same_arrays(tr, snap):
    import numpy as np
    cur = [np.asarray(getattr(tr, k)) for k in ('value', 'threshold', 'children_left', 'children_right', 'feature')]
    return all(a.shape == b.shape and a.dtype == b.dtype and a.tobytes() == b.tobytes() for a, b in zip(cur, snap))


KTYPES = ['float', 'float', 'int', 'np.int64', 'np.int32', 'np.float64', 'np.float32', 'np.float16', 'Fraction']


def const(num, den, as_int=False, ktype=None, for_div=False):
    """the scaling constant as a Python / numpy number of the requested type, whenever that type holds the
    value exactly (else a float); the model scales by the exact rational num/den"""
    import numpy as np
    if ktype is None:
        ktype = 'int' if as_int else 'float'
    f = float(Fraction(num, den))
    dyadic = den & (den - 1) == 0 and den <= 1024 and abs(num) <= 2048
    if ktype == 'int' and den == 1:
        return int(num)
    if ktype in ('np.int64', 'np.int32') and den == 1:
        return getattr(np, ktype[3:])(num)
    # DL / k multiplies by 1/k computed in k's OWN precision: 1/np.float16(10) = 0.09998, 1/np.float32(3) is off by
    # 1e-8 - far beyond double rounding; low-precision divisors are used only when their reciprocal is exact
    pow2 = abs(num) & (abs(num) - 1) == 0 and num != 0
    if ktype in ('np.float32', 'np.float16') and dyadic and (pow2 or not for_div):
        return getattr(np, ktype[3:])(f)
    if ktype == 'np.float64':
        return np.float64(f)
    if ktype == 'Fraction':
        return Fraction(num, den)
    return f


def run_impl(case):
    import numpy as np

    def go():
        from copy import deepcopy
        from fcapy.mvcontext.mvcontext import MVContext
        from fcapy.mvcontext import pattern_structure as ps
        from fcapy.ml.decision_lattice import DecisionLatticeRegressor as DLR
        X = np.array([[float(fr(v)) for v in row] for row in case['X']], dtype=float)
        y = np.array([float(fr(v)) for v in case['y']], dtype=float)
        names = ['f%d' % j for j in range(X.shape[1])]
        engine = getattr(ps, case['engine'])
        engine2 = getattr(ps, [e for e in ENGINES if e != case['engine']][0])
        K = MVContext(X, {f: engine for f in names}, target=y, attribute_names=names)
        K2 = MVContext(X, {f: engine2 for f in names}, target=y, attribute_names=names)
        dt, real = build_tree(case, X, y)
        # the SAME estimator object may have been fitted (and converted) before: other target, depth, seed
        for j in range(case.get('refit', 0)):
            if case['src'] == 'dt':
                params = dt.get_params()
                dt.set_params(max_depth=[2, None, 1][j % 3], random_state=case['seed'] + 7 + j, max_leaf_nodes=None)
                dt.fit(X, (y[::-1] + (j + 1) * X[:, 0]) if j % 2 == 0 else -y)
                guarded(lambda: DLR.from_decision_tree(dt, K).predict(K), 60)
                dt.set_params(**params)
                dt.fit(X, y)
            elif case['src'] == 'mock':
                actual = dt.tree_
                from types import SimpleNamespace
                dt.tree_ = SimpleNamespace(children_left=actual.children_left.copy(), children_right=actual.children_right.copy(),
                                           feature=actual.feature.copy(), threshold=actual.threshold.copy(),
                                           value=(-actual.value.copy() + 1 + j))
                guarded(lambda: DLR.from_decision_tree(dt, K).predict(K), 60)
                dt.tree_ = actual
        tr = dt.tree_
        snap = snapshot(tr)
        out = {'tree': tree_arrays(tr), 'X': [[ffr(v) for v in row] for row in X],
               'f32': bool(all(float(np.float32(v)) == float(v) for v in X.flat)),
               'sk': [ffr(v) for v in dt.predict(X)] if real else None,
               'sk_after': None, 'kept': True, 'pred2': ['err', 'Other', 'not run'], 'scaled': [], 'hists': [],
               'tree2': {'cl': [-1], 'cr': [-1], 'f': [-2], 'thr': [[-2, 1]], 'val': [[0, 1]]},
               'other': ['err', 'Other', 'not run']}
        r = guarded(lambda: DLR.from_decision_tree(dt, K), 60)
        out['kept'] = same_arrays(tr, snap)
        if real:
            out['sk_after'] = [ffr(v) for v in dt.predict(X)]
        # a second conversion of the same tree object, on the other interval engine
        r2nd = guarded(lambda: [ffr(v) for v in DLR.from_decision_tree(dt, K2).predict(K2)], 60)
        out['pred2'] = list(r2nd)
        out['kept'] = out['kept'] and same_arrays(tr, snap)
        # another tree on the same table (for r += other * k)
        from sklearn.tree import DecisionTreeRegressor
        y2 = y + X[:, 0] - (X[:, -1] if X.shape[1] > 1 else 0)
        dt2 = DecisionTreeRegressor(max_depth=2, random_state=case.get('seed', 0) + 1).fit(X, y2)
        out['tree2'] = tree_arrays(dt2.tree_)
        ro = guarded(lambda: DLR.from_decision_tree(dt2, K), 60)
        if ro[0] == 'ok':
            O = ro[1]
            out['other'] = list(guarded(lambda: [ffr(v) for v in O.predict(K)], 60))
        else:
            out['other'] = ['err', ro[1], ro[2]]
        if r[0] == 'err':
            out['pred'] = ['err', r[1], r[2]]
            return out
        D = r[1]
        out['pred'] = ['ok', [ffr(v) for v in D.predict(K)]]
        out['n_concepts'] = len(D.lattice)
        sc = []
        for sc_entry in case['scales']:
            num, den, mode = sc_entry[:3]
            k = const(num, den, ktype=sc_entry[3] if len(sc_entry) > 3 else 'float', for_div=mode in (2, 3))

            def apply():
                if mode == 0:
                    return D * k
                if mode == 2:
                    return D / k
                D2 = deepcopy(D)
                if mode == 1:
                    D2 *= k
                else:
                    D2 /= k
                return D2
            r2 = guarded(lambda: [ffr(v) for v in apply().predict(K)], 60)
            orig = [ffr(v) for v in D.predict(K)]
            sc.append([num, den, mode, list(r2), orig])
        out['scaled'] = sc
        # histories on the RESULT of a scaling, interleaved with predictions of the original
        if ro[0] == 'ok':
            for h in case.get('hists', []):
                k = const(h['k'][0], h['k'][1], h.get('as_int', False), h.get('ktype'), for_div=h['div'])
                steps = []

                def both(rr):
                    a = guarded(lambda: [ffr(v) for v in rr.predict(K)], 60)
                    b = guarded(lambda: [ffr(v) for v in D.predict(K)], 60)
                    steps.append([list(a), list(b)])
                made = guarded(lambda: (D / k) if h['div'] else (D * k), 60)
                if made[0] != 'ok':
                    out['hists'].append({'fresh': True, 'steps': [[list(made), ['err', 'Other', '']]]})
                    continue
                R = made[1]
                fresh = R is not D
                both(R)
                for op in h['ops']:
                    c2 = const(op[1], op[2], h.get('as_int', False), h.get('ktype'), for_div=op[0] == 'div')

                    def do():
                        nonlocal R
                        if op[0] == 'mul':
                            R *= c2
                        elif op[0] == 'div':
                            R /= c2
                        else:
                            R += O * c2
                    e = guarded(do, 60)
                    if e[0] != 'ok':
                        steps.append([list(e), list(guarded(lambda: [ffr(v) for v in D.predict(K)], 60))])
                        break
                    both(R)
                out['hists'].append({'fresh': bool(fresh), 'steps': steps})
        return out
    return list(guarded(go, 180))


# ------------------------------------------------------------------ Coq terms

def tree_term(t, i=0):
    v = q(fr(t['val'][i]))
    if t['cl'][i] == -1:
        return '(RLeaf %s)' % v
    return '(RNode %s %d %s %s %s)' % (v, t['f'][i], q(fr(t['thr'][i])), tree_term(t, t['cl'][i]), tree_term(t, t['cr'][i]))


def qlist(vs):
    return '[' + '; '.join(q(fr(v)) for v in vs) + ']'


def dres(r):
    if r[0] == 'ok':
        return '(DOk %s)' % qlist(r[1])
    return '(DErr %d)' % ERR_KINDS.get(r[1], 11)


def opt_qlist(v):
    return 'None' if v is None else '(Some %s)' % qlist(v)


def hist_term(h, o):
    ops = '[' + '; '.join('(%s %s)' % ({'mul': 'SMul', 'div': 'SDiv', 'add': 'SAdd'}[op[0]], q(Fraction(op[1], op[2])))
                          for op in h['ops']) + ']'
    steps = '[' + '; '.join('(%s, %s)' % (dres(a), dres(b)) for a, b in o['steps']) + ']'
    return 'Build_hist %s %s %s %s %s' % (q(Fraction(h['k'][0], h['k'][1])), 'true' if h['div'] else 'false', ops,
                                          'true' if o['fresh'] else 'false', steps)


def to_coq(case, out):
    if out[0] != 'ok':
        # nothing ran (e.g. the fit itself failed): an impossible outcome for the model
        return ('Build_c20_case [] true (RLeaf (q 0 1)) (DErr %d) None None true (DErr 0) [] (RLeaf (q 0 1)) (DErr 0) []'
                % ERR_KINDS.get(out[1], 11))
    o = out[1]
    X = '[' + '; '.join(qlist(row) for row in o['X']) + ']'
    sc = '[' + '; '.join('Build_scaled %s %d %s %s' % (q(Fraction(n, d)), m, dres(r), qlist(orig))
                         for n, d, m, r, orig in o['scaled']) + ']'
    hs = '[' + '; '.join(hist_term(h, ho) for h, ho in zip(case.get('hists', []), o['hists'])) + ']'
    return 'Build_c20_case %s %s %s %s %s %s %s %s %s %s %s %s' % (
        X, 'true' if o['f32'] else 'false', tree_term(o['tree']), dres(o['pred']), opt_qlist(o['sk']),
        opt_qlist(o['sk_after']), 'true' if o['kept'] else 'false', dres(o['pred2']), sc,
        tree_term(o['tree2']), dres(o['other']), hs)


# ------------------------------------------------------------------ generators

def f2(x):
    x = Fraction(x)
    return [x.numerator, x.denominator]


def random_table(rng, max_rows):
    n = rng.randint(1, max_rows) if rng.random() < 0.15 else rng.randint(4, max_rows)
    w = rng.randint(1, 4)
    cols = []
    for _ in range(w):
        kind = rng.choice(['int', 'int', 'smallint', 'quarter', 'fine', 'const', 'neg', 'binary',
                           'f32_half', 'f32_one', 'f32_small', 'big'])
        if kind == 'int':
            col = [Fraction(rng.randint(0, 20)) for _ in range(n)]
        elif kind == 'smallint':
            col = [Fraction(rng.randint(0, 3)) for _ in range(n)]
        elif kind == 'quarter':
            col = [Fraction(rng.randint(-20, 40), 4) for _ in range(n)]
        elif kind == 'fine':
            col = [Fraction(rng.randint(0, 8 * 1024), 1024) for _ in range(n)]
        elif kind == 'f32_half':      # neighbouring float32-representable values around 0.5 (spacing 2**-23 = 1.19e-7,
            col = [Fraction(1, 2) + Fraction(rng.randint(0, 12), 2 ** 23) for _ in range(n)]   # just above sklearn's 1e-7)
        elif kind == 'f32_one':       # ... around 1 (float32 spacing there is 2**-23; 2**-22 steps can be split)
            col = [1 + Fraction(rng.randint(0, 12), 2 ** 22) for _ in range(n)]
        elif kind == 'f32_small':     # ... around 2**-10
            col = [Fraction(1, 2 ** 10) + Fraction(rng.randint(0, 12), 2 ** 23) for _ in range(n)]
        elif kind == 'big':           # large magnitude, coarse float32 spacing (still far below 2**23, where
            col = [Fraction(2 ** 20 + rng.randint(0, 12)) for _ in range(n)]                  # thr + 1e-9 == thr)
        elif kind == 'const':
            col = [Fraction(rng.randint(-2, 2))] * n
        elif kind == 'neg':
            col = [Fraction(rng.randint(-30, 5)) for _ in range(n)]
        else:
            col = [Fraction(rng.randint(0, 1)) for _ in range(n)]
        cols.append(col)
    X = [[cols[j][i] for j in range(w)] for i in range(n)]
    if n >= 3 and rng.random() < 0.3:            # duplicated rows
        for _ in range(rng.randint(1, 3)):
            a, b = rng.sample(range(n), 2)
            X[b] = list(X[a])
    tk = rng.choice(['int', 'int', 'quarter', 'fine', 'const', 'linear', 'binary'])
    if tk == 'int':
        y = [Fraction(rng.randint(-10, 30)) for _ in range(n)]
    elif tk == 'quarter':
        y = [Fraction(rng.randint(-40, 40), 4) for _ in range(n)]
    elif tk == 'fine':
        y = [Fraction(rng.randint(0, 4096), 1024) for _ in range(n)]
    elif tk == 'const':
        y = [Fraction(rng.randint(-3, 3))] * n
    elif tk == 'binary':
        y = [Fraction(rng.randint(0, 1)) for _ in range(n)]
    else:
        y = [2 * X[i][0] - (X[i][-1] if w > 1 else 0) + Fraction(rng.randint(-2, 2), 2) for i in range(n)]
    return X, y


def random_scales(rng, lo=1, hi=4):
    out = []
    for _ in range(rng.randint(lo, hi)):
        k = rng.choice(SCALES)
        mode = rng.randrange(4)
        if k == 0 and mode in (2, 3) and rng.random() < 0.7:
            k = Fraction(5, 2)
        kt = rng.choice(KTYPES)
        if k == 0 and kt.startswith('np.'):
            kt = 'float'          # numpy scalars turn 1/0 into inf with a warning instead of ZeroDivisionError
        out.append([k.numerator, k.denominator, mode, kt])
    return out


HIST_CONSTS = [Fraction(1), Fraction(1), Fraction(-1), Fraction(2), Fraction(1, 2), Fraction(-3, 4), Fraction(3), Fraction(1, 4)]


def random_hists(rng, lo=1, hi=2):
    """r = DL op k, then in-place operations on r; the constant exactly 1 (as int and as float) is frequent"""
    out = []
    for _ in range(rng.randint(lo, hi)):
        k = rng.choice(HIST_CONSTS)
        ops = []
        for _ in range(rng.randint(1, 3)):
            c2 = rng.choice(HIST_CONSTS + [Fraction(5, 2)])
            ops.append([rng.choice(['mul', 'div', 'add', 'add']), c2.numerator, c2.denominator])
        out.append({'k': [k.numerator, k.denominator], 'div': rng.random() < 0.4, 'ops': ops,
                    'as_int': rng.random() < 0.4, 'ktype': rng.choice([None, None] + KTYPES)})
    return out


def grow_tree(rng, X, rows, depth, arr, fitted=True):
    """random tree over the rows reaching the node; node values are arbitrary dyadics"""
    i = len(arr['cl'])
    for key, v in (('cl', -1), ('cr', -1), ('f', -2), ('thr', f2(-2)), ('val', f2(Fraction(rng.randint(-64, 64), 8)))):
        arr[key].append(v)
    if depth <= 0 or rng.random() < 0.2:
        return i
    w = len(X[0])
    feats = [j for j in range(w) if len({X[g][j] for g in rows}) >= 2]
    if not feats:
        return i
    j = rng.choice(feats)
    vals = sorted({X[g][j] for g in rows})
    k = rng.randrange(len(vals) - 1)
    mode = rng.random()
    if mode < 0.6:
        thr = (vals[k] + vals[k + 1]) / 2
    elif mode < 0.8:
        thr = vals[k]                                    # threshold on a data value
    else:
        thr = vals[k] + (vals[k + 1] - vals[k]) / 4
    left = [g for g in rows if X[g][j] <= thr]
    right = [g for g in rows if X[g][j] > thr]
    arr['f'][i] = j
    arr['thr'][i] = f2(thr)
    arr['cl'][i] = grow_tree(rng, X, left, depth - 1, arr)
    arr['cr'][i] = grow_tree(rng, X, right, depth - 1, arr)
    return i


def renumber(rng, arr, mode):
    """the same tree with another node numbering (root stays 0, parents before children)"""
    n = len(arr['cl'])
    order = [0]                       # order[new] = old
    if mode == 'bfs':
        k = 0
        while k < len(order):
            o = order[k]
            k += 1
            if arr['cl'][o] != -1:
                order += [arr['cl'][o], arr['cr'][o]]
    elif mode == 'best':              # expand some numbered inner node: its two children get the next two numbers
        open_ = [0] if arr['cl'][0] != -1 else []
        while open_:
            o = open_.pop(rng.randrange(len(open_)))
            kids = [arr['cl'][o], arr['cr'][o]]
            order += kids
            open_ += [c for c in kids if arr['cl'][c] != -1]
    else:                             # random linear extension of parent-before-child
        front = [c for c in (arr['cl'][0], arr['cr'][0]) if c != -1]
        while front:
            o = front.pop(rng.randrange(len(front)))
            order.append(o)
            front += [c for c in (arr['cl'][o], arr['cr'][o]) if c != -1]
    assert sorted(order) == list(range(n))
    new_of = {o: k for k, o in enumerate(order)}
    out = {}
    for key in ('f', 'thr', 'val'):
        out[key] = [arr[key][o] for o in order]
    for key in ('cl', 'cr'):
        out[key] = [(-1 if arr[key][o] == -1 else new_of[arr[key][o]]) for o in order]
    return out


def mock_case(rng, max_rows, engine):
    X, y = random_table(rng, max_rows)
    arr = {'cl': [], 'cr': [], 'f': [], 'thr': [], 'val': []}
    grow_tree(rng, X, list(range(len(X))), rng.randint(1, 5), arr)
    numbering = rng.choice(['pre', 'bfs', 'best', 'best', 'random', 'random'])
    if numbering != 'pre':
        arr = renumber(rng, arr, numbering)
    return {'engine': engine, 'X': [[f2(v) for v in r] for r in X], 'y': [f2(v) for v in y], 'src': 'mock',
            'tree': arr, 'scales': random_scales(rng, 1, 2), 'hists': random_hists(rng), 'depth': None, 'seed': 0,
            'numbering': numbering, 'refit': rng.choice([0, 0, 1])}


def broken_case(rng, max_rows, engine):
    """hand-made trees outside the fitted hypothesis: a value in the (thr, thr+eps) gap, an
    unreachable node, contradictory splits"""
    for _ in range(50):
        c = mock_case(rng, max_rows, engine)
        t = c['tree']
        inner = [i for i in range(len(t['cl'])) if t['cl'][i] != -1]
        if inner:
            break
    else:
        return c
    kind = rng.choice(['gap', 'gap', 'unreached', 'contra'])
    i = rng.choice(inner)
    j = t['f'][i]
    thr = fr(t['thr'][i])
    X = [[fr(v) for v in r] for r in c['X']]
    if kind == 'gap':
        cand = [g for g in range(len(X)) if X[g][j] > thr]
        if cand:
            g = rng.choice(cand)
            c['X'][g][j] = ffr(float(thr) + 5e-10)
    elif kind == 'unreached':
        t['thr'][i] = f2(max(r[j] for r in X) + rng.randint(0, 3))
    else:
        # the left child of i becomes a split on the same feature above thr: its right side is empty
        l = t['cl'][i]
        n = len(t['cl'])
        if t['cl'][l] == -1:
            for key, v in (('cl', -1), ('cr', -1), ('f', -2), ('thr', f2(-2)), ('val', f2(1))):
                t[key] += [v, v]
            t['cl'][l], t['cr'][l] = n, n + 1
        t['f'][l] = j
        t['thr'][l] = f2(thr + rng.randint(1, 3))
    c['src'] = 'broken'
    c['broken'] = kind
    c['scales'] = c['scales'][:1]
    c['hists'] = []
    return c


def fitted_case(rng, max_rows, engine):
    X, y = random_table(rng, max_rows)
    c = {'engine': engine, 'X': [[f2(v) for v in r] for r in X], 'y': [f2(v) for v in y],
         'depth': rng.choice([1, 2, 3, None]), 'seed': rng.randrange(1000), 'scales': random_scales(rng, 1, 2),
         'hists': random_hists(rng), 'refit': rng.choice([0, 0, 1, 1, 2]),
         'mln': rng.choice([None, None, 3, 4, 6, 8])}
    if rng.random() < 0.3:
        c.update(src='rf', rf_n=rng.randint(2, 4))
        c['rf_index'] = rng.randrange(c['rf_n'])
    else:
        c.update(src='dt', msl=rng.choice([1, 1, 1, 2, 3]), mf=rng.choice([None, None, 1]))
    return c


def generate(rng, tier):
    n, max_rows = (270, 24) if tier == 'quick' else (4000, 40)
    cases = []
    for i in range(n):
        engine = ENGINES[i % 2]
        r = rng.random()
        if r < 0.62:
            cases.append(fitted_case(rng, max_rows, engine))
        elif r < 0.9:
            cases.append(mock_case(rng, max_rows, engine))
        else:
            cases.append(broken_case(rng, max_rows, engine))
    return cases


# ------------------------------------------------------------------ evidence helpers

def nontrivial(case):
    ys = {tuple(v) for v in case['y']}
    if len(case['X']) < 6 or len(ys) < 3:
        return False
    if case['src'] in ('mock', 'broken'):
        return len(case['tree']['cl']) >= 5
    return case['depth'] != 1


def stats(case):
    d = {'src': case['src'], 'engine': case['engine'], 'rows': len(case['X']), 'cols': len(case['X'][0]),
         'max_leaf_nodes': case.get('mln'), 'numbering': case.get('numbering', 'sklearn'),
         'depth': case['depth'], 'n_scales': len(case['scales'])}
    if 'tree' in case:
        d['mock_nodes'] = len(case['tree']['cl'])
    if 'broken' in case:
        d['broken'] = case['broken']
    d['refits_of_same_estimator'] = case.get('refit', 0)
    for s in case['scales']:
        d['mode_%d' % s[2]] = True
        d['ktype_' + (s[3] if len(s) > 3 else 'float')] = True
    return d


def shrink(case):
    out = []
    if len(case['scales']) > 0:
        for i in range(len(case['scales'])):
            out.append(dict(case, scales=case['scales'][:i] + case['scales'][i + 1:]))
    hs = case.get('hists', [])
    for i in range(len(hs)):
        out.append(dict(case, hists=hs[:i] + hs[i + 1:]))
        if len(hs[i]['ops']) > 1:
            for j in range(len(hs[i]['ops'])):
                h2 = dict(hs[i], ops=hs[i]['ops'][:j] + hs[i]['ops'][j + 1:])
                out.append(dict(case, hists=hs[:i] + [h2] + hs[i + 1:]))
    n = len(case['X'])
    if n > 1:
        for i in range(n):
            out.append(dict(case, X=case['X'][:i] + case['X'][i + 1:], y=case['y'][:i] + case['y'][i + 1:]))
    if case['src'] in ('dt', 'rf') and case.get('mln') not in (None, 3):
        out.append(dict(case, mln=3))
    if case['src'] in ('dt', 'rf') and case['depth'] is None:
        out.append(dict(case, depth=3))
    if case['src'] in ('dt', 'rf') and case['depth'] in (2, 3):
        out.append(dict(case, depth=case['depth'] - 1))
    if case['src'] == 'rf':
        out.append(dict(case, src='dt', msl=1, mf=None))
    if case.get('refit', 0) > 0:
        out.append(dict(case, refit=case['refit'] - 1))
    return out

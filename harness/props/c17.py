"""C17 — tracing a context through a lattice finds exactly the describing concepts.

Three streams of cases:
  formal   a training table, the way its lattice is built (CbO / Lindig / Sofia with an L_max that may prune /
           a hand-made sub-list of concepts keeping top and bottom), a test table over the same attributes
  mv       the same with many-valued contexts: interval columns (IntervalPS / IntervalNumpyPS engines), exact
           (CbO) and Sofia-pruned pattern lattices and hand-made sub-lists, traced on many-valued test contexts
  history  trace -> edit the lattice (remove + add back, swap a concept for another one, add then remove) ->
           trace again; the second trace is judged on the CURRENT list of concepts
The implementation's lattice (extents, intents, top; children_dict for information) is recorded in the outcome;
the Coq model walks the TRUE cover relation of that list of extents, the spec side uses only the intents."""
from harness.core import coq, Raw, guarded, canon, ERR_KINDS
from harness import gen

ID = 'C17'
COQ_IMPORTS = ['FCA.Corr.C17']
CASE_TYPE = 'c17_case'
CHECK = 'c17_check'
SHOW = 'c17_show'
SHARD = 150
RULE = ('case = (training context [formal table | many-valued table of interval columns], lattice builder in '
        '{CbO, Lindig, Sofia(L_max), sub-list keeping top and bottom}, optional edit history of the lattice between '
        'two traces, test context over the same attributes in {training, unseen random, rows satisfying only the top, '
        'rows satisfying everything, mixed, resampled training rows, the training objects RE-DESCRIBED (same names, rows '
        'exchanged / permuted: hash_fixed may collide with the training context, finding D18)}, key mode); non-trivial = lattice of >= 4 '
        'concepts, test context with >= 2 distinct rows, some object is traced to a proper non-empty subset of '
        'the concepts')
EXHAUSTIVE = {'thorough': 'all 2x3 and 3x2 training tables x CbO lattice x all test tables with 2 rows over the '
                          'same attributes x both key modes'}
ASSUMPTIONS = [
    'the lattice is described to the model by the extents and intents of the concepts the implementation holds '
    '(after the edit history, if any) and the model walks the true cover relation of that list; that the list is '
    'a set of concepts of the training context is the subject of C02/C14/C15, not of this property',
    'many-valued contexts: interval columns with integer end points (exact in floats), both interval engines; '
    'NaN values are outside the quantifier (NaN breaks the Galois law of the interval structures of the '
    'unchanged tree: a NaN object is not in the extension of its own intention) and are not generated; '
    'SetPS / AttributePS columns are covered by the theorems but not generated',
    'the iteration order of the frozenset children_dict[c] is a parameter of the model; results are compared as sets',
]
BACKENDS = ['BinTableLists', 'BinTableNumpy', 'BinTableBitarray']
COQ_BACKEND = {'BinTableLists': 'BLists', 'BinTableNumpy': 'BNumpy', 'BinTableBitarray': 'BBitarray'}
ALGOS = ['CbO', 'Lindig', 'Sofia', 'Sofia', 'sub', 'sub']
ENGINES = ['IntervalPS', 'IntervalNumpyPS']


# ------------------------------------------------------------------ building contexts and lattices

def make_context(case, which):
    """which = 'train' | 'test'"""
    data = case[which]
    names = ['o%d' % k for k in case['names']] if which == 'test' else None
    if which == 'train' and case.get('share_names') and len(case['train']) == len(case['names']):
        # "the same objects, re-described": training and traced context have the same object names
        names = ['o%d' % k for k in case['names']]
    if case.get('mv'):
        from fcapy.mvcontext import MVContext, pattern_structure as PS
        w = len(case['engines'])
        anames = ['a%d' % j for j in range(w)]
        ptypes = {anames[j]: getattr(PS, case['engines'][j]) for j in range(w)}
        def cell(v, eng):
            if eng == 'SetPS':
                return frozenset(v)
            if eng == 'AttributePS':
                return bool(v)
            return tuple(v) if isinstance(v, list) else v
        rows = [[cell(v, case['engines'][j]) for j, v in enumerate(r)] for r in data]
        return MVContext(data=rows, pattern_types=ptypes, attribute_names=anames, object_names=names)
    from fcapy.context import FormalContext
    backend = case.get('train_backend' if which == 'train' else 'test_backend')
    kw = {'backend': backend} if backend else {}
    return FormalContext(data=[list(r) for r in data], object_names=names, **kw)


def build_lattice(case, K):
    from fcapy.lattice import ConceptLattice
    algo = case['algo']
    if case.get('mono'):
        return ConceptLattice.from_context(K, algo='CbO', is_monotone=True)
    if algo == 'Sofia':
        return ConceptLattice.from_context(K, algo='Sofia', L_max=case['L_max'])
    if algo == 'sub':
        L = ConceptLattice.from_context(K, algo='CbO')
        cs = list(L)
        keep = [0, len(cs) - 1] + [i for i in case['keep'] if 0 < i < len(cs)]
        kept = [cs[i] for i in sorted(set(keep))]
        if case.get('rebuild') and not case.get('mv'):
            # some concepts re-created by the user with FormalConcept.from_objects from a SHUFFLED object listing:
            # is_extent=True keeps the given order (extent_i not increasing - legitimate: equality and hash sort it),
            # is_extent=False closes the object set
            import random as _random
            from fcapy.lattice.formal_concept import FormalConcept
            for pos, seed, is_extent, by_name, extra in case['rebuild']:
                r = _random.Random(seed)
                if extra:
                    objs = r.sample(range(K.n_objects), r.randint(1, K.n_objects))
                    is_extent = False
                else:
                    pos = pos % len(kept)
                    objs = list(kept[pos].extent_i)
                    r.shuffle(objs)
                    if seed % 3 == 0:
                        objs.sort(reverse=True)
                arg = [K.object_names[g] for g in objs] if by_name else objs
                new = FormalConcept.from_objects(arg, K, is_extent=bool(is_extent))
                if extra:
                    if new not in kept:
                        kept.insert(1 + seed % max(1, len(kept) - 1), new)
                else:
                    kept[pos] = new
        return ConceptLattice(kept)
    return ConceptLattice.from_context(K, algo=algo)


def apply_history(case, L, K, Kt):
    """trace once (fills whatever the lattice memoises), then edit the lattice, size preserved or not"""
    from fcapy.lattice import ConceptLattice
    hist = case.get('history')
    if not hist:
        return
    fragile = case.get('mv') and any(e in ('SetPS', 'AttributePS') for e in case['engines'])

    def second_lattice(**kw):
        """another list of concepts of the same context; building it can fail on the unchanged tree for Set /
        Attribute structures (findings D16 / D17 of C14): then there is nothing to add"""
        try:
            return list(ConceptLattice.from_context(K, **kw))
        except Exception:       # noqa
            if fragile:
                return []
            raise
    L.trace_context(Kt, use_object_indices=True)
    full = None
    for op in hist:
        kind = op[0]
        n = len(L)
        inner = [i for i in range(n) if i not in (L.top, L.bottom)]
        if kind == 'present':                      # add a concept that is already there (a no-op for the structure)
            which = [L.top, L.bottom] + inner
            c = L[which[op[1] % len(which)]]
            if op[2] % 2:
                import copy as _copy
                c = _copy.deepcopy(c)               # an equal copy rather than the same object
            L.add(c)
            if op[-1] == 'trace':
                L.trace_context(Kt, use_object_indices=True)
            continue
        if kind == 'merge':                        # add every concept of a second lattice of the same context
            other = (second_lattice(algo='CbO') if op[1] % 2 == 0 else
                     second_lattice(algo='Sofia', L_max=3 + op[2] % 4))
            if op[2] % 3 == 0:
                other = list(reversed(other))
            for c in other:
                L.add(c)
            if op[-1] == 'trace':
                L.trace_context(Kt, use_object_indices=True)
            continue
        fill = not kind.endswith('_nofill')        # L.add(c, fill_up_cache=False): caches dropped, refilled lazily
        kind = kind.replace('_nofill', '')
        if kind == 'readd' and inner:              # take a concept out and put it back (indexes shift)
            i = inner[op[1] % len(inner)]
            c = L[i]
            del L[i]
            L.add(c, fill_up_cache=fill)
        elif kind in ('swap', 'add_del', 'add'):
            if full is None:
                full = second_lattice(algo='CbO')
            have = list(L)
            other = [c for c in full if c not in have]
            if not other:
                continue
            new = other[op[2] % len(other)]
            if kind == 'swap' and inner:            # another concept of the complete lattice instead of this one
                del L[inner[op[1] % len(inner)]]
                L.add(new, fill_up_cache=fill)
            elif kind == 'add_del' and inner:       # add first, then delete an old one
                L.add(new, fill_up_cache=fill)
                L.remove(have[inner[op[1] % len(inner)]])
            elif kind == 'add':
                L.add(new, fill_up_cache=fill)
        elif kind == 'del' and inner:
            del L[inner[op[1] % len(inner)]]
        if op[-1] == 'trace':                      # an intermediate look at the lattice
            L.trace_context(Kt, use_object_indices=True)


def intent_info(case, c):
    if not case.get('mv'):
        return sorted(int(m) for m in c.intent_i)
    out = []
    for k, d in c.intent_i.items():
        eng = case['engines'][int(k)]
        if eng == 'SetPS':
            out.append([int(k), None if d is None else sorted(int(x) for x in d)])
        elif eng == 'AttributePS':
            out.append([int(k), bool(d)])
        elif d is None:
            out.append([int(k), None])
        elif isinstance(d, (tuple, list)):
            out.append([int(k), [canon(d[0]), canon(d[1])]])
        else:
            out.append([int(k), [canon(d), canon(d)]])
    return out


def run_impl(case):
    def go():
        K = make_context(case, 'train')
        Kt = make_context(case, 'test')
        try:
            L = build_lattice(case, K)
        except Exception as e:      # noqa
            if case.get('mv') and any(e_ in ('SetPS', 'AttributePS') for e_ in case['engines']):
                # building pattern lattices with Set / Attribute structures can fail on the unchanged tree
                # (findings D16 / D17 of C14): not this property's subject, the input is skipped
                return {'skip': '%s: %s' % (type(e).__name__, str(e)[:80])}
            raise
        apply_history(case, L, K, Kt)
        n = len(L)
        # warm-up: the TRACED context object is asked through its public API before it is traced (extents of the
        # lattice's intents with and without base objects, intents of object sets, a first trace)
        for w in case.get('warmup') or []:
            kind, a, b = w[0], w[1], w[2]
            h = Kt.n_objects
            if kind == 'trace':
                L.trace_context(Kt, use_object_indices=bool(a % 2))
                continue
            base = None if b is None else sorted({g % h for g in b}) if h else []
            if kind == 'ext':
                Kt.extension_i(L[a % n].intent_i, base)
            elif kind == 'ext_attr' and not case.get('mv'):
                Kt.extension_i([a % Kt.n_attributes] if Kt.n_attributes else [], base)
            elif kind == 'int':
                objs = sorted({g % h for g in (b or [a])}) if h else []
                Kt.intention_i(objs)
            elif kind == 'int_base' and not case.get('mv') and Kt.n_attributes:
                Kt.intention_i([a % h] if h else [], sorted({m % Kt.n_attributes for m in (b or [0])}))
        try:
            bot, tr = L.trace_context(Kt, use_object_indices=case['by_index'])
            err = None
        except NotImplementedError:
            err = 'NotImplementedError'
        info = {'exts': [sorted(int(g) for g in c.extent_i) for c in L],
                'intents': [intent_info(case, c) for c in L],
                'children': [sorted(int(x) for x in L.children_dict[i]) for i in range(n)],
                'top': int(L.top)}
        if err:
            return {'info': info, 'err': err}

        def items(d):
            out = []
            for k, v in d.items():
                k = int(k) if case['by_index'] else int(k[1:])
                out.append([k, sorted(int(x) for x in v)])
            return sorted(out)
        return {'info': info, 'bottom': items(bot), 'traced': items(tr)}
    return list(guarded(go, timeout_s=30))


# ------------------------------------------------------------------ Coq terms

def zint(v):
    f = float(v)
    if f != f or f != int(f):
        raise ValueError('interval end point %r is not an integer' % (v,))
    return '(%d)%%Z' % int(f)


def coq_cell(v):
    lo, hi = (v if isinstance(v, (list, tuple)) else (v, v))
    return '(%s, %s)' % (zint(lo), zint(hi))


def coq_mv_intent(case, intent):
    parts = []
    for k, d in intent:
        eng = case['engines'][k]
        if eng == 'SetPS':
            parts.append('(%d, DSet %s)' % (k, 'None' if d is None else '(Some %s)' % coq(d)))
        elif eng == 'AttributePS':
            parts.append('(%d, DAttr %s)' % (k, coq(bool(d))))
        else:
            parts.append('(%d, DIv %s)' % (k, 'None' if d is None else '(Some (%s, %s))' % (zint(d[0]), zint(d[1]))))
    return '[' + '; '.join(parts) + ']'


def coq_ctx(case, info):
    if not case.get('mv'):
        return '(TFormal %s %s %s)' % (COQ_BACKEND[case.get('test_backend') or 'BinTableBitarray'],
                                       coq(info['intents']), coq(case['test']))
    test = case['test']
    w = len(case['engines'])
    cols = []
    for j in range(w):
        eng = case['engines'][j]
        if eng == 'SetPS':
            cols.append('CSet %s' % coq([sorted(r[j]) for r in test]))
        elif eng == 'AttributePS':
            cols.append('CAttr %s' % coq([bool(r[j]) for r in test]))
        else:
            ctor = 'CInterval' if eng == 'IntervalPS' else 'CIntervalNp'
            cols.append('%s [%s]' % (ctor, '; '.join(coq_cell(r[j]) for r in test)))
    return '(TMV [%s] %d [%s])' % ('; '.join(coq_mv_intent(case, i) for i in info['intents']), len(test), '; '.join(cols))


def to_coq(case, out):
    info = {'exts': [], 'intents': [], 'children': [], 'top': 0}
    if out[0] == 'ok' and 'skip' in out[1]:
        # skipped input: a degenerate case that checks to 0 (refusal of a monotone lattice)
        return ('Build_c17_case [] (TFormal BBitarray [] []) [] 0 true [] true (IErr %d)' % ERR_KINDS['NotImplementedError'])
    if out[0] == 'ok':
        o = out[1]
        info = o['info']
        if 'err' in o:
            impl = Raw('(IErr %d)' % ERR_KINDS[o['err']])
        else:
            pairs = lambda d: coq([(k, v) for k, v in d])
            impl = Raw('(IOk (%s, %s))' % (pairs(o['bottom']), pairs(o['traced'])))
    else:
        impl = Raw('(IErr %d)' % ERR_KINDS.get(out[1], 11))
    return 'Build_c17_case %s %s %s %d %s %s %s %s' % (
        coq(info['exts']), coq_ctx(case, info), coq(info['children']), info['top'],
        coq(bool(case.get('mono'))), coq(case['names']), coq(bool(case['by_index'])), impl)


# ------------------------------------------------------------------ generation

def _mk(train, algo, test, names, by_index, L_max=100, keep=None, mono=False, kind='', test_kind='',
        mv=False, engines=None, history=None, share_names=False, train_backend=None, test_backend=None,
        rebuild=None, warmup=None):
    return {'warmup': warmup or [], 'rebuild': rebuild or [], 'train_backend': train_backend, 'test_backend': test_backend, 'share_names': share_names, 'train': train, 'algo': algo, 'L_max': L_max, 'keep': keep or [], 'mono': mono, 'test': test,
            'names': names, 'by_index': by_index, 'kind': kind, 'test_kind': test_kind, 'mv': mv,
            'engines': engines or [], 'history': history or []}


def n_extents(table):
    h = len(table)
    w = len(table[0])
    exts = {frozenset(range(h))}
    for j in range(w):
        col = frozenset(i for i in range(h) if table[i][j])
        exts |= {e & col for e in exts}
    return len(exts)


def scale_table(rng, max_dim):
    """Tables whose intents are runs of neighbouring attribute indexes: ordinal scales, interval-like rows, wide."""
    w = rng.randint(4, max(5, max_dim + 2))
    h = rng.randint(3, max_dim)
    kind = rng.choice(['ordinal', 'runs', 'runs', 'ordinal_rev'])
    if kind == 'ordinal':
        t = [[j <= (i * w) // h + rng.randint(0, 1) for j in range(w)] for i in range(h)]
    elif kind == 'ordinal_rev':
        t = [[j >= (i * w) // (h + 1) for j in range(w)] for i in range(h)]
    else:
        t = []
        for _ in range(h):
            a = rng.randint(0, w - 3)
            b = rng.randint(a + 2, w - 1)
            t.append([a <= j <= b for j in range(w)])
    return t, 'scale-' + kind


def closed_intents(table):
    """intents of all concepts: intersections of rows (and the full attribute set)"""
    w = len(table[0])
    ints = {frozenset(range(w))}
    for r in table:
        row = frozenset(j for j in range(w) if r[j])
        ints |= {i & row for i in ints}
    return [sorted(i) for i in ints]


def miss_one_rows(rng, train, max_h):
    """unseen objects that have every attribute of some concept intent except exactly one (first / middle / last),
    preferring intents that are runs of >= 3 neighbouring attributes"""
    w = len(train[0])
    ints = [i for i in closed_intents(train) if len(i) >= 2]
    runs = [i for i in ints if len(i) >= 3 and i[-1] - i[0] == len(i) - 1]
    rows = []
    for _ in range(rng.randint(2, max_h)):
        pool = runs if runs and rng.random() < 0.75 else ints
        if not pool:
            rows.append([rng.random() < 0.5 for _ in range(w)])
            continue
        it = rng.choice(pool)
        drop = rng.choice([it[0], it[-1], it[-1], it[len(it) // 2]])
        extra = rng.random() < 0.3
        rows.append([(j in it and j != drop) or (extra and j not in it and rng.random() < 0.3) for j in range(w)])
    if rng.random() < 0.5 and pool:
        it = rng.choice(pool)
        rows.append([j in it for j in range(w)])          # and one that has the whole intent
    return rows


def train_table(rng, max_dim):
    best = None
    if rng.random() < 0.22:
        for _ in range(6):
            t, kind = scale_table(rng, max_dim)
            k = n_extents(t)
            if 3 <= k <= 20:
                return t, kind, k
    for _ in range(6):
        if rng.random() < 0.5:
            h, w = rng.randint(2, max_dim), rng.randint(2, max_dim)
            p = rng.choice([0.35, 0.5, 0.65, 0.75])
            t, kind = [[rng.random() < p for _ in range(w)] for _ in range(h)], 'mid'
        else:
            t, kind = gen.random_table(rng, max_dim, max_dim)
        k = n_extents(t)
        if k > 20:      # keep lattices small: the Coq-side check is cubic in the number of concepts
            continue
        if best is None or k > best[2]:
            best = (t, kind, k)
        if k >= 5 or rng.random() < 0.08:
            break
    if best is None:
        t = [[True, False], [False, True]]
        best = (t, 'fallback', n_extents(t))
    return best


# pairs of different tables whose FormalContext.hash_fixed (adler32 of a rendering) is the same: finding D18 of C08
COLLIDING_TABLES = [
    [[[False, True, True, False]], [[True, False, False, True]]],
    [[[False, True], [True, False]], [[True, False], [False, True]]],
    [[[False, False, True, True, False]], [[False, True, False, False, True]]],
    [[[False, True, False, True, False]], [[True, False, False, False, True]]],
    [[[False, True, True, False, True]], [[True, False, False, True, True]]],
    [[[False, False, True], [False, True, False]], [[False, True, False], [False, False, True]]],
    [[[False, False, True], [True, False, True]], [[False, True, False], [False, True, True]]],
    [[[False, False, True], [True, True, False]], [[False, True, False], [True, False, True]]],
    [[[False, False], [False, True], [True, False]], [[False, False], [True, False], [False, True]]],
    [[[False, False], [True, True], [False, True]], [[False, True], [False, False], [True, True]]],
    [[[False, False], [True, True], [True, False]], [[True, False], [False, False], [True, True]]],
    [[[False, False, True, True, False, True]], [[False, True, False, False, True, True]]],
]


def redescribed(rng, train):
    """The training objects, re-described: same object names, same multiset of rows (or of cross counts), but
    not the same table.  hash_fixed() of such a context may equal the training context's (adler32 is blind to
    exchanging two rows with equally many crosses); trace_context must not care.  Returns (rows, kind) or None."""
    h = len(train)
    rows = [list(r) for r in train]
    mode = rng.choice(['swap_equal_count', 'swap_equal_count', 'perm_rows', 'perm_in_count_classes'])
    if mode == 'swap_equal_count':
        pairs = [(i, j) for i in range(h) for j in range(i) if sum(rows[i]) == sum(rows[j]) and rows[i] != rows[j]]
        if not pairs:
            mode = 'perm_rows'
        else:
            i, j = rng.choice(pairs)
            rows[i], rows[j] = rows[j], rows[i]
    if mode == 'perm_in_count_classes':
        by = {}
        for i, r in enumerate(rows):
            by.setdefault(sum(r), []).append(i)
        new = [None] * h
        for idxs in by.values():
            sh = list(idxs)
            rng.shuffle(sh)
            for a, b in zip(idxs, sh):
                new[a] = rows[b]
        rows = new
    if mode == 'perm_rows':
        rng.shuffle(rows)
    if rows == [list(r) for r in train]:
        return None
    return rows, 'redescribed:' + mode


def test_table(rng, train, max_h):
    w = len(train[0])
    kind = rng.choice(['training', 'unseen', 'unseen', 'unseen', 'all_false', 'all_true', 'mixed', 'mixed',
                       'train_rows_shuffled', 'redescribed', 'redescribed', 'miss_one', 'miss_one'])
    if kind == 'miss_one':
        return miss_one_rows(rng, train, max_h), kind
    if kind == 'redescribed':
        r = redescribed(rng, train)
        if r is not None:
            return r
        kind = 'training'
    if kind == 'training':
        return [list(r) for r in train], kind
    if kind == 'train_rows_shuffled':
        rows = [list(rng.choice(train)) for _ in range(rng.randint(1, max_h))]
        return rows, kind
    h = rng.randint(1, max_h)
    if kind == 'all_false':
        return [[False] * w for _ in range(h)], kind
    if kind == 'all_true':
        return [[True] * w for _ in range(h)], kind
    p = rng.choice([0.2, 0.5, 0.8])
    rows = [[rng.random() < p for _ in range(w)] for _ in range(h)]
    if kind == 'mixed':
        rows[rng.randrange(h)] = [False] * w
        rows[rng.randrange(h)] = [True] * w
        if rng.random() < 0.5:
            rows[rng.randrange(h)] = list(rng.choice(train))
    return rows, kind


def random_history(rng):
    ops = []
    for _ in range(rng.choice([1, 1, 1, 2, 3])):
        kind = rng.choice(['readd', 'readd', 'swap', 'swap', 'add_del', 'add', 'add', 'del', 'del', 'del', 'present',
                           'present', 'merge'])
        if kind not in ('del', 'present', 'merge') and rng.random() < 0.45:
            kind += '_nofill'
        op = [kind, rng.randrange(50), rng.randrange(50)]
        if rng.random() < 0.3:
            op.append('trace')
        ops.append(op)
    return ops


def random_case(rng, max_dim, history=False):
    train, kind, k = train_table(rng, max_dim)
    algo = rng.choice(ALGOS)
    L_max, keep, mono = 100, None, False
    if algo == 'Sofia':
        L_max = rng.choice([2, 3, 4, 5, 6, 8, 100])
    if algo == 'sub':
        inner = list(range(1, k - 1))
        keep = sorted(rng.sample(inner, rng.randint(len(inner) // 2, len(inner)))) if inner else []
    if rng.random() < 0.02 and not history:
        mono = True
    test, tk = test_table(rng, train, max_dim + 1)
    if rng.random() < 0.04 and not history:
        # a pair of different contexts from C08's list of adler32 collisions, traced one through the other
        ta, tb = rng.choice(COLLIDING_TABLES)
        if rng.random() < 0.5:
            ta, tb = tb, ta
        train, test, tk, kind = [list(r) for r in ta], [list(r) for r in tb], 'redescribed:D18-collision', 'collide'
        algo, keep, L_max = rng.choice(['CbO', 'Lindig', 'Sofia']), None, 100
    names = rng.sample(range(60), len(test))
    hist = random_history(rng) if history else None
    share = tk.startswith('redescribed') or (tk == 'training' and rng.random() < 0.5)
    # the back-ends of the training and of the traced context, independently (None = the default one)
    tr_b = rng.choice([None, None] + BACKENDS)
    te_b = rng.choice([None] + BACKENDS + ['BinTableNumpy', 'BinTableLists'])
    if kind.startswith('scale') and tk != 'miss_one' and rng.random() < 0.6:
        test, tk = miss_one_rows(rng, train, max_dim + 1), 'miss_one'
        names = rng.sample(range(60), len(test))
        share = False
    rebuild = None
    if algo == 'sub' and rng.random() < 0.6:
        rebuild = [[rng.randrange(50), rng.randrange(1000), rng.random() < 0.7, rng.random() < 0.5, rng.random() < 0.2]
                   for _ in range(rng.randint(1, 4))]
    return _mk(train, algo, test, names, rng.random() < 0.5, L_max, keep, mono, kind, tk, history=hist,
               share_names=share, train_backend=tr_b, test_backend=te_b, rebuild=rebuild)


# ---- many-valued

def mv_cell(rng, vmax):
    if rng.random() < 0.65:
        return rng.randint(0, vmax)
    a, b = rng.randint(0, vmax), rng.randint(0, vmax)
    return [min(a, b), max(a, b)]


def mv_table(rng, max_h, max_w):
    h, w = rng.randint(2, max_h), rng.randint(1, max_w)
    vmax = rng.choice([2, 3, 5])
    rows = [[mv_cell(rng, vmax) for _ in range(w)] for _ in range(h)]
    if rng.random() < 0.25 and h >= 2:       # duplicated object
        rows[rng.randrange(h)] = [v if not isinstance(v, list) else list(v) for v in rows[rng.randrange(h)]]
    return rows, vmax


def mv_extents(rows):
    """number of interval-pattern concepts: closures of all non-empty object sets (+ the empty extent)"""
    import itertools
    h, w = len(rows), len(rows[0])
    iv = lambda v: (v[0], v[1]) if isinstance(v, list) else (v, v)
    exts = set()
    for k in range(1, h + 1):
        for A in itertools.combinations(range(h), k):
            d = [(min(iv(rows[g][j])[0] for g in A), max(iv(rows[g][j])[1] for g in A)) for j in range(w)]
            exts.add(frozenset(g for g in range(h)
                               if all(d[j][0] <= iv(rows[g][j])[0] and iv(rows[g][j])[1] <= d[j][1] for j in range(w))))
    return len(exts) + 1


def mv_test(rng, train, vmax, max_h):
    w = len(train[0])
    kind = rng.choice(['training', 'unseen', 'unseen', 'unseen', 'only_top', 'everything', 'mixed', 'mixed',
                       'train_rows_shuffled', 'outside', 'redescribed', 'redescribed'])
    copy = lambda r: [list(v) if isinstance(v, list) else v for v in r]
    iv = lambda v: (v[0], v[1]) if isinstance(v, list) else (v, v)
    if kind == 'redescribed':
        # same objects, rows exchanged; rows whose renderings have the same length and digit sum collide under adler32
        rows = [copy(r) for r in train]
        sig = lambda r: sorted(str(sorted(x for v in r for x in iv(v))))
        pairs = [(i, j) for i in range(len(rows)) for j in range(i) if rows[i] != rows[j]]
        good = [(i, j) for i, j in pairs if sig(rows[i]) == sig(rows[j])]
        if good or pairs:
            i, j = rng.choice(good or pairs)
            rows[i], rows[j] = rows[j], rows[i]
            return rows, 'redescribed:' + ('swap_same_digits' if good else 'swap_rows')
        kind = 'training'
        return [copy(r) for r in train], kind
    if kind == 'train_rows_shuffled':
        return [copy(rng.choice(train)) for _ in range(rng.randint(1, max_h))], kind
    h = rng.randint(1, max_h)
    # a row that fits only the top: per column the whole range of the training data
    lo = [min(iv(r[j])[0] for r in train) for j in range(w)]
    hi = [max(iv(r[j])[1] for r in train) for j in range(w)]
    only_top = [[lo[j], hi[j]] for j in range(w)]
    # a row that fits every concept with a proper description: a point inside every training value, if any
    inner = [max(iv(r[j])[0] for r in train) for j in range(w)]
    everything = [inner[j] for j in range(w)]
    outside = [hi[j] + 1 + rng.randint(0, 2) for j in range(w)]
    if kind == 'only_top':
        return [copy(only_top) for _ in range(h)], kind
    if kind == 'everything':
        return [copy(everything) for _ in range(h)], kind
    if kind == 'outside':
        return [copy(outside) for _ in range(h)], kind
    rows = [[mv_cell(rng, vmax + 1) for _ in range(w)] for _ in range(h)]
    if kind == 'mixed':
        rows[rng.randrange(h)] = copy(only_top)
        rows[rng.randrange(h)] = copy(outside)
        if rng.random() < 0.5:
            rows[rng.randrange(h)] = copy(rng.choice(train))
    return rows, kind


def random_mv_case(rng, max_h, history=False):
    for _ in range(20):
        train, vmax = mv_table(rng, max_h, 3)
        k = mv_extents(train)
        if 3 <= k <= 16:
            break
    w = len(train[0])
    engines = [rng.choice(ENGINES) for _ in range(w)]
    algo = rng.choice(['CbO', 'CbO', 'Sofia', 'Sofia', 'sub'])
    L_max, keep = 100, None
    if algo == 'Sofia':
        L_max = rng.choice([2, 3, 4, 6, 100])
    if algo == 'sub':
        inner = list(range(1, 14))
        keep = sorted(rng.sample(inner, rng.randint(3, 10)))
    test, tk = mv_test(rng, train, vmax, max_h + 1)
    names = rng.sample(range(60), len(test))
    hist = random_history(rng) if history else None
    share = tk.startswith('redescribed') or (tk == 'training' and rng.random() < 0.5)
    return _mk(train, algo, test, names, rng.random() < 0.5, L_max, keep, False, 'mv', tk, mv=True,
               engines=engines, history=hist, share_names=share)


# ---- many-valued, all four pattern structures in varying column order
ALL_ENGINES = ['IntervalPS', 'IntervalNumpyPS', 'SetPS', 'SetPS', 'AttributePS', 'AttributePS']


def mix_cell(rng, eng, vmax=3):
    if eng == 'SetPS':
        return sorted(rng.sample(range(3), rng.choice([0, 1, 1, 2, 2, 3])))      # value sets, the empty one included
    if eng == 'AttributePS':
        return rng.random() < 0.6
    return mv_cell(rng, vmax)


def mix_copy(r):
    return [list(v) if isinstance(v, list) else v for v in r]


def mix_test(rng, train, engines, max_h):
    w = len(engines)
    iv = lambda v: (v[0], v[1]) if isinstance(v, list) else (v, v)
    kind = rng.choice(['training', 'unseen', 'unseen', 'unseen', 'only_top', 'everything', 'outside', 'mixed', 'mixed',
                       'train_rows_shuffled', 'redescribed'])
    if kind == 'training':
        return [mix_copy(r) for r in train], kind
    if kind == 'redescribed':
        rows = [mix_copy(r) for r in train]
        pairs = [(i, j) for i in range(len(rows)) for j in range(i) if rows[i] != rows[j]]
        if not pairs:
            return rows, 'training'
        i, j = rng.choice(pairs)
        rows[i], rows[j] = rows[j], rows[i]
        return rows, 'redescribed:swap_rows'
    if kind == 'train_rows_shuffled':
        return [mix_copy(rng.choice(train)) for _ in range(rng.randint(1, max_h))], kind

    def extreme(which):
        row = []
        for j, eng in enumerate(engines):
            col = [r[j] for r in train]
            if eng == 'SetPS':
                row.append({'only_top': sorted(set().union(*[set(v) for v in col])), 'everything': [],
                            'outside': [7]}[which])
            elif eng == 'AttributePS':
                row.append({'only_top': False, 'everything': True, 'outside': False}[which])
            else:
                lo, hi = min(iv(v)[0] for v in col), max(iv(v)[1] for v in col)
                row.append({'only_top': [lo, hi], 'everything': max(iv(v)[0] for v in col),
                            'outside': hi + 1 + rng.randint(0, 2)}[which])
        return row
    h = rng.randint(1, max_h)
    if kind in ('only_top', 'everything', 'outside'):
        return [extreme(kind) for _ in range(h)], kind
    rows = [[mix_cell(rng, engines[j], 4) for j in range(w)] for _ in range(h)]
    if kind == 'mixed':
        rows[rng.randrange(h)] = extreme('only_top')
        rows[rng.randrange(h)] = extreme('outside')
        if rng.random() < 0.5:
            rows[rng.randrange(h)] = mix_copy(rng.choice(train))
    return rows, kind


def random_mvmix_case(rng, max_h, history=False):
    h, w = rng.randint(2, min(max_h, 5)), rng.randint(2, 3)
    engines = [rng.choice(ALL_ENGINES) for _ in range(w)]
    if not any(e in ('SetPS', 'AttributePS') for e in engines):
        engines[rng.randrange(w)] = rng.choice(['SetPS', 'AttributePS'])
    if 'AttributePS' in engines and rng.random() < 0.6:
        # an attribute-like column placed AFTER another column (the narrowing of the earlier columns must survive)
        j = engines.index('AttributePS')
        engines[j], engines[-1] = engines[-1], engines[j]
    train = [[mix_cell(rng, engines[j]) for j in range(w)] for _ in range(h)]
    algo = rng.choice(['CbO', 'CbO', 'Sofia', 'Sofia', 'sub'])
    L_max, keep = 100, None
    if algo == 'Sofia':
        L_max = rng.choice([3, 4, 6, 100])
    if algo == 'sub':
        keep = sorted(rng.sample(range(1, 14), rng.randint(3, 10)))
    test, tk = mix_test(rng, train, engines, max_h + 1)
    names = rng.sample(range(60), len(test))
    hist = random_history(rng) if history else None
    share = tk.startswith('redescribed') or (tk == 'training' and rng.random() < 0.5)
    return _mk(train, algo, test, names, rng.random() < 0.5, L_max, keep, False, 'mvmix', tk, mv=True,
               engines=engines, history=hist, share_names=share)


def random_warmup(rng):
    ops = []
    for _ in range(rng.randint(1, 5)):
        kind = rng.choice(['ext', 'ext', 'ext', 'ext_attr', 'int', 'int_base', 'trace'])
        a = rng.randrange(50)
        if kind in ('ext', 'ext_attr'):
            # with a base set of objects (possibly empty / a single object / a few) or without
            b = rng.choice([None, [], [rng.randrange(20)], [rng.randrange(20) for _ in range(rng.randint(2, 3))]])
            if b is None and rng.random() < 0.5:
                b = [rng.randrange(20) for _ in range(2)]
        elif kind == 'trace':
            b = None
        else:
            b = [rng.randrange(20) for _ in range(rng.randint(1, 3))]
        ops.append([kind, a, b])
    return ops


def exhaustive_cases():
    for (h, w) in ((2, 3), (3, 2)):
        tests = list(gen.all_tables(2, w))
        for t in gen.all_tables(h, w):
            for test in tests:
                for by_index in (True, False):
                    yield _mk(t, 'CbO', test, [7, 3], by_index, kind='exhaustive', test_kind='exhaustive')


def generate(rng, tier):
    ex = list(exhaustive_cases())
    if tier == 'thorough':
        cases = ex
        n_rand, n_mv, n_mix, n_hist, dim = 16000, 5000, 5000, 6000, 6
    else:
        cases = rng.sample(ex, 300)
        n_rand, n_mv, n_mix, n_hist, dim = 1200, 400, 450, 550, 5
    for _ in range(n_rand):
        cases.append(random_case(rng, dim))
    for _ in range(n_mv):
        cases.append(random_mv_case(rng, dim))
    for _ in range(n_mix):
        cases.append(random_mvmix_case(rng, dim))
    for k in range(n_hist):
        cases.append(random_mv_case(rng, dim, history=True) if k % 5 == 0 else
                     random_mvmix_case(rng, dim, history=True) if k % 5 == 1 else random_case(rng, dim, history=True))
    # a third of the random cases query the traced context before tracing it
    for c in cases:
        if c.get('kind') != 'exhaustive' and not c.get('mono') and rng.random() < 0.35:
            c['warmup'] = random_warmup(rng)
    return cases


def nontrivial(case):
    t = case['test']
    if len({repr(r) for r in t}) < 2 or case.get('mono'):
        return False
    if case.get('mv') and any(e in ('SetPS', 'AttributePS') for e in case['engines']):
        return len(case['train']) >= 3
    if case.get('mv'):
        return mv_extents(case['train']) >= 4
    k = n_extents(case['train'])
    if case['algo'] == 'sub':
        k = 2 + len(case['keep'])
    if case['algo'] == 'Sofia':
        k = min(k, case['L_max'])
    return k >= 4 and any(any(r) and not all(r) for r in t)


def stats(case):
    t = case['test']
    d = {'stream': ('mv' if case.get('mv') else 'formal') + ('+history' if case.get('history') else ''),
         'algo': case['algo'] if not case.get('mono') else 'monotone',
         'L_max': case['L_max'] if case['algo'] == 'Sofia' else '-',
         'test_kind': case.get('test_kind', ''), 'by_index': case['by_index'],
         'train_shape': '%dx%d' % (len(case['train']), len(case['train'][0])), 'test_rows': len(t)}
    if case.get('mv'):
        d['engines'] = '+'.join(sorted(set(case['engines'])))
        if 'AttributePS' in case['engines']:
            d['AttributePS column'] = 'first' if case['engines'].index('AttributePS') == 0 else 'after another column'
    else:
        d['train_concepts'] = min(n_extents(case['train']), 20)
    for op in case.get('history') or []:
        d['history_op'] = op[0]
    d['same_object_names'] = bool(case.get('share_names'))
    d['traced context'] = 'queried before the trace' if case.get('warmup') else 'fresh'
    if case['algo'] == 'sub' and not case.get('mv'):
        d['sub-list concepts'] = 'some re-created by from_objects (shuffled objects)' if case.get('rebuild') else 'as mined'
    if not case.get('mv'):
        d['backends(train/test)'] = '%s/%s' % ((case.get('train_backend') or 'default').replace('BinTable', ''),
                                               (case.get('test_backend') or 'default').replace('BinTable', ''))
        d['train_kind'] = case.get('kind', '').split('/')[0]
    return d


def shrink(case):
    out = []
    t = case['test']
    if len(t) > 1:
        for i in range(len(t)):
            c = dict(case)
            c['test'] = t[:i] + t[i + 1:]
            c['names'] = case['names'][:i] + case['names'][i + 1:]
            out.append(c)
    hist = case.get('history') or []
    if len(hist) > 1:
        for i in range(len(hist)):
            c = dict(case)
            c['history'] = hist[:i] + hist[i + 1:]
            out.append(c)
    if case['algo'] == 'sub':
        for i in range(len(case['keep'])):
            c = dict(case)
            c['keep'] = case['keep'][:i] + case['keep'][i + 1:]
            out.append(c)
    tr = case['train']
    if len(tr) > 2 and case.get('test_kind') != 'training':
        for i in range(len(tr)):
            c = dict(case)
            c['train'] = tr[:i] + tr[i + 1:]
            out.append(c)
    if not case.get('mv'):
        for i in range(len(tr)):
            for j in range(len(tr[0])):
                if tr[i][j]:
                    c = dict(case)
                    c['train'] = [[(False if (a == i and b == j) else v) for b, v in enumerate(r)]
                                  for a, r in enumerate(tr)]
                    out.append(c)
    return out

"""C01 — derivation operators return exactly the prime sets (by index, by name, base sets,
monotone variants, three back-ends)."""
import itertools
import re
from harness.core import coq, some, Raw, guarded, canon
from harness import gen

ID = 'C01'
COQ_IMPORTS = ['FCA.Corr.C01']
CASE_TYPE = 'c01_case'
CHECK = 'c01_check'
SHOW = 'c01_show'
RULE = ('cases = (table, back-end, operator, argument set, base set or None, by index / by name); '
        'random structured tables up to 8x8 (quick) / 12x12 (thorough) plus the small exhaustive scope; '
        'listings with a repeated entry (non-monotone operators) and rename histories (context built under '
        'other names, by-name warm-up queries, names re-assigned through the public setters, then the query); '
        'non-trivial = table not constant, argument set proper and non-empty, base set given')
EXHAUSTIVE = {'thorough': 'all tables of shape <= 2x2, 2x3, 3x2 x all argument subsets x bases '
                          '{None, [], all ordered subsets of size <= 2} x 4 index operators x 3 back-ends'}
BACKENDS = ['BinTableLists', 'BinTableNumpy', 'BinTableBitarray']
COQ_BACKEND = {'BinTableLists': 'BLists', 'BinTableNumpy': 'BNumpy', 'BinTableBitarray': 'BBitarray'}
UNKNOWN = 900  # ids >= UNKNOWN are names the context does not have


def oname(k):
    return 'g%d' % k


def aname(k):
    return 'm%d' % k


def make_context(case):
    from fcapy.context import FormalContext
    t = case['table']
    return FormalContext(data=[list(r) for r in t], object_names=[oname(k) for k in case['onames']],
                         attribute_names=[aname(k) for k in case['anames']], backend=case['backend'])


def _container(names, kind):
    # the by-name operators take any iterable of names (the signature says Iterable[str]): the
    # same listing handed over as a tuple or as a ONE-SHOT iterable must give the same answer
    if kind == 'tuple':
        return tuple(names)
    if kind == 'gen':
        return (n for n in names)
    if kind == 'iter':
        return iter(names)
    if kind == 'map':
        return map(str, names)
    return names


CONTAINERS = ['list', 'list', 'tuple', 'gen', 'iter', 'map']


def run_impl(case):
    def go():
        ren = case.get('rename')
        if ren:
            # history: build with OLD names, ask a few by-name questions, rename in place, then ask the
            # case's question (the model is stateless: it sees the context with the new names only)
            old = dict(case, onames=ren['onames0'], anames=ren['anames0'])
            K = make_context(old)
            for w in ren.get('warm', []):
                try:
                    if w[0] == 'ext':
                        K.extension([aname(k) for k in w[1]])
                    else:
                        K.intention([oname(k) for k in w[1]])
                except KeyError:
                    pass
            if ren.get('set_objects', True):
                K.object_names = [oname(k) for k in case['onames']]
            if ren.get('set_attributes', True):
                K.attribute_names = [aname(k) for k in case['anames']]
        else:
            K = make_context(case)
        for q in case.get('pre', []):
            # earlier questions to the SAME context object; answers discarded (the model is stateless)
            try:
                r0 = _ask(K, q[0], q[1], q[2], raw=True)
                # aliasing probe: whatever the API handed out is the caller's to change; a later
                # answer must not depend on it (fresh lists on the unchanged tree)
                if isinstance(r0, list):
                    r0.clear()
                    r0.extend([0] * 3)
            except Exception:
                pass
        op, arg, base = case['op'], case['arg'], case['base']
        return _ask(K, op, arg, base)

    def _ask(K, op, arg, base, raw=False):
        cv = (lambda x: x) if raw else canon
        if op == 'repr':      # read-only observers (must not change the context)
            repr(K)
            str(K)
            K.print_data(max_n_objects=arg[0] if arg else 3, max_n_attributes=base[0] if base else 3)
            hash(K.data)
            return None
        if op == 0:
            return cv(K.extension_i(list(arg), None if base is None else list(base)))
        if op == 1:
            return cv(K.intention_i(list(arg), None if base is None else list(base)))
        if op == 2:
            return cv(K.extension_monotone_i(list(arg), None if base is None else list(base)))
        if op == 3:
            return cv(K.intention_monotone_i(list(arg), None if base is None else list(base)))
        cont = case.get('cont') or ['list', 'list']
        if op in (4, 6):
            res = K.extension(_container([aname(k) for k in arg], cont[0]),
                              None if base is None else _container([oname(k) for k in base], cont[1]),
                              is_monotone=(op == 6))
            return [int(s[1:]) for s in res]
        res = K.intention(_container([oname(k) for k in arg], cont[0]), is_monotone=(op == 7))
        return [int(s[1:]) for s in res]
    r = guarded(go)
    if r[0] == 'err' and r[1] == 'KeyError':
        m = re.search(r'"[gm](\d+)"', r[2])
        return ['err', 'KeyError', r[2], int(m.group(1)) if m else -1]
    return list(r)


def impl_term(out):
    from harness.core import ERR_KINDS
    if out[0] == 'ok':
        v = out[1]
        if not (isinstance(v, list) and all(isinstance(x, int) and not isinstance(x, bool) and x >= 0 for x in v)):
            return Raw('(IErr 12)')   # not a list of indexes at all
        return Raw('(IOk %s)' % coq(v))
    if out[1] == 'KeyError' and len(out) > 3 and out[3] >= 0:
        return Raw('(IKeyErr %d)' % out[3])
    return Raw('(IErr %d)' % ERR_KINDS.get(out[1], 11))


def to_coq(case, out):
    return 'Build_c01_case %s %s %d %s %s %s %s %s' % (
        COQ_BACKEND[case['backend']], coq(case['table']), case['op'], coq(case['arg']),
        some(case['base']), coq(case['onames']), coq(case['anames']), impl_term(out))


def nontrivial(case):
    t = case['table']
    flat = [v for r in t for v in r]
    n = len(t) if case['op'] in (1, 3, 5, 7) else len(t[0])
    return (any(flat) and not all(flat) and 0 < len(case['arg']) < n and case['base'] is not None)


def stats(case):
    t = case['table']
    return {'shape': '%dx%d' % (len(t), len(t[0])), 'op': case['op'], 'backend': case['backend'],
            'base': 'none' if case['base'] is None else ('empty' if not case['base'] else 'given'),
            'arg': 'empty' if not case['arg'] else 'nonempty', 'kind': case.get('kind', ''),
            'history': ('rename' if case.get('rename') else 'fresh') + ('+queries' if case.get('pre') else ''),
            'containers': '/'.join(case.get('cont') or ['list', 'list'])}


def _mk(backend, t, op, arg, base, onames=None, anames=None, kind=''):
    return {'backend': backend, 'table': t, 'op': op, 'arg': arg, 'base': base,
            'onames': onames if onames is not None else list(range(len(t))),
            'anames': anames if anames is not None else list(range(len(t[0]))), 'kind': kind}


def random_case(rng, max_dim):
    if rng.random() < 0.06:
        # wide / tall tables (printing abbreviates beyond 10 attributes / 20 objects)
        if rng.random() < 0.7:
            t, kind = gen.random_table(rng, 4, 13, min_h=2, min_w=11)
        else:
            t, kind = gen.random_table(rng, 13, 3, min_h=11, min_w=1)
        kind += '+wide'
    else:
        t, kind = gen.random_table(rng, max_dim, max_dim)
    h, w = len(t), len(t[0])
    b = rng.choice(BACKENDS)
    op = rng.choice([0, 0, 1, 1, 2, 3, 4, 5, 6, 7])
    # distinct, shuffled name ids
    onames = rng.sample(range(50), h)
    anames = rng.sample(range(50), w)
    on_rows = op in (1, 3, 5, 7)        # argument is a set of objects
    n_arg, n_base = (h, w) if on_rows else (w, h)
    arg = gen.random_subset(rng, n_arg)
    if op == 2 and len(arg) == w and w > 0 and rng.random() < 0.9:
        arg = arg[:-1]
    base = None if rng.random() < 0.35 else gen.random_subset(rng, n_base)
    if op in (5, 7):
        base = None
    dup = False
    if op in (0, 1, 4, 5) and rng.random() < 0.15:
        # a listing with a repeated entry denotes the same set (the monotone variants are left out:
        # their length shortcuts make duplicates a different question, outside the property)
        if arg:
            arg = arg + [rng.choice(arg)]
            dup = True
        if base:
            base = base + [rng.choice(base)]
            dup = True
    if op in (2, 3, 6, 7) and rng.random() < 0.2:
        # monotone variants: a listing with repeats denotes the same set as long as its length does
        # not hit the code's "everything selected" shortcut (theorem C01_intention_mono_listing_correct)
        if arg:
            arg2 = arg + [rng.choice(arg) for _ in range(rng.randint(1, 2))]
            if len(arg2) != n_arg:
                arg, dup = arg2, True
        if base and op != 7 and rng.random() < 0.5:
            base = base + [rng.choice(base)]
            dup = True
    cont = None
    if op >= 4 and rng.random() < 0.4:
        cont = [rng.choice(CONTAINERS), rng.choice(CONTAINERS)]
    if op >= 4:
        arg_names = [(onames if on_rows else anames)[i] for i in arg]
        base_names = None if base is None else [(anames if on_rows else onames)[i] for i in base]
        r = rng.random()
        if r < 0.15:   # an unknown name somewhere in the argument
            arg_names.insert(rng.randint(0, len(arg_names)), UNKNOWN + rng.randrange(5))
        elif r < 0.25 and base_names is not None:
            base_names.insert(rng.randint(0, len(base_names)), UNKNOWN + rng.randrange(5))
        arg, base = arg_names, base_names
    c = _mk(b, t, op, arg, base, onames, anames, kind + ('+dup' if dup else ''))
    if cont:
        c['cont'] = cont
    if rng.random() < 0.45:
        # query history on one object: same operator family, the same or a sub-/super-set argument,
        # other base sets (a cache keyed too coarsely answers the later question from the earlier one)
        pre = []
        for _ in range(rng.randint(1, 3)):
            a2 = list(arg)
            r = rng.random()
            if r < 0.2 and a2:
                a2 = [rng.choice(a2)]
            elif r < 0.35:
                a2 = a2[:rng.randint(0, len(a2))]
            elif r < 0.8:
                # an unrelated argument (an in-place write into the table shows only on OTHER columns/rows)
                n_a = (h if on_rows else w)
                pool_a = (onames if on_rows else anames) if op >= 4 else list(range(n_a))
                a2 = rng.sample(pool_a, rng.randint(0, len(pool_a)))
            n_b = (w if on_rows else h)
            pool = (anames if on_rows else onames) if op >= 4 else list(range(n_b))
            b2 = None if rng.random() < 0.5 else rng.sample(pool, rng.randint(0, len(pool)))
            if op in (5, 7):
                b2 = None
            pre.append([op, a2, b2])
        if op < 4 and rng.random() < 0.35:
            # a small earlier question without a base set whose FIRST element also occurs in the judged
            # question (an accumulator written back into the table shows on exactly that row/column)
            n_a = (h if on_rows else w)
            if n_a >= 2 and c['arg']:
                first = c['arg'][0]
                others = [x for x in range(n_a) if x != first]
                k = rng.randint(1, max(1, min(len(others), max(1, n_a // 2 - 1))))
                pre.append([op, [first] + rng.sample(others, k), None])
        if op < 4 and rng.random() < 0.4:
            # a question of the OTHER family about the same sets (a helper shared by rows and columns
            # code, e.g. a memoised mask, must not leak between them)
            other_ops = (0, 2) if on_rows else (1, 3)
            base_now = c['base'] if c['base'] is not None else []
            o_arg = list(base_now) if (base_now and rng.random() < 0.7) else rng.sample(range(w if on_rows else h), rng.randint(0, (w if on_rows else h)))
            o_base = None if rng.random() < 0.5 else list(c['arg'])
            pre.insert(rng.randint(0, len(pre)), [rng.choice(other_ops), o_arg, o_base])
        if rng.random() < 0.25:
            pre.insert(rng.randint(0, len(pre)), ['repr', [rng.randint(1, 4)], [rng.randint(1, 12)]])
        c['pre'] = pre
        c['kind'] += '+pre'
    if op >= 4 and rng.random() < 0.2:
        # rename history: the context is first built under other names (partly overlapping with the
        # final ones, so that a stale lookup table gives a wrong column rather than a KeyError)
        on0 = list(onames)
        an0 = list(anames)
        rng.shuffle(on0)
        rng.shuffle(an0)
        if rng.random() < 0.5:
            on0 = rng.sample(range(50), h)
            an0 = rng.sample(range(50), w)
        warm = []
        for _ in range(rng.randint(0, 2)):
            if rng.random() < 0.5:
                warm.append(['ext', rng.sample(an0, rng.randint(0, w))])
            else:
                warm.append(['int', rng.sample(on0, rng.randint(0, h))])
        so, sa = rng.random() < 0.8, rng.random() < 0.8
        c['rename'] = {'onames0': on0 if so else list(onames), 'anames0': an0 if sa else list(anames),
                       'warm': warm, 'set_objects': so, 'set_attributes': sa}
        c['kind'] += '+rename'
    return c


def exhaustive_cases():
    for (h, w) in [(1, 1), (1, 2), (2, 1), (2, 2), (2, 3), (3, 2)]:
        for t in gen.all_tables(h, w):
            for op in (0, 1, 2, 3):
                n_arg, n_base = (h, w) if op in (1, 3) else (w, h)
                bases = [None, []]
                for k in (1, 2):
                    bases += [list(p) for p in itertools.permutations(range(n_base), k)]
                for arg in gen.all_subsets(n_arg):
                    for base in bases:
                        for b in BACKENDS:
                            yield _mk(b, t, op, arg, base, kind='exhaustive')


def generate(rng, tier):
    cases = []
    ex = list(exhaustive_cases())
    if tier == 'thorough':
        cases += ex
        n_rand, dim = 60000, 12
    else:
        cases += rng.sample(ex, 1500)
        n_rand, dim = 6000, 8
    for _ in range(n_rand):
        cases.append(random_case(rng, dim))
    return cases


def shrink(case):
    out = []
    if case['op'] < 4:
        on_rows = case['op'] in (1, 3)
        rk, ck = (('arg',), ('base',)) if on_rows else (('base',), ('arg',))
        base = dict(case)
        base['onames'] = list(range(len(case['table'])))
        base['anames'] = list(range(len(case['table'][0])))
        for c in gen.shrink_table_case(base, row_keys=rk, col_keys=ck):
            c['onames'] = list(range(len(c['table'])))
            c['anames'] = list(range(len(c['table'][0])))
            out.append(c)
    for key in ('arg', 'base'):
        v = case[key]
        if v:
            for i in range(len(v)):
                c = dict(case)
                c[key] = v[:i] + v[i + 1:]
                out.append(c)
    return out

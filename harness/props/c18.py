"""C18 — minimal-generator search returns exactly the minimum-size generators (formal contexts, by
index and by name, base generator, base object set); many-valued search over interval columns
returns only generators with the intent's extension inside the base objects."""
import itertools
import math
from fractions import Fraction
from harness.core import coq, some, Raw, guarded, canon, ERR_KINDS
from harness import gen

ID = 'C18'
COQ_IMPORTS = ['FCA.Corr.C18']
COQ_HEADER = 'From Coq Require Import ZArith.\nOpen Scope nat_scope.\n'
CASE_TYPE = 'c18_case'
CHECK = 'c18_check'
SHOW = 'c18_show'
SHARD = 320
RULE = ('formal cases = (table <= 7 attributes, back-end, intent, base generator, base object set, by index / by '
        'name), results compared as sets of sorted tuples with the model and with the brute-force minimum '
        'generators; many-valued cases = (interval table, IntervalPS / IntervalNumpyPS, intent of a concept, base '
        'objects, base generator, ps_to_iterate) under a 2 s alarm, results compared as sets of descriptions with '
        'the model (fuel 3; alarm <-> out of fuel) and each returned description checked to select the intent\'s '
        'objects inside the base set; generators_by_intent_difference compared with its model; '
        'non-trivial = formal: closed non-empty intent that is not its own only generator; mv: base set given')
EXHAUSTIVE = {'thorough': 'all tables of shape <= 3x3 x every attribute subset as intent x base generator in '
                          '{None, [], each singleton} x base objects in {all, None, each subset of size <= 2 (3x3 tables: '
                          'each subset of size 2)}, by index'}
TRUSTED_EXTRA = ['C18: a call that does not return within 2 s is identified with the model running out of fuel '
                 '(3 rounds of the outer while loop)']
ASSUMPTIONS = ['MVContext.get_minimal_generators does not terminate when no combination of candidate generators '
               'selects the intent\'s extension inside base_objects (e.g. base_objects does not contain it, or '
               'ps_to_iterate leaves out a needed column); the model returns OutOfFuel there and the theorems are '
               'about returned generators only',
               'a Python set of small pattern-structure indexes iterates in increasing order']
BACKENDS = ['BinTableBitarray', 'BinTableBitarray', 'BinTableLists', 'BinTableNumpy']
COQ_BACKEND = {'BinTableLists': 'BLists', 'BinTableNumpy': 'BNumpy', 'BinTableBitarray': 'BBitarray'}
UNKNOWN = 900


# ------------------------------------------------------------------ tiny FCA helpers of the harness itself

def _ext(t, B, base):
    return [g for g in base if all(t[g][m] for m in B)]


def _int(t, A):
    return [m for m in range(len(t[0])) if all(t[g][m] for g in A)]


def closed_intents(t):
    w = len(t[0])
    out = set()
    for k in range(w + 1):
        for B in itertools.combinations(range(w), k):
            out.add(tuple(_int(t, _ext(t, B, range(len(t))))))
    return sorted(out)


def _iv_intent(cols, S):
    """per column (min left, max right) of the objects in S; None for the empty set"""
    if not S:
        return [None for _ in cols]
    return [(min(c[g][0] for g in S), max(c[g][1] for g in S)) for c in cols]


def _iv_ext(cols, d, base):
    if any(x is None for x in d):
        return []
    return [g for g in base if all(lo <= c[g][0] and c[g][1] <= hi for c, (lo, hi) in zip(cols, d))]


def mv_concepts(cols, n):
    seen = {}
    for k in range(n + 1):
        for S in itertools.combinations(range(n), k):
            d = _iv_intent(cols, S)
            e = tuple(_iv_ext(cols, d, range(n)))
            seen[e] = d
    return sorted(seen.items(), key=lambda x: (-len(x[0]), x[0]))


# ------------------------------------------------------------------ descriptions <-> JSON <-> Coq

def _b2j(x):
    if isinstance(x, float) and math.isinf(x):
        return 'inf' if x > 0 else '-inf'
    fr = Fraction(x)
    if fr.denominator != 1:
        raise ValueError('non-integer end point %r' % (x,))
    return int(fr.numerator)


def _j2b(x):
    return math.inf if x == 'inf' else (-math.inf if x == '-inf' else float(x))


def d2j(d):
    if d is None:
        return ['n']
    if isinstance(d, (tuple, list)):
        return ['iv', _b2j(d[0]), _b2j(d[1])]
    return ['num', _b2j(d)]


def j2d(j):
    if j[0] == 'n':
        return None
    if j[0] == 'iv':
        return (_j2b(j[1]), _j2b(j[2]))
    return _j2b(j[1])


def _bcoq(x):
    return 'PosInf' if x == 'inf' else ('NegInf' if x == '-inf' else '(Fin (%d)%%Z)' % x)


def dcoq(j):
    if j[0] == 'n':
        return 'DNone'
    if j[0] == 'iv':
        return '(DIv %s %s)' % (_bcoq(j[1]), _bcoq(j[2]))
    return '(DNum %s)' % _bcoq(j[1])


def ddcoq(items):
    return '[' + '; '.join('(%d, %s)' % (ps, dcoq(j)) for ps, j in items) + ']'


def kcoq(case):
    cols = '[' + '; '.join('[' + '; '.join('((%d)%%Z, (%d)%%Z)' % (a, b) for a, b in c) + ']'
                           for c in case['cols']) + ']'
    return '(Build_mvctx %s %d %s)' % (cols, case['n'], coq(bool(case['numpy'])))


# ------------------------------------------------------------------ implementation

def _aname(k):
    return 'm%d' % k


def _oname(k):
    return 'g%d' % k


def _snames(case):
    """name id of each pattern structure, in structure (= pattern_types) order"""
    return case.get('snames') or list(range(len(case['cols'])))


def _mvctx(case):
    """The pattern structures are created in the order of the `pattern_types` dict (= the order of
    case['cols'] and of the model); `attribute_names` / the data columns may come in another order
    (case['attr_perm'][j] = structure stored in data column j)."""
    from fcapy.mvcontext import MVContext, PS
    P = PS.IntervalNumpyPS if case['numpy'] else PS.IntervalPS
    n, cols = case['n'], case['cols']
    p = len(cols)
    sn = _snames(case)
    perm = case.get('attr_perm') or list(range(p))
    data = [[tuple(float(x) for x in cols[perm[j]][g]) for j in range(p)] for g in range(n)]
    attr_names = ['a%d' % sn[perm[j]] for j in range(p)]
    pattern_types = {'a%d' % sn[ps]: P for ps in range(p)}
    return MVContext(data=data, pattern_types=pattern_types, attribute_names=attr_names,
                     object_names=[_oname(g) for g in range(n)])


def _dd_out(res, named):
    out = []
    for fd in res:
        items = []
        for k, v in fd.items():
            items.append([int(k[1:]) if named else int(k), d2j(v)])
        out.append(sorted(items, key=lambda kv: kv[0]))
    return out


def run_impl(case):
    # import outside the alarm: the first import in a worker process can take seconds under load
    import fcapy.context  # noqa
    import fcapy.mvcontext  # noqa
    import fcapy.lattice  # noqa
    kind = case['kind']
    if kind == 'formal':
        def go():
            from fcapy.context import FormalContext
            sub = case.get('sub')
            if not sub:
                K = FormalContext(data=[list(r) for r in case['table']],
                                  object_names=[_oname(k) for k in case['onames']],
                                  attribute_names=[_aname(k) for k in case['anames']], backend=case['backend'])
            else:
                # the context under test is a SUB-context K0[rows, cols] of a bigger one, taken with unsorted index
                # lists; case['table'] (what the model works on) is the correspondingly permuted sub-table
                P, rows, cols = sub['parent'], sub['rows'], sub['cols']
                pon = ['g%d' % (700 + r) for r in range(len(P))]
                pan = ['m%d' % (700 + c) for c in range(len(P[0]))]
                for i, r in enumerate(rows):
                    pon[r] = _oname(case['onames'][i])
                for j, c in enumerate(cols):
                    pan[c] = _aname(case['anames'][j])
                K0 = FormalContext(data=[list(r) for r in P], object_names=pon, attribute_names=pan,
                                   backend=case['backend'])
                if sub['form'] == 'cols':
                    K = K0[:, list(cols)]
                elif sub['form'] == 'rows':
                    K = K0[list(rows)]
                else:
                    K = K0[list(rows), list(cols)]
            bg, bo = case['base_gen'], case['base_objs']
            if case.get('warm'):
                # questions with other base sets put to the SAME context object first (results discarded)
                from harness.c16c18_warm import warm_context
                focus = [tuple(g for g in range(len(case['table'])) if all(case['table'][g][m] for m in [a]))
                         for a in range(len(case['table'][0]))]
                warm_context(K, case['table'], case['warm'], focus=focus)
            if case['named']:
                res = K.get_minimal_generators([_aname(k) for k in case['intent']],
                                               None if bg is None else [_aname(k) for k in bg],
                                               None if bo is None else [_oname(k) for k in bo])
                return [[int(s[1:]) for s in mg] for mg in res]
            mode = case.get('call', 0)
            if mode == 0:
                res = K.get_minimal_generators(list(case['intent']), None if bg is None else list(bg),
                                               None if bo is None else list(bo), use_indexes=True)
            elif mode == 1:      # as ConceptLattice.get_conditional_generators calls it: a frozenset of objects
                res = K.get_minimal_generators(list(case['intent']), None if bg is None else list(bg),
                                               None if bo is None else frozenset(bo), use_indexes=True)
            else:
                res = K.get_minimal_generators_i(tuple(case['intent']), None if bg is None else tuple(bg),
                                                 None if bo is None else tuple(bo))
            return [canon(mg) for mg in res]
        r = guarded(go, timeout_s=20)
        return list(r)
    K_case = case

    def intent_of(items, named):
        sn = _snames(K_case)
        return {('a%d' % sn[ps] if named else ps): j2d(j) for ps, j in items}
    def build_context():
        """The context of the case; with a 'prelude' it is first built on the OLD columns, queried
        (so that anything the code may cache gets cached), and then brought to the case's columns in
        place - through `ps.data = ...` or through the `pattern_structures` setter."""
        pre = K_case.get('prelude')
        if not pre:
            return _mvctx(K_case)
        from fcapy.lattice import ConceptLattice
        K = _mvctx(dict(K_case, cols=pre['old_cols']))
        p, n = len(K_case['cols']), K_case['n']
        old_intent = {ps: j2d(j) for ps, j in pre['warm_intent']}
        for warm in (lambda: K.extension_i(old_intent),
                     lambda: K.extension_i({ps: d for ps, d in intent_of(K_case['intent'], False).items()}),
                     lambda: K.get_minimal_generators(old_intent, use_indexes=True),
                     lambda: K.intention_i(list(range(n))),
                     lambda: ConceptLattice.from_context(K)):
            guarded(warm, timeout_s=2)
        new_cols = K_case['cols']
        if pre['how'] == 'ps_data':
            for ps in range(p):
                if new_cols[ps] != pre['old_cols'][ps]:
                    K.pattern_structures[ps].data = [tuple(float(x) for x in v) for v in new_cols[ps]]
        else:
            perm = K_case.get('attr_perm') or list(range(p))
            data = [[tuple(float(x) for x in new_cols[perm[j]][g]) for j in range(p)] for g in range(n)]
            K.pattern_structures = K.assemble_pattern_structures(data, K.pattern_types)
        return K

    if kind == 'mv':
        built = guarded(build_context, timeout_s=20)
        if built[0] != 'ok':
            return list(built)

        def go():
            K = built[1]
            named = case['named']
            intent = intent_of(case['intent'], named)
            bg = None if case['base_gen'] is None else intent_of(case['base_gen'], named)
            base = case['base']
            if base is not None:
                base = [_oname(g) for g in base] if named else list(base)
            pti = case['pti']
            if pti is not None and named:
                pti = ['a%d' % _snames(K_case)[ps] for ps in pti]
            res = K.get_minimal_generators(intent, bg, base, use_indexes=not named, ps_to_iterate=pti,
                                           projection_to_start=case['pstart'])
            return _dd_out(res, named)
        r = guarded(go, timeout_s=2)
        return list(r)

    def go():
        K = build_context()
        res = K.generators_by_intent_difference(intent_of(case['new'], False), intent_of(case['old'], False))
        return _dd_out(res, False)
    return list(guarded(go, timeout_s=10))


def to_coq(case, out):
    kind = case['kind']
    if kind == 'formal':
        inp = '(InFormal %s %s %s %s %s %s %s %s)' % (
            COQ_BACKEND[case['backend']], coq(case['table']), coq(bool(case['named'])), coq(case['onames']),
            coq(case['anames']), coq(case['intent']), some(case['base_gen']), some(case['base_objs']))
        if out[0] == 'ok':
            v = out[1]
            ok = isinstance(v, list) and all(isinstance(x, list) and all(
                isinstance(y, int) and not isinstance(y, bool) and y >= 0 for y in x) for x in v)
            o = '(OGens %s)' % coq(v) if ok else '(OErr 12)'
        else:
            o = '(OErr %d)' % ERR_KINDS.get(out[1], 11)
        return 'Build_c18_case %s %s' % (inp, o)
    if kind == 'mv' and case['named']:
        sn = _snames(case)

        def nm(items):
            return ddcoq([[sn[ps], j] for ps, j in items])
        inp = '(InMVNamed %s %s %s %s %s %s %s %d)' % (
            kcoq(case), coq(sn), coq(list(range(case['n']))), nm(case['intent']),
            'None' if case['base_gen'] is None else '(Some %s)' % nm(case['base_gen']),
            some(case['base']), some(None if case['pti'] is None else [sn[ps] for ps in case['pti']]),
            case['pstart'])
    elif kind == 'mv':
        inp = '(InMV %s %s %s %s %s %d)' % (
            kcoq(case), ddcoq(case['intent']),
            'None' if case['base_gen'] is None else '(Some %s)' % ddcoq(case['base_gen']),
            some(case['base']), some(case['pti']), case['pstart'])
    else:
        inp = '(InDiff %s %s %s)' % (kcoq(case), ddcoq(case['new']), ddcoq(case['old']))
    if out[0] == 'ok':
        o = '(OMV [%s])' % '; '.join(ddcoq(d) for d in out[1])
    else:
        o = '(OErr %d)' % ERR_KINDS.get(out[1], 11)
    return 'Build_c18_case %s %s' % (inp, o)


# ------------------------------------------------------------------ evidence labels

def nontrivial(case):
    if case['kind'] == 'formal':
        return bool(case.get('closed')) and len(case['intent']) >= 2 and case['base_objs'] is not None
    if case['kind'] == 'mv':
        return case['base'] is not None
    return True


def stats(case):
    if case['kind'] == 'formal':
        t = case['table']
        return {'kind': 'formal', 'shape': '%dx%d' % (len(t), len(t[0])), 'backend': case['backend'],
                'by': 'name' if case['named'] else 'index/%d' % case.get('call', 0),
                'base_gen': 'none' if case['base_gen'] is None else
                        ('repeats' if len(set(case['base_gen'])) < len(case['base_gen']) else len(case['base_gen'])),
                'sub_context': (case.get('sub') or {}).get('form', 'no'),
                'base_objs': case.get('bo_kind', ''), 'context_warm_up': bool(case.get('warm')), 'intent': 'closed' if case.get('closed') else 'other'}
    if case['kind'] == 'mv':
        return {'kind': 'mv', 'mv_shape': '%dx%d' % (case['n'], len(case['cols'])),
                'ps': 'numpy' if case['numpy'] else 'plain', 'mv_base': case.get('base_kind', ''),
                'mv_by': 'name' if case['named'] else 'index',
                'mv_base_gen': case['base_gen'] is not None, 'mv_pti': case['pti'] is not None,
                'mv_update': (case.get('prelude') or {}).get('how', 'none'),
                'mv_columns': 'permuted' if (case.get('attr_perm') or []) != sorted(case.get('attr_perm') or [])
                              else 'declared order'}
    return {'kind': 'diff', 'ps': 'numpy' if case['numpy'] else 'plain'}


# ------------------------------------------------------------------ generators

def _sub_of(rng, t):
    """a parent table and unsorted row / column index lists such that parent[rows][:, cols] == t"""
    h, w = len(t), len(t[0])
    form = rng.choice(['both', 'both', 'cols', 'rows'])
    H = h if form == 'cols' else h + rng.randint(0, 2)
    W = w if form == 'rows' else w + rng.randint(0, 2)
    rows = list(range(h)) if form == 'cols' else rng.sample(range(H), h)
    cols = list(range(w)) if form == 'rows' else rng.sample(range(W), w)
    if form != 'rows' and w >= 2 and cols == sorted(cols):
        cols = cols[::-1]                      # insist on an unsorted column listing
    if form != 'cols' and h >= 2 and rows == sorted(rows) and rng.random() < 0.7:
        rows = rows[::-1]
    P = [[rng.random() < 0.5 for _ in range(W)] for _ in range(H)]
    for i, r in enumerate(rows):
        for j, c in enumerate(cols):
            P[r][c] = bool(t[i][j])
    return {'parent': P, 'rows': rows, 'cols': cols, 'form': form}


def _formal(rng, t, intent, bg, bo, bo_kind, closed, named=None, backend=None, call=None, tkind=''):
    h, w = len(t), len(t[0])
    named = (rng.random() < 0.3) if named is None else named
    if bo_kind == 'unsorted':
        named = False
        call = rng.choice([0, 0, 2]) if call is None else call
    c = {'kind': 'formal', 'backend': backend or rng.choice(BACKENDS), 'table': t, 'named': named,
         'onames': list(range(h)), 'anames': list(range(w)), 'intent': list(intent),
         'base_gen': None if bg is None else list(bg), 'base_objs': None if bo is None else list(bo),
         'bo_kind': bo_kind, 'closed': closed, 'tkind': tkind}
    if tkind != 'exhaustive' and rng.random() < 0.3:
        c['warm'] = rng.randrange(1, 10 ** 6)
    if tkind != 'exhaustive' and rng.random() < 0.3:
        c['sub'] = _sub_of(rng, t)
    if intent and tkind != 'exhaustive' and rng.random() < 0.12:
        c['intent'] = list(intent) + [rng.choice(list(intent))]     # an intent listed with a repeat
        intent = c['intent']
    if named:
        on = rng.sample(range(50), h)
        an = rng.sample(range(50), w)
        c['onames'], c['anames'] = on, an
        c['intent'] = [an[m] for m in intent]
        c['base_gen'] = None if bg is None else [an[m] for m in bg]
        c['base_objs'] = None if bo is None else [on[g] for g in bo]
        if rng.random() < 0.1:          # names the context does not have are silently ignored
            c['intent'] = c['intent'] + [UNKNOWN]
        if rng.random() < 0.1:
            rng.shuffle(c['intent'])
    else:
        c['call'] = rng.choice([0, 0, 1, 2]) if call is None else call
        if rng.random() < 0.15:
            c['intent'] = list(c['intent'])
            rng.shuffle(c['intent'])
    return c


def formal_cases(rng, t, tkind, per_table):
    h, w = len(t), len(t[0])
    cis = closed_intents(t)
    allobjs = list(range(h))
    combos = []
    for B in cis:
        A = _ext(t, B, allobjs)
        # extents of super-concepts (the documented use: conditional generators)
        parents = [_ext(t, B2, allobjs) for B2 in cis if set(B2) < set(B)]
        bgs = [None, []] + [[m] for m in B]
        if w >= 2:
            bgs.append(sorted(rng.sample(range(w), 2)))
        if len(B) >= 2:
            bgs.append(sorted(rng.sample(list(B), 2)))
        # a base generator listed with repeats ([a, b] + [b, c]) denotes the same set
        if B:
            rep = [rng.choice(list(B)) for _ in range(rng.randint(1, 2))]
            rep = rep + [rng.choice(rep)] + ([rng.choice(list(B))] if rng.random() < 0.5 else [])
            if rng.random() < 0.5:
                rng.shuffle(rep)
            bgs.append(rep)
        bos = [(allobjs, 'all'), (sorted(rng.sample(allobjs, rng.randint(0, h))), 'random')]
        if rng.random() < 0.25:
            bos.append((None, 'none'))
        if parents:
            bos.append((rng.choice(parents), 'parent'))
            bos.append((rng.choice(parents), 'parent'))
        # a listing with repeats denotes the same set
        dup = list(rng.choice(bos)[0] or allobjs)
        if dup:
            if len(dup) < h and rng.random() < 0.6:
                # padded with repeats up to exactly n_objects entries: as long as the full listing, a smaller set
                dup = dup + [rng.choice(dup) for _ in range(h - len(dup))]
            else:
                dup = dup + [rng.choice(dup) for _ in range(rng.randint(1, 2))]
            if rng.random() < 0.5:
                rng.shuffle(dup)
            bos.append((dup, 'duplicates'))
        # UNSORTED listings: a contiguous index range whose first entry is its minimum and last entry its maximum
        # with the middle shuffled ([0, 2, 1, 3]); a listing with last - first + 1 == len that is not a range
        # ([1, 0, 2, 3, 5]); and unsorted listings with first < last generally.  By index only (the by-name path
        # re-sorts), never as a frozenset.
        uns = []
        if h >= 4:
            a = rng.randint(0, h - 4)
            b_ = rng.randint(a + 3, h - 1)
            mid = list(range(a + 1, b_))
            while mid == sorted(mid):
                rng.shuffle(mid)
            uns.append([a] + mid + [b_])
        if h >= 5:
            a = rng.randint(1, h - 4)
            rest = [g for g in range(h) if g not in (a, a - 1)]
            k = rng.randint(2, min(4, len(rest) - 1))
            tail = sorted(rng.sample(rest, k))
            # first = a, then a - 1, ... , last = a + len - 1 if available
            lst = [a, a - 1] + tail
            if a + len(lst) - 1 < h:
                lst = [g for g in lst if g != a + len(lst) - 1] + [a + len(lst) - 1]
                lst = lst[:1] + [g for g in lst[1:-1]] + lst[-1:]
            uns.append(lst)
        if h >= 3:
            lst = rng.sample(allobjs, rng.randint(3, h))
            if lst[0] > lst[-1]:
                lst = lst[::-1]
            if lst == sorted(lst):
                lst[0], lst[1] = lst[1], lst[0]
                if lst[0] > lst[-1]:
                    lst = lst[::-1]
            uns.append(lst)
        for lst in uns:
            bos.append((lst, 'unsorted'))
        for bg in bgs:
            for bo, bk in bos:
                combos.append((B, bg, bo, bk, True))
    # intents that are not closed
    for _ in range(3):
        B = gen.random_subset(rng, w)
        combos.append((sorted(B), rng.choice([None, []]), allobjs, 'all', tuple(sorted(B)) in cis))
    if len(combos) > per_table:
        # a dedicated share for the unsorted base listings, the rest sampled
        u = [c for c in combos if c[3] == 'unsorted']
        o = [c for c in combos if c[3] != 'unsorted']
        ku = min(len(u), max(per_table // 5, 1))
        combos = rng.sample(u, ku) + rng.sample(o, min(len(o), per_table - ku))
    return [_formal(rng, t, B, bg, bo, bk, closed, tkind=tkind) for B, bg, bo, bk, closed in combos]


def exhaustive_formal():
    import random
    r = random.Random(1)
    for (h, w) in [(1, 1), (1, 2), (2, 1), (2, 2), (2, 3), (3, 2), (3, 3)]:
        for t in gen.all_tables(h, w):
            if (h, w) == (3, 3):
                bos = [list(range(h)), None] + [list(c) for c in itertools.combinations(range(h), 2)]
            else:
                bos = [list(range(h)), None] + [list(c) for k in (0, 1, 2) for c in itertools.combinations(range(h), k)]
            for B in gen.all_subsets(w):
                for bg in [None, []] + [[m] for m in range(w)]:
                    for bo in bos:
                        yield _formal(r, t, B, bg, bo, 'exh', tuple(B) == tuple(_int(t, _ext(t, B, range(h)))),
                                      named=False, backend='BinTableBitarray', call=0, tkind='exhaustive')


def random_iv_table(rng, max_n, max_ps):
    n = rng.randint(1, max_n)
    p = rng.randint(1, max_ps)
    vmax = rng.choice([1, 2, 3, 4])
    point = rng.random() < 0.6
    cols = []
    for _ in range(p):
        c = []
        for _ in range(n):
            a = rng.randint(0, vmax)
            b = a if point or rng.random() < 0.5 else rng.randint(a, vmax + 1)
            c.append([a, b])
        cols.append(c)
    return cols, n


def _dj(d, collapse=False):
    if d is None:
        return ['n']
    if collapse and d[0] == d[1]:
        return ['num', d[0]]
    return ['iv', d[0], d[1]]


def _prelude(rng, cols, n):
    """An older version of the table: one column differs, so that after the update an object lies OUTSIDE
    the range the column had before (or the range shrinks); plus an intent of the old table to query."""
    p = len(cols)
    ps = rng.randrange(p)
    col = cols[ps]
    old = [list(v) for v in col]
    mode = rng.choice(['max_out', 'min_out', 'random'])
    if n >= 2 and mode != 'random':
        g = rng.randrange(n)
        others = [col[k] for k in range(n) if k != g]
        # the NEW table (the case's own columns, adjusted here) puts g strictly outside the range of the others;
        # before the update g sat inside that range
        if mode == 'max_out':
            m = max(v[1] for v in others) + 1
        else:
            m = min(v[0] for v in others) - 1
        col[g] = [m, m]
        old[g] = list(rng.choice(others))
    else:
        g = rng.randrange(n)
        a = rng.randint(0, 4)
        old[g] = [a, a]
    old_cols = [([list(v) for v in c] if k != ps else old) for k, c in enumerate(cols)]
    e, d = rng.choice(mv_concepts(old_cols, n))
    return {'old_cols': old_cols, 'how': rng.choice(['ps_data', 'ps_data', 'setter']),
            'warm_intent': [[k, _dj(d[k])] for k in range(p)]}


def mv_cases(rng, max_n, max_ps, n_timeouts, with_prelude=False):
    cols, n = random_iv_table(rng, max_n, max_ps)
    numpy_ps = rng.random() < 0.35
    prelude = _prelude(rng, cols, n) if with_prelude else None
    concepts = mv_concepts(cols, n)
    p = len(cols)
    out = []
    budget = [n_timeouts]

    # structure names and the order of attribute_names / data columns: in half of the tables the
    # `pattern_types` dict is declared in another order than `attribute_names`
    snames = rng.sample(range(20), p) if rng.random() < 0.6 else list(range(p))
    attr_perm = list(range(p))
    if p > 1 and rng.random() < 0.6:
        while attr_perm == list(range(p)):
            rng.shuffle(attr_perm)

    def mk(intent_d, base, base_kind, bg=None, pti=None, pstart=1, collapse=False, named=None):
        return {'kind': 'mv', 'cols': cols, 'n': n, 'numpy': numpy_ps, 'snames': snames, 'attr_perm': attr_perm,
                'prelude': prelude,
                'intent': [[ps, _dj(intent_d[ps], collapse)] for ps in range(p)],
                'base_gen': bg, 'base': base, 'pti': pti, 'pstart': pstart, 'base_kind': base_kind,
                'named': (rng.random() < 0.35) if named is None else named}
    for e, d in concepts:
        out.append(mk(d, None, 'none', collapse=rng.random() < 0.2))
        supers = [(e2, d2) for e2, d2 in concepts if set(e) < set(e2)]
        for e2, d2 in (rng.sample(supers, min(2, len(supers))) if supers else []):
            # the documented use: base objects = extent of a super-concept
            out.append(mk(d, list(e2), 'super'))
            if rng.random() < 0.5:
                # ... with ps_to_iterate as ConceptLattice.get_conditional_generators computes it
                pti = [ps for ps in range(p) if d[ps] != d2[ps]]
                if pti:
                    out.append(mk(d, list(e2), 'super', pti=pti))
            out.append({'kind': 'diff', 'cols': cols, 'n': n, 'numpy': numpy_ps, 'snames': snames,
                        'attr_perm': attr_perm, 'prelude': prelude,
                        'new': [[ps, _dj(d[ps])] for ps in range(p)],
                        'old': [[ps, _dj(d2[ps])] for ps in range(p)]})
        if e and rng.random() < 0.4:
            # a base generator: one one-sided interval taken from the intent
            ps = rng.randrange(p)
            g = ['iv', '-inf', d[ps][1]] if rng.random() < 0.5 else ['iv', d[ps][0], 'inf']
            out.append(mk(d, None if rng.random() < 0.5 else list(range(n)), 'all', bg=[[ps, g]]))
        if e and rng.random() < 0.12:
            # a base generator that contradicts the intent on its column (the code may hit its own assertion),
            # or two base generators
            ps = rng.randrange(p)
            g1 = ['iv', d[ps][1] + 1, 'inf'] if rng.random() < 0.5 else ['iv', '-inf', d[ps][0] - 1]
            if budget[0] > 0 and rng.random() < 0.4:
                budget[0] -= 1
                bg = [[ps, ['iv', '-inf', d[ps][1]]], [rng.randrange(p), ['iv', d[ps][0], 'inf']]]
            else:
                bg = [[ps, g1]]
            if len(bg) == 2 and bg[0][0] == bg[1][0]:
                bg = bg[:1]          # a dict holds one generator per column
            out.append(mk(d, list(range(n)), 'all', bg=bg, named=False))
        if e and budget[0] > 0 and rng.random() < 0.3:
            # base objects that miss a part of the extension: the search cannot succeed
            base = [g for g in range(n) if g != rng.choice(e)]
            budget[0] -= 1
            out.append(mk(d, base, 'missing', named=False))
        if rng.random() < 0.15:
            out.append(mk(d, sorted(rng.sample(range(n), rng.randint(0, n))), 'random') if budget[0] > 0 else
                       mk(d, list(range(n)), 'all'))
            budget[0] -= 1
        if rng.random() < 0.1:
            out.append(mk(d, list(range(n)), 'all', pstart=rng.choice([0, 2])))
    return out


def generate(rng, tier):
    cases = []
    if tier == 'thorough':
        cases += list(exhaustive_formal())
        n_tables, per_table, dims = 500, 50, (8, 7)
        n_mv, mv_dims, timeouts = 400, (6, 3), 1
    else:
        ex = list(exhaustive_formal())
        cases += rng.sample(ex, 700)
        n_tables, per_table, dims = 80, 28, (7, 6)
        n_mv, mv_dims, timeouts = 60, (5, 3), 1
    for _ in range(n_tables):
        t, kind = gen.random_table(rng, dims[0], dims[1])
        cases += formal_cases(rng, t, kind, per_table)
    n_to = 0
    for k in range(n_mv):
        # about one table in eight may contain one case that runs into the alarm
        # every third table is first built in an older version, queried, and updated in place
        cs = mv_cases(rng, mv_dims[0], mv_dims[1], timeouts if k % 8 == 0 else 0, with_prelude=(k % 3 == 1))
        cases += cs
    return cases


def shrink(case):
    out = []
    if case['kind'] == 'formal' and not case['named']:
        base = dict(case)
        for c in gen.shrink_table_case(base, row_keys=('base_objs',), col_keys=('intent', 'base_gen')):
            c['onames'] = list(range(len(c['table'])))
            c['anames'] = list(range(len(c['table'][0])))
            out.append(c)
        for key in ('intent', 'base_gen', 'base_objs'):
            v = case[key]
            if v:
                for i in range(len(v)):
                    c = dict(case)
                    c[key] = v[:i] + v[i + 1:]
                    out.append(c)
    return out

"""C13 — each pattern structure is a Galois connection and its two interval engines agree.

A case is ONE column of one pattern structure (IntervalPS, IntervalNumpyPS, SetPS, AttributePS)
with: the raw cells handed to the constructor, a list of object subsets (every one is an
argument of intention_i), a list of descriptions and a base set (arguments of extension_i).
The implementation's answers (data after _transform_data, all intentions, all extensions,
to_bin_attr_extents, n_bin_attrs; for the numpy engine also the answers of the pure-python
engine on the same input) travel in the case and are judged by Corr/C13.v.

Interval end points are dyadic numbers value/scale (scale a power of two) which Python floats
represent and compare exactly; Coq sees the scaled integers."""
import itertools
import re
from fractions import Fraction
from harness.core import coq, some, Raw, guarded, canon, zlit, ERR_KINDS

ID = 'C13'
COQ_IMPORTS = ['FCA.Corr.C13']
CASE_TYPE = 'c13_case'
CHECK = 'c13_check'
SHOW = 'c13_show'
SHARD = 120
RULE = ('case = one column (interval / interval-numpy / set-valued / attribute-like) x a list of object '
        'subsets (each an intention_i call; all non-empty subsets for <= 6 rows) x every description over the '
        'value grid plus the empty one (each an extension_i call under the case base set) x to_bin_attr_extents '
        'x n_bin_attrs; descriptions include the half-bounded (a, inf), (-inf, b) and (-inf, inf), cells may have '
        'infinite end points (encoded as +-2^62, an order embedding); a third of the cases mutate, in place, the '
        'very list / set objects handed to the constructor or the data setter before querying (input aliasing); '
        'plus a mutate-then-requery stream (structure built on a first column and queried, data '
        'replaced in place through the public data setter, then the whole bundle); non-trivial = column not constant, (interval: has a proper interval with left != right), '
        'base set given and not a sorted prefix')
EXHAUSTIVE = {'thorough': 'every interval column of length <= 3 over a 3-value grid (points and proper intervals), '
                          'both engines, every set-valued column of length <= 3 over <= 2 symbols and length <= 2 '
                          'over 3 symbols, every boolean column of length <= 3; x every ordered non-empty object '
                          'subset x every description on the grid and the empty one x bases {None, [], every '
                          'ordered subset}'}
KINDS = ['interval', 'interval_np', 'set', 'attr']
NAME = 'p'


# ------------------------------------------------------------------ building the structure

# +-infinity: in the cases and in Coq an infinite end point is the integer +-INF, above every
# finite grid value (|scaled value| < 2**45): an order embedding of the extended reals a case
# uses into Z (the model only compares end points and takes min / max, see C13_order_invariance)
INF = 2 ** 62


def to_float(x, s):
    if x >= INF:
        return float('inf')
    if x <= -INF:
        return float('-inf')
    return x / s


def _cell(r, s):
    if r[0] == 'num':
        return to_float(r[1], s)
    seq = [to_float(x, s) for x in r[1]]
    return tuple(seq) if (len(r) > 2 and r[2] == 'tuple') else list(seq)


def _set_cell(r):
    if r[0] == 'atom':
        return r[1]
    how = r[2] if len(r) > 2 else 'set'
    return {'set': set, 'list': list, 'tuple': tuple, 'frozenset': frozenset}[how](r[1])


def cells(kind, raw, scale):
    if kind in ('interval', 'interval_np'):
        return [_cell(r, scale) for r in raw]
    if kind == 'set':
        return [_set_cell(r) for r in raw]
    return [(bool(v) if isinstance(v, bool) else v) for v in raw]


def build_ps(kind, raw, scale, alias=False):
    from fcapy.mvcontext import pattern_structure as PS
    cls = {'interval': PS.IntervalPS, 'interval_np': PS.IntervalNumpyPS, 'set': PS.SetPS, 'attr': PS.AttributePS}
    handed = cells(kind, raw, scale)
    ps = cls[kind](handed, name=NAME)
    if alias:
        scramble(handed)       # the structure must have copied what it was given
    return ps


def scramble(handed):
    """Mutate, in place, the very objects that were handed to a constructor / data setter: inner
    mutable cells first (lists, sets), then the outer list (cells replaced, rows appended, cleared)."""
    for i, cell in enumerate(list(handed)):
        if isinstance(cell, list):
            cell.reverse()
            cell.append(99.0)
        elif isinstance(cell, set):
            cell.clear()
            cell.add(77)
    for i in range(len(handed)):
        v = handed[i]
        handed[i] = (not v) if isinstance(v, bool) else handed[(i + 1) % len(handed)]
    handed.append(handed[0] if handed else 0)
    if len(handed) % 2:
        handed.clear()


def warm_up(ps, n):
    """First round of a history case: touch everything a structure could memoise."""
    for fn in (lambda: list(ps.to_bin_attr_extents()), lambda: ps.n_bin_attrs,
               lambda: ps.intention_i(list(range(n))), lambda: [ps.intention_i([g]) for g in range(n)],
               lambda: ps.extension_i(ps.intention_i(list(range(n)))),
               lambda: ps.extension_i(ps.intention_i([0]), [0]), lambda: hash(ps), lambda: ps.to_numeric()):
        try:
            fn()
        except Exception:
            pass


def _preload():
    import numpy  # noqa
    import fcapy.mvcontext.pattern_structure  # noqa


def _unscale(x, s):
    import math
    if math.isinf(float(x)):
        return INF if float(x) > 0 else -INF
    f = Fraction(float(x)) * s
    if f.denominator != 1:
        raise ValueError('off-grid number %r' % (x,))
    return int(f)


def _seq_as(lst, how):
    import numpy as np
    if lst is None:
        return None
    if how == 'array':
        return np.array(lst, dtype=int)
    if how == 'tuple':
        return tuple(lst)
    return list(lst)


def desc_to_py(kind, d, s):
    if kind in ('interval', 'interval_np'):
        if d is None:
            return None
        if isinstance(d, dict):
            return to_float(d['num'], s)
        return (to_float(d[0], s), to_float(d[1], s))
    if kind == 'set':
        return None if d is None else set(d)
    return bool(d)


def desc_from_py(kind, v, s):
    if kind in ('interval', 'interval_np'):
        if v is None:
            return None
        return [_unscale(v[0], s), _unscale(v[1], s)]
    if kind == 'set':
        if v is None:
            return None
        return sorted(int(x) for x in v)
    if not isinstance(canon(v), bool):
        raise ValueError('attribute description is not a bool: %r' % (v,))
    return bool(v)


def parse_bin_name(kind, name, s):
    if kind == 'attr':
        if name != NAME:
            raise ValueError('unexpected name %r' % name)
        return True
    if not name.startswith(NAME + ': '):
        raise ValueError('unexpected name %r' % name)
    body = name[len(NAME) + 2:]
    if kind == 'set':
        if body == '∅':
            return []
        return [int(x) for x in body.split(', ')]
    if body == '∅':
        return None
    m = re.fullmatch(r'\((.+), (.+)\)', body)
    return [_unscale(float(m.group(1)), s), _unscale(float(m.group(2)), s)]


def bundle(kind, case):
    s = case.get('scale', 1)
    if case.get('raw_before') is not None:
        # mutate-then-requery: build on a first column, query it, replace the data in place
        ps = build_ps(kind, case['raw_before'], s, case.get('alias'))
        warm_up(ps, len(case['raw_before']))
        handed = cells(kind, case['raw'], s)
        ps.data = handed
        if case.get('alias'):
            scramble(handed)
    else:
        ps = build_ps(kind, case['raw'], s, case.get('alias'))
    # data after _transform_data
    if kind in ('interval', 'interval_np'):
        data = [[_unscale(l, s), _unscale(r, s)] for l, r in canon(ps.data)]
    elif kind == 'set':
        data = [sorted(int(x) for x in row) for row in ps.data]
    else:
        data = [bool(canon(x)) for x in ps.data]
        if any(not isinstance(canon(x), bool) for x in ps.data):
            raise ValueError('non-bool data')
    sub_as = case.get('sub_as', 'list')
    base_as = case.get('base_as', 'list')
    if kind in ('interval', 'interval_np'):
        # every end point of a returned description must be bit-identical to an input end point
        import struct
        allowed = set()
        for r in case['raw']:
            for x in ([r[1]] if r[0] == 'num' else r[1]):
                allowed.add(struct.pack('>d', to_float(x, s)))
        for A in case['subsets']:
            d = ps.intention_i(_seq_as(A, sub_as))
            if d is not None:
                for e in (d[0], d[1]):
                    if type(e) is not float or struct.pack('>d', e) not in allowed:
                        raise ValueError('description end point %r is not an input end point' % (e,))
        for l, r in canon(ps.data):
            if struct.pack('>d', float(l)) not in allowed or struct.pack('>d', float(r)) not in allowed:
                raise ValueError('stored end point (%r, %r) is not an input end point' % (l, r))
    ints = [desc_from_py(kind, ps.intention_i(_seq_as(A, sub_as)), s) for A in case['subsets']]
    exts = []
    for d in case['descs']:
        e = canon(ps.extension_i(desc_to_py(kind, d, s), _seq_as(case['base'], base_as))
                  if case['base'] is not None else ps.extension_i(desc_to_py(kind, d, s)))
        if not (isinstance(e, list) and all(isinstance(x, int) and not isinstance(x, bool) and x >= 0 for x in e)):
            raise ValueError('extension is not a list of indexes: %r' % (e,))
        exts.append(e)
    bins = [[parse_bin_name(kind, nm, s), canon(ext)] for nm, ext in ps.to_bin_attr_extents()]
    nbin = int(ps.n_bin_attrs)
    return {'data': data, 'ints': ints, 'exts': exts, 'bins': bins, 'nbin': nbin}


def run_impl(case):
    def go():
        out = bundle(case['kind'], case)
        if case['kind'] == 'interval_np':
            out['twin'] = bundle('interval', case)
        return out
    _preload()
    r = guarded(go, timeout_s=20)
    return list(r)


# ------------------------------------------------------------------ Coq terms

def zpair(p):
    return Raw('(%s, %s)' % (zlit(p[0]), zlit(p[1])))


def desc_term(kind, d):
    if kind in ('interval', 'interval_np'):
        if d is None:
            return Raw('(DIv None)')
        if isinstance(d, dict):
            return Raw('(DIv (Some %s))' % zpair([d['num'], d['num']]))
        return Raw('(DIv (Some %s))' % zpair(d))
    if kind == 'set':
        return Raw('(DSet %s)' % some(None if d is None else list(d)))
    return Raw('(DAttr %s)' % coq(bool(d)))


def col_term(kind, data):
    if kind == 'interval':
        return Raw('(CInterval %s)' % coq([zpair(p) for p in data]))
    if kind == 'interval_np':
        return Raw('(CIntervalNp %s)' % coq([zpair(p) for p in data]))
    if kind == 'set':
        return Raw('(CSet %s)' % coq([list(r) for r in data]))
    return Raw('(CAttr %s)' % coq([bool(b) for b in data]))


def raw_term(kind, raw):
    if kind in ('interval', 'interval_np'):
        items = []
        for r in raw:
            if r[0] == 'num':
                items.append(Raw('(RNum %s)' % zlit(r[1])))
            else:
                items.append(Raw('(RSeq %s)' % coq([zlit(x) for x in r[1]])))
        return Raw('(Some (RawIv %s))' % coq(items))
    if kind == 'set':
        items = [Raw('(RAtom %d)' % r[1]) if r[0] == 'atom' else Raw('(RIter %s)' % coq(list(r[1]))) for r in raw]
        return Raw('(Some (RawSet %s))' % coq(items))
    return Raw('(Some (RawAttr %s))' % coq([int(v) for v in raw]))


def bins_term(kind, bins):
    return coq([Raw('(%s, %s)' % (desc_term(kind, d), coq([bool(b) for b in e]))) for d, e in bins])


def to_coq(case, out):
    kind = case['kind']
    empty_col = col_term(kind, [])
    subsets = coq([list(a) for a in case['subsets']])
    descs = coq([desc_term(kind, d) for d in case['descs']])
    cands = coq([desc_term(kind, d) for d in case['cands']])
    head = 'Build_c13_case @COL@ %s %s %s %s %s' % (raw_term(kind, case['raw']), subsets, descs,
                                                   some(case['base']), cands)
    if out[0] != 'ok':
        return head.replace('@COL@', empty_col) + ' %d [] [] [] 0 None' % ERR_KINDS.get(out[1], 11)
    o = out[1]
    twin = 'None'
    if 'twin' in o:
        t = o['twin']
        twin = '(Some (%s, %s, %s, %d))' % (coq([desc_term(kind, d) for d in t['ints']]), coq(t['exts']),
                                            bins_term(kind, t['bins']), t['nbin'])
    return head.replace('@COL@', col_term(kind, o['data'])) + ' 0 %s %s %s %d %s' % (
        coq([desc_term(kind, d) for d in o['ints']]), coq(o['exts']), bins_term(kind, o['bins']), o['nbin'], twin)


# ------------------------------------------------------------------ generators

def cell_values(case):
    """canonical value of each row, for statistics"""
    out = []
    for r in case['raw']:
        if case['kind'] in ('interval', 'interval_np'):
            if r[0] == 'num':
                out.append((r[1], r[1]))
            else:
                out.append(tuple(r[1]) if len(r[1]) != 1 else (r[1][0], r[1][0]))
        elif case['kind'] == 'set':
            out.append(tuple(sorted(set(r[1]))) if r[0] == 'iter' else (r[1],))
        else:
            out.append(bool(r))
    return out


def legal(case):
    if case['kind'] in ('interval', 'interval_np'):
        return all(r[0] == 'num' or len(r[1]) in (1, 2) for r in case['raw'])
    return True


def nontrivial(case):
    if not legal(case):
        return False
    vals = cell_values(case)
    if len(set(vals)) < 2:
        return False
    if case['kind'] in ('interval', 'interval_np') and not any(v[0] != v[1] for v in vals):
        return False
    b = case['base']
    return b is not None and b != list(range(len(b)))


def stats(case):
    b = case['base']
    if b is None:
        bk = 'none'
    elif not b:
        bk = 'empty'
    elif b == list(range(len(b))):
        bk = 'prefix'
    elif b == sorted(b):
        bk = 'sorted-nonprefix'
    else:
        bk = 'unsorted'
    return {'kind': case['kind'], 'rows': len(case['raw']), 'base': bk, 'base_as': case.get('base_as', 'list'),
            'sub_as': case.get('sub_as', 'list'), 'origin': case.get('origin', ''), 'legal': legal(case),
            'alias_probe': bool(case.get('alias')),
            'infinite': any(abs(x) >= INF for r in case['raw'] if case['kind'].startswith('interval')
                            for x in ([r[1]] if r[0] == 'num' else r[1])),
            'grid': ('fine 2^-30' if case.get('scale', 1) == 2 ** 30 else
                     'big ints' if any(abs(x) >= 2 ** 24 for r in case['raw'] if case['kind'].startswith('interval')
                                       for x in ([r[1]] if r[0] == 'num' else r[1])) else 'small'),
            'api_calls': len(case['subsets']) + len(case['descs']) + 2}


def interval_descs(grid, pure):
    ds = [None]
    for a in grid:
        for b in grid:
            ds.append([a, b])            # includes a > b (covers nothing unless an improper cell exists)
    # half-bounded and unbounded descriptions (what generators_to_description and the premises of
    # a decision lattice produce)
    for a in grid:
        if abs(a) < INF:
            ds.append([a, INF])
            ds.append([-INF, a])
    ds.append([-INF, INF])
    ds.append([INF, -INF])
    cands = list(ds)
    if pure:
        ds = ds + [{'num': a} for a in grid]
    return ds, cands


def set_descs(symbols):
    ds = [None]
    for k in range(len(symbols) + 1):
        for c in itertools.combinations(symbols, k):
            ds.append(list(c))
    return ds, list(ds)


def ordered_subsets(n, max_size=None):
    out = []
    for k in range(0, (max_size if max_size is not None else n) + 1):
        for p in itertools.permutations(range(n), k):
            out.append(list(p))
    return out


def subsets_for(rng, n, limit=70):
    subs = [list(c) for k in range(1, n + 1) for c in itertools.combinations(range(n), k)]
    if len(subs) > limit:
        subs = rng.sample(subs, limit)
    # some unsorted argument orders too, and the empty set (pinned convention)
    extra = []
    for _ in range(min(6, len(subs))):
        a = list(rng.choice(subs))
        rng.shuffle(a)
        extra.append(a)
    return [[]] + subs + extra


def make_case(kind, raw, scale, subsets, base, grid_or_symbols, sub_as='list', base_as='list', origin=''):
    if kind in ('interval', 'interval_np'):
        descs, cands = interval_descs(grid_or_symbols, kind == 'interval')
    elif kind == 'set':
        descs, cands = set_descs(grid_or_symbols)
    else:
        descs, cands = [False, True], [False, True]
    return {'kind': kind, 'scale': scale, 'raw': raw, 'subsets': subsets, 'descs': descs, 'cands': cands,
            'base': base, 'sub_as': sub_as, 'base_as': base_as, 'origin': origin}


def random_base(rng, n):
    mode = rng.choice(['none', 'empty', 'full', 'rev', 'nonprefix', 'unsorted', 'unsorted', 'single', 'rand'])
    if mode == 'none':
        return None
    if mode == 'empty':
        return []
    if mode == 'full':
        return list(range(n))
    if mode == 'rev':
        return list(range(n - 1, -1, -1))
    if mode == 'single':
        return [rng.randrange(n)]
    k = rng.randint(1, n)
    b = rng.sample(range(n), k)
    if mode == 'nonprefix':
        b.sort()
        if b == list(range(len(b))) and n > len(b):
            b[-1] = n - 1
    return b


def special_grid(rng, mode=None):
    """Value grids that separate float64 from narrower float types while staying exact in float64
    and in the Z model: integers around/above 2**24, 2**31, 2**40 (scale 1) and fine dyadic
    fractions m / 2**30 (scale 2**30), each with pairs one grid unit apart, mixed with ordinary
    small values.  Returns (scale, sorted grid of scaled integers)."""
    mode = mode or rng.choice(['big', 'fine'])
    if mode == 'big':
        base = rng.choice([2 ** 24, 2 ** 24, 2 ** 31, 2 ** 40])
        k = rng.randint(-2, 2)
        vals = {base + k, base + k + 1}                       # one unit apart
        vals |= {base + rng.randint(-3, 4) for _ in range(rng.randint(0, 2))}
        if rng.random() < 0.5:
            vals |= {-(base + rng.randint(0, 3))}
        vals |= set(rng.sample(range(-5, 6), rng.randint(0, 2)))   # ordinary small values
        return 1, sorted(vals)[:6] if rng.random() < 0.5 else sorted(vals)[-6:]
    s = 2 ** 30
    m = rng.choice([2 ** 29, 2 ** 30, 3 * 2 ** 29, 2 ** 31 - 7, 107374182, 322122547]) + rng.randint(-2, 2)
    vals = {m, m + 1}                                          # differ by 2**-30
    vals |= {m + rng.randint(-3, 4) for _ in range(rng.randint(0, 2))}
    if rng.random() < 0.4:
        vals |= {-m, -m - 1}
    vals |= {x * s for x in rng.sample(range(-3, 4), rng.randint(0, 2))}     # ordinary values -3.0 .. 3.0
    g = sorted(vals)
    if len(g) > 6:
        keep = {m, m + 1}
        rest = [x for x in g if x not in keep]
        g = sorted(keep | set(rng.sample(rest, 4)))
    return s, g


def random_interval_raw(rng, n, grid, illegal=False):
    raw = []
    style = rng.choice(['mixed', 'mixed', 'mixed', 'points', 'proper', 'nested', 'const'])
    for i in range(n):
        a, b = rng.choice(grid), rng.choice(grid)
        lo, hi = min(a, b), max(a, b)
        if style == 'points':
            hi = lo
        elif style == 'proper' and lo == hi and len(grid) > 1:
            lo, hi = grid[0], grid[-1]
        elif style == 'nested':
            k = min(i, (len(grid) - 1) // 2)
            lo, hi = grid[k], grid[len(grid) - 1 - k]
        elif style == 'const':
            lo, hi = grid[0], grid[-1]
        if lo == hi:
            form = rng.choice(['num', 'seq1', 'seq2'])
            if form == 'num':
                raw.append(['num', lo])
            elif form == 'seq1':
                raw.append(['seq', [lo], rng.choice(['tuple', 'list'])])
            else:
                raw.append(['seq', [lo, hi], rng.choice(['tuple', 'list'])])
        else:
            raw.append(['seq', [lo, hi], rng.choice(['tuple', 'list'])])
    if rng.random() < 0.15:            # cells with an infinite end point
        for _ in range(rng.randint(1, 2)):
            i = rng.randrange(n)
            lo = grid[0]
            raw[i] = rng.choice([['seq', [-INF, rng.choice(grid)], 'tuple'], ['seq', [rng.choice(grid), INF], 'tuple'],
                                 ['seq', [-INF, INF], 'list'], ['num', INF], ['num', -INF]])
    if illegal:
        raw[rng.randrange(n)] = ['seq', rng.choice([[], [grid[0], grid[0], grid[-1]]]), 'list']
    return raw


def random_case(rng, max_rows):
    c = _random_case(rng, max_rows)
    c['alias'] = rng.random() < 0.35
    return c


def _random_case(rng, max_rows):
    kind = rng.choice(['interval', 'interval_np', 'interval_np', 'set', 'attr'])
    n = rng.randint(1, max_rows)
    subsets = subsets_for(rng, n)
    base = random_base(rng, n)
    if kind in ('interval', 'interval_np'):
        if rng.random() < 0.3:
            scale, grid = special_grid(rng)
        else:
            scale = rng.choice([1, 2, 4, 1024])
            g = rng.randint(1, 5)
            grid = sorted(rng.sample(range(-6 * scale, 6 * scale + 1), g))
        raw = random_interval_raw(rng, n, grid, illegal=rng.random() < 0.03)
        grid = sorted(set(grid) | {x for r in raw if r[0] == 'num' or len(r[1]) in (1, 2)
                                   for x in ([r[1]] if r[0] == 'num' else r[1]) if abs(x) >= INF})
        sub_as = rng.choice(['list', 'list', 'array', 'tuple']) if kind == 'interval_np' else \
            rng.choice(['list', 'tuple'])
        base_as = rng.choice(['list', 'array', 'array', 'tuple'])
        return make_case(kind, raw, scale, subsets, base, grid, sub_as, base_as, 'random')
    if kind == 'set':
        u = rng.randint(1, 3)
        symbols = sorted(rng.sample(range(7), u))
        raw = []
        style = rng.choice(['rand', 'rand', 'single', 'withempty', 'const'])
        for _ in range(n):
            row = [x for x in symbols if rng.random() < 0.5]
            if style == 'single':
                row = [rng.choice(symbols)]
            elif style == 'const':
                row = list(symbols[:1])
            elif style == 'withempty' and rng.random() < 0.4:
                row = []
            if len(row) == 1 and rng.random() < 0.3:
                raw.append(['atom', row[0]])
            else:
                rr = list(row)
                if rng.random() < 0.2 and rr:
                    rr = rr + [rr[0]]          # an iterable with a repeated symbol
                raw.append(['iter', rr, rng.choice(['set', 'list', 'tuple', 'frozenset'])])
        universe = sorted(set(symbols) | ({rng.randrange(7)} if u < 3 and rng.random() < 0.3 else set()))
        return make_case(kind, raw, 1, subsets, base, universe, rng.choice(['list', 'tuple']),
                         rng.choice(['list', 'array', 'tuple']), 'random')
    p = rng.choice([0.0, 0.2, 0.5, 0.8, 1.0])
    raw = []
    plain = rng.random() < 0.5           # a plain list of bools, as most callers pass
    for _ in range(n):
        v = rng.random() < p
        raw.append(v if plain else rng.choice([v, int(v), 2 * int(v)]))
    return make_case(kind, raw, 1, subsets, base, None, rng.choice(['list', 'tuple']),
                     rng.choice(['list', 'array', 'tuple']), 'random')


def exhaustive_cases():
    grid = [0, 1, 3]
    cells = [(a, b) for a in grid for b in grid if a <= b]
    for n in (1, 2, 3):
        subs = ordered_subsets(n)
        bases = [None] + ordered_subsets(n)
        for col in itertools.product(cells, repeat=n):
            raw = [['num', a] if (a == b and (i + a) % 2 == 0) else ['seq', [a, b], 'tuple']
                   for i, (a, b) in enumerate(col)]
            for kind in ('interval', 'interval_np'):
                for bi, base in enumerate(bases):
                    yield make_case(kind, raw, 1, subs, base, grid, 'list',
                                    'array' if (kind == 'interval_np' and bi % 2) else 'list', 'exhaustive')
    for symbols, lens in (([1], (1, 2, 3)), ([1, 2], (1, 2, 3)), ([1, 2, 4], (1, 2))):
        cells = [list(c) for k in range(len(symbols) + 1) for c in itertools.combinations(symbols, k)]
        for n in lens:
            subs = ordered_subsets(n)
            bases = [None] + ordered_subsets(n)
            for col in itertools.product(cells, repeat=n):
                raw = [['iter', list(c), 'set'] for c in col]
                for base in bases:
                    yield make_case('set', raw, 1, subs, base, symbols, 'list', 'list', 'exhaustive')
    for n in (1, 2, 3):
        subs = ordered_subsets(n)
        bases = [None] + ordered_subsets(n)
        for col in itertools.product([False, True], repeat=n):
            for base in bases:
                yield make_case('attr', list(col), 1, subs, base, None, 'list', 'list', 'exhaustive')


def generate(rng, tier):
    ex = list(exhaustive_cases())
    cases = []
    if tier == 'thorough':
        cases += ex
        n_rand, rows = 9000, 8
    else:
        cases += rng.sample(ex, 1000)
        n_rand, rows = 1700, 6
    for _ in range(n_rand):
        cases.append(random_case(rng, rows))
    # mutate-then-requery: a second column of the same kind and length set through `ps.data = ...`
    n_hist = n_rand // 8
    k = 0
    while k < n_hist:
        a, b = random_case(rng, rows), None
        if not legal(a):
            continue
        for _ in range(20):
            c = random_case(rng, rows)
            if c['kind'] == a['kind'] and len(c['raw']) == len(a['raw']) and legal(c) and c['raw'] != a['raw']:
                b = c
                break
        if b is None:
            continue
        a = dict(a)
        a['raw_before'] = b['raw']
        if a['kind'] in ('interval', 'interval_np'):
            # one scale for both columns
            a['raw_before'] = [[r[0], (r[1] * a['scale']) // b['scale'] if r[0] == 'num' else
                                [(x * a['scale']) // b['scale'] for x in r[1]]] + r[2:] for r in b['raw']]
        a['origin'] = 'history'
        cases.append(a)
        k += 1
    return cases


# ------------------------------------------------------------------ shrinking

def shrink(case):
    out = []
    n = len(case['raw'])

    def reidx(lst, k):
        return [x - 1 if x > k else x for x in lst if x != k]
    if n > 1:
        for k in range(n):
            c = dict(case)
            c['raw'] = [r for i, r in enumerate(case['raw']) if i != k]
            if case.get('raw_before') is not None:
                c['raw_before'] = [r for i, r in enumerate(case['raw_before']) if i != k]
            c['subsets'] = [reidx(a, k) for a in case['subsets']]
            c['base'] = None if case['base'] is None else reidx(case['base'], k)
            out.append(c)
    for key in ('subsets', 'descs'):
        v = case[key]
        if len(v) > 1:
            half = len(v) // 2
            for part in (v[:half], v[half:]):
                c = dict(case)
                c[key] = part
                out.append(c)
            if len(v) <= 8:
                for i in range(len(v)):
                    c = dict(case)
                    c[key] = v[:i] + v[i + 1:]
                    out.append(c)
    if len(case['subsets']) == 1 and case['subsets'][0]:
        c = dict(case)
        c['subsets'] = []
        out.append(c)
    if len(case['descs']) == 1:
        c = dict(case)
        c['descs'] = []
        out.append(c)
    if case['base']:
        for i in range(len(case['base'])):
            c = dict(case)
            c['base'] = case['base'][:i] + case['base'][i + 1:]
            out.append(c)
    if case.get('raw_before') is not None:
        c = dict(case)
        c['raw_before'] = None
        out.append(c)
    if case.get('alias'):
        c = dict(case)
        c['alias'] = False
        out.append(c)
    if case.get('base_as') != 'list' or case.get('sub_as') != 'list':
        c = dict(case)
        c['base_as'] = 'list'
        c['sub_as'] = 'list'
        out.append(c)
    return out

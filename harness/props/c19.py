"""C19 — line-diagram layouts respect the order; node moving preserves levels.

Two kinds of cases:
  layout : a poset (POSet over subsets / divisibility / a random DAG closure / ... or a concept
           lattice built from a random context) -> calc_levels, fcart_layout(c, dpth),
           multipartite_layout
  mover  : a direction, a dictionary of distinct points on a dyadic grid, a history of
           swap / shift / jitter / place / direction operations -> exception code and Mover.pos
           after loading and after every operation
Floats are carried to Coq as exact fractions (fractions.Fraction(float))."""
import itertools
from fractions import Fraction
from harness.core import coq, Raw, guarded, canon, ERR_KINDS

ID = 'C19'
COQ_IMPORTS = ['FCA.Corr.C19']
COQ_HEADER = ('From Coq Require Import ZArith.\n'
              'Definition q (a : BinNums.Z) (b : BinNums.positive) := QArith_base.Qmake a b.\n')
CASE_TYPE = 'c19_case'
CHECK = 'c19_check'
SHOW = 'c19_show'
SHARD = 75
RULE = ('hist cases = a poset OBJECT with a history (POSet / UpperSemiLattice / Lattice over subset and divisibility '
        'orders, ConceptLattice of a random context): 0-2 mutations, layout, 1-3 mutations, layout (, again) with '
        'mutations add(fill_up_cache True/False), re-add of a removed element, del by index, remove by value, re-add of an '
        'existing element, of the top, of the bottom; every layout judged against the order of the CURRENT elements '
        'recomputed from scratch; viz cases = ONE LineVizNx object reused for 2-4 posets (fresh ones or the previous one after POSet.add / del), '
        'init_mover_per_poset(poset, layout) for both layouts each time (sometimes followed by draw_poset on the Agg '
        'backend), positions read from visualizer.mover.pos and judged like a layout case of the CURRENT poset; '
        'layout cases = (poset as comparison matrix, c, dpth) with calc_levels / fcart / multipartite outputs; '
        'mover cases = (direction, distinct dyadic points in a SHUFFLED dictionary insertion order, load route [constructor / '
        'pos setter after construction / after a direction assignment / reload of a loaded mover / '
        'Mover.initialize_pos(poset, fcart|multipartite) on posets stored in arbitrary index order], history of '
        'operations) with pos and the attribute arrays after every step; '
        'non-trivial = layout: >= 4 elements, >= 2 levels, some level with >= 2 elements and neither a chain '
        'nor an antichain; mover: >= 4 nodes, a level with >= 3 peers and >= 3 operations of >= 2 kinds')
EXHAUSTIVE = {'thorough': 'layouts: every partial order on <= 4 labelled elements (the empty poset included) (all reflexive-antisymmetric-'
                          'transitive matrices) with (c, dpth) = (0.5, 1); mover: every single operation '
                          '(swap of every pair, shift by -2..2, 7 jitter offsets, 5 place targets) on 3 fixed '
                          '5-node pictures in both orientations'}
TRUSTED_EXTRA = ['networkx.multipartite_layout is not modelled: only its contract (one row per level, lower '
                 'levels lower, distinct points) is checked on the implementation',
                 'comparison of layout / mover numbers with the Q model uses the tolerance 1e-9*max(1,|x|); '
                 'the order / level / exactness predicates are evaluated exactly on the implementation floats']
ASSUMPTIONS = ['node indexes given to the mover are in range; place_node is used in the vertical orientation only',
               'fcart x coordinates are compared with the model only when no two elements of a level with '
               'different parents have priorities closer than 1e-9 (float rounding may break such ties either way)']

C_CHOICES = [Fraction(1, 2), Fraction(1), Fraction(1, 4), Fraction(2), Fraction(0), Fraction(3, 2),
             Fraction(-1, 2), Fraction(3, 4)]
DPTH_CHOICES = [1, 1, 2, 3, 0, 10, -1]


# ------------------------------------------------------------------ Coq printing

def q(fr):
    fr = Fraction(fr)
    return '(q %s %d)' % (('(%d)' % fr.numerator) if fr.numerator < 0 else str(fr.numerator), fr.denominator)


def pt(p):
    return '(%s, %s)' % (q(p[0]), q(p[1]))


def pts(ps):
    return '[' + '; '.join(pt(p) for p in ps) + ']'


def zl(v):
    return '(%d)%%Z' % v


def frac_pair(p):
    """a float pair -> exact [num, den, num, den]"""
    a, b = Fraction(float(p[0])), Fraction(float(p[1]))
    return [a.numerator, a.denominator, b.numerator, b.denominator]


def ffr1(x):
    f = Fraction(float(x))
    return [f.numerator, f.denominator]


def unfrac(v):
    return (Fraction(v[0], v[1]), Fraction(v[2], v[3]))


# ------------------------------------------------------------------ building posets

def leq_of(case):
    car = case['carrier']
    els = case['elements']
    if car == 'subsets':
        fs = [frozenset(e) for e in els]
        return fs, (lambda a, b: a <= b)
    if car == 'div':
        return list(els), (lambda a, b: b % a == 0)
    rel = case['rel']
    return list(range(len(rel))), (lambda a, b: rel[a][b])


def rel_of_elements(case):
    els, leq = leq_of(case)
    return [[bool(leq(a, b)) for b in els] for a in els]


def run_layout(case):
    from fcapy.visualizer import line_layouts as ll

    def go():
        if case['carrier'] == 'lattice':
            from fcapy.context import FormalContext
            from fcapy.lattice import ConceptLattice
            K = FormalContext(data=[list(r) for r in case['table']])
            P = ConceptLattice.from_context(K, algo=case.get('algo', 'CbO'))
            exts = [frozenset(c.extent_i) for c in P]
            rel = [[a <= b for b in exts] for a in exts]
        else:
            from fcapy.poset import POSet
            els, leq = leq_of(case)
            P = POSet(els, leq_func=leq, use_cache=case.get('use_cache', True))
            rel = case['rel']
        c = case['c'][0] / case['c'][1]
        out = {'rel': rel}
        lv, ld = ll.calc_levels(P)
        out['levels'] = [int(x) for x in lv]
        out['ldict'] = [[int(x) for x in ld[k]] for k in range(len(ld))] if sorted(ld) == list(range(len(ld))) else None
        fc = ll.fcart_layout(P, c=c, dpth=case['dpth'])
        out['fcart'] = [frac_pair(fc[i]) for i in range(len(fc))] if sorted(fc) == list(range(len(fc))) else None
        mu = ll.LAYOUTS['multipartite'](P)
        out['multi'] = [frac_pair(mu[i]) for i in range(len(mu))] if sorted(mu) == list(range(len(mu))) else None
        return out
    r = guarded(go, 20)
    return list(r)


# ------------------------------------------------------------------ mover

def op_code(e):
    from harness.core import classify_exception
    return ERR_KINDS.get(classify_exception(e), 11)


def run_mover(case):
    from fcapy.visualizer.mover import Mover

    def go():
        d = 'v' if case['v'] else 'h'
        route = case.get('route', 'ctor')
        pos0 = None
        if route == 'init':
            # Mover.initialize_pos(poset, layout): the dictionary comes from the layout function itself
            # (multipartite: in networkx's layer order, not in key order)
            from fcapy.poset import POSet
            from fcapy.visualizer.line_layouts import LAYOUTS
            pc = case['poset']
            els, leq = leq_of(pc)
            P = POSet(els, leq_func=leq)
            kw = {'c': pc['c'][0] / pc['c'][1], 'dpth': pc['dpth']} if case['layout'] == 'fcart' else {}
            ref = LAYOUTS[case['layout']](POSet(els, leq_func=leq), **kw)
            pos0 = [frac_pair(ref[i]) for i in range(len(ref))]
            m = Mover(direction=d)
            m.initialize_pos(P, case['layout'], **kw)
        else:
            vals = [(float(Fraction(p[0], p[1])), float(Fraction(p[2], p[3]))) for p in case['pos']]
            order = case.get('ins') or list(range(len(vals)))
            pos = {i: vals[i] for i in order}              # insertion order is part of the case
            if route == 'ctor':
                m = Mover(pos=pos, direction=d)
            elif route == 'setter':
                m = Mover(direction=d)
                m.pos = pos
            elif route == 'dir_then_setter':
                m = Mover()
                m.direction = d
                m.pos = pos
            else:                                          # 'reload': a loaded mover gets another picture
                m = Mover(pos={i: (vals[i][1], vals[i][0]) for i in reversed(order)}, direction=d)
                m.pos = pos

        def snap():
            p = m.pos
            return [frac_pair(p[i]) for i in range(len(p))] if sorted(p) == list(range(len(p))) else None
        def ints():
            return [[int(x) for x in m.levels], [int(x) for x in m.peers_order],
                    [ffr1(x) for x in m.pos_levels], [[ffr1(x) for x in row] for row in m.pos_peers]]
        trace = [[0, snap(), ints()]]
        for op in case['ops']:
            code = 0
            try:
                k = op[0]
                if k == 'swap':
                    m.swap_nodes(op[1], op[2])
                elif k == 'shift':
                    m.shift_node(op[1], op[2])
                elif k == 'jitter':
                    m.jitter_node(op[1], float(Fraction(op[2], op[3])))
                elif k == 'place':
                    m.place_node(op[1], float(Fraction(op[2], op[3])))
                elif k == 'dir':
                    m.direction = 'v' if op[1] else 'h'
                elif k == 'setx':
                    m.posx = tuple(float(Fraction(a, b)) for a, b in op[1])
                elif k == 'sety':
                    m.posy = tuple(float(Fraction(a, b)) for a, b in op[1])
                # the three getters must tell the same story
                p = m.pos
                if tuple(p[i][0] for i in range(len(p))) != tuple(m.posx) or \
                        tuple(p[i][1] for i in range(len(p))) != tuple(m.posy):
                    code = 98
            except Exception as e:  # noqa
                code = op_code(e)
            trace.append([code, snap(), ints()])
        return {'trace': trace, 'pos0': pos0}
    return list(guarded(go, 20))


def run_viz(case):
    """ONE visualizer object shows a sequence of posets (fresh ones, or the previous one after add / delete);
    every time init_mover_per_poset(poset, layout) is called for both layouts and visualizer.mover.pos is read"""
    def go():
        import matplotlib
        matplotlib.use('Agg')
        from fcapy.poset import POSet
        from fcapy.visualizer import line_layouts as ll
        from fcapy.visualizer.line_visualizers import LineVizNx
        viz = LineVizNx()
        P, leq = None, None
        outs = []
        for st in case['steps']:
            if st.get('mutate') is None:
                els, leq = leq_of(st)
                P = POSet(els, leq_func=leq)
            elif st['mutate'][0] == 'add':
                e = st['mutate'][1]
                P.add(frozenset(e) if isinstance(e, list) else e)
            else:
                del P[st['mutate'][1]]
            els_now = list(P.elements)
            o = {'rel': [[bool(leq(a, b)) for b in els_now] for a in els_now]}
            try:
                lv, ld = ll.calc_levels(P)
                o['levels'] = [int(x) for x in lv]
                o['ldict'] = [[int(x) for x in ld[k]] for k in range(len(ld))] if sorted(ld) == list(range(len(ld))) else None
                # (c, dpth) cannot be given here: init_mover_per_poset filters its keyword arguments by the
                # NAMES in Mover.initialize_pos's signature (poset, layout, kwargs), so layout parameters are
                # silently dropped and the defaults c=0.5, dpth=1 apply; the steps carry exactly those
                viz.init_mover_per_poset(P, layout='fcart')
                fc = viz.mover.pos or {}
                o['fcart'] = [frac_pair(fc[i]) for i in range(len(fc))] if sorted(fc) == list(range(len(fc))) else None
                viz.init_mover_per_poset(P, layout='multipartite')
                mu = viz.mover.pos or {}
                o['multi'] = [frac_pair(mu[i]) for i in range(len(mu))] if sorted(mu) == list(range(len(mu))) else None
                if st.get('draw') and len(els_now) > 0:
                    import matplotlib.pyplot as plt
                    fig, ax = plt.subplots()
                    import logging
                    logging.disable(logging.WARNING)      # node-on-edge overlay warnings are not of interest here
                    try:
                        viz.draw_poset(P, ax=ax)
                    finally:
                        logging.disable(logging.NOTSET)
                        plt.close(fig)
            except Exception as e:  # noqa
                o['err'] = op_code(e)
            outs.append(o)
        return outs
    return list(guarded(go, 60))


def layout_step(P, rel, c, dpth):
    """the three layout calls on a poset object as it is now"""
    from fcapy.visualizer import line_layouts as ll
    o = {'rel': rel}
    try:
        lv, ld = ll.calc_levels(P)
        o['levels'] = [int(x) for x in lv]
        o['ldict'] = [[int(x) for x in ld[k]] for k in range(len(ld))] if sorted(ld) == list(range(len(ld))) else None
        fc = ll.fcart_layout(P, c=c, dpth=dpth)
        o['fcart'] = [frac_pair(fc[i]) for i in range(len(fc))] if sorted(fc) == list(range(len(fc))) else None
        mu = ll.LAYOUTS['multipartite'](P)
        o['multi'] = [frac_pair(mu[i]) for i in range(len(mu))] if sorted(mu) == list(range(len(mu))) else None
    except Exception as e:  # noqa
        o['err'] = op_code(e)
    return o


def run_hist(case):
    """a poset OBJECT with a history: POSet / UpperSemiLattice / Lattice / ConceptLattice, laid out, mutated
    (add eagerly / lazily, delete by index, remove by value, re-add an existing element - also the top or the
    bottom), laid out again.  The order of the CURRENT elements is recomputed from scratch for the judgement."""
    def go():
        from fcapy import poset as pm
        cls = case['cls']
        if cls == 'ConceptLattice':
            from fcapy.context import FormalContext
            from fcapy.lattice import ConceptLattice
            P = ConceptLattice.from_context(FormalContext(data=[list(r) for r in case['table']]), algo=case.get('algo', 'CbO'))

            def leq(a, b):
                return set(a.extent_i) <= set(b.extent_i)

            def mk(e):
                return e
        else:
            car = case['carrier']
            if car == 'subsets':
                def mk(e):
                    return frozenset(e)

                def leq(a, b):
                    return a <= b
            else:
                def mk(e):
                    return e

                def leq(a, b):
                    return b % a == 0
            els = [mk(e) for e in case['elements']]
            P = getattr(pm, cls)(els, leq_func=leq, use_cache=case.get('use_cache', True))
        removed = []
        outs = []
        log = []
        for op in case['ops']:
            k = op[0]
            n = len(P)
            els_now = list(P.elements)
            try:
                if k == 'layout':
                    rel = [[bool(leq(a, b)) for b in els_now] for a in els_now]
                    outs.append(layout_step(P, rel, op[1][0] / op[1][1], op[2]))
                elif k == 'add':
                    P.add(mk(op[1]), fill_up_cache=op[2])
                elif k == 'addback':
                    if removed:
                        P.add(removed.pop(op[1] % len(removed)), fill_up_cache=op[2])
                elif k in ('del', 'remove') and n > 0:
                    i = op[1] % n
                    e = els_now[i]
                    if k == 'del':
                        del P[i]
                    else:
                        P.remove(e)
                    removed.append(e)
                elif k == 'readd' and n > 0:
                    P.add(els_now[op[1] % n], fill_up_cache=op[2])
                elif k in ('readd_top', 'readd_bottom') and n > 0:
                    if k == 'readd_top':
                        cand = [a for a in els_now if all(leq(b, a) for b in els_now)]
                    else:
                        cand = [a for a in els_now if all(leq(a, b) for b in els_now)]
                    if cand:
                        P.add(cand[0], fill_up_cache=op[2])
                log.append(0)
            except Exception as e:  # noqa   (e.g. deleting the top of a semilattice is refused)
                log.append(op_code(e))
        return {'steps': outs, 'log': log}
    return list(guarded(go, 60))


def run_impl(case):
    if case['kind'] == 'hist':
        return run_hist(case)
    if case['kind'] == 'viz':
        return run_viz(case)
    return run_mover(case) if case['kind'] == 'mover' else run_layout(case)


# ------------------------------------------------------------------ Coq terms

def lres(v, printer):
    return '(LErr 12)' if v is None else '(LOk %s)' % printer(v)


def op_term(op):
    k = op[0]
    if k in ('setx', 'sety'):
        return '(%s [%s])' % ('HSetX' if k == 'setx' else 'HSetY', '; '.join(q(Fraction(a, b)) for a, b in op[1]))
    return '(HOp %s)' % mop_term(op)


def mop_term(op):
    k = op[0]
    if k == 'swap':
        return '(Swap %d %d)' % (op[1], op[2])
    if k == 'shift':
        return '(Shift %d %s)' % (op[1], zl(op[2]))
    if k == 'jitter':
        return '(Jitter %d %s)' % (op[1], q(Fraction(op[2], op[3])))
    if k == 'place':
        return '(Place %d %s)' % (op[1], q(Fraction(op[2], op[3])))
    return '(SetDir %s)' % ('true' if op[1] else 'false')


def step_term(st, o):
    if 'err' in o:
        e = '(LErr %d)' % o['err']
        levels, ldict, fc, mu = e, '[]', e, e
    else:
        levels = '(LOk [%s])' % '; '.join(zl(x) for x in o['levels'])
        ldict = coq(o['ldict']) if o['ldict'] is not None else '[[99]]'
        fc = lres(o['fcart'], lambda v: pts([unfrac(p) for p in v]))
        mu = lres(o['multi'], lambda v: pts([unfrac(p) for p in v]))
    return 'Build_viz_step %d %s %s %s %s %s %s %s' % (len(o['rel']), coq(o['rel']), q(Fraction(st['c'][0], st['c'][1])),
                                                      zl(st['dpth']), levels, ldict, fc, mu)


def to_coq(case, out):
    if case['kind'] == 'hist':
        lays = [{'c': op[1], 'dpth': op[2]} for op in case['ops'] if op[0] == 'layout']
        steps = ('[' + '; '.join(step_term(st, o) for st, o in zip(lays, out[1]['steps'])) + ']') \
            if (out[0] == 'ok' and len(out[1]['steps']) == len(lays)) \
            else '[Build_viz_step 1 [[true]] (q 0 1) (0)%Z (LErr 11) [] (LErr 11) (LErr 11)]'
        return 'Build_c19_case 2 0 [] (q 0 1) (0)%%Z (LErr 0) [] (LErr 0) (LErr 0) true [] [] [] [] %s' % steps
    if case['kind'] == 'viz':
        steps = ('[' + '; '.join(step_term(st, o) for st, o in zip(case['steps'], out[1])) + ']') if out[0] == 'ok' \
            else '[Build_viz_step 1 [[true]] (q 0 1) (0)%Z (LErr 11) [] (LErr 11) (LErr 11)]'
        return 'Build_c19_case 2 0 [] (q 0 1) (0)%%Z (LErr 0) [] (LErr 0) (LErr 0) true [] [] [] [] %s' % steps
    if case['kind'] == 'layout':
        if out[0] == 'ok':
            o = out[1]
            rel = o['rel']
            levels = '(LOk [%s])' % '; '.join(zl(x) for x in o['levels'])
            ldict = coq(o['ldict']) if o['ldict'] is not None else '[[99]]'
            fc = lres(o['fcart'], lambda v: pts([unfrac(p) for p in v]))
            mu = lres(o['multi'], lambda v: pts([unfrac(p) for p in v]))
        else:
            rel = case.get('rel') or []
            e = '(LErr %d)' % ERR_KINDS.get(out[1], 11)
            levels, ldict, fc, mu = e, '[]', e, e
        return ('Build_c19_case 0 %d %s %s %s %s %s %s %s true [] [] [] [] []'
                % (len(rel), coq(rel), q(Fraction(case['c'][0], case['c'][1])), zl(case['dpth']),
                   levels, ldict, fc, mu))
    src0 = out[1]['pos0'] if (out[0] == 'ok' and out[1]['pos0'] is not None) else case.get('pos') or []
    pos0 = pts([unfrac(p) for p in src0])
    if out[0] == 'ok':
        tr = '[' + '; '.join('(%d, %s)' % (e, pts([unfrac(p) for p in ps]) if ps is not None else '[]')
                             for e, ps, _ in out[1]['trace']) + ']'

        def ql(vs):
            return '[' + '; '.join(q(Fraction(a, b)) for a, b in vs) + ']'
        ints = '[' + '; '.join('(%s, %s, %s, %s)' % (coq(i[0]), coq(i[1]), ql(i[2]), '[' + '; '.join(ql(r) for r in i[3]) + ']')
                               for _, _, i in out[1]['trace']) + ']'
    else:
        tr = '[(%d, [])]' % ERR_KINDS.get(out[1], 11)
        ints = '[]'
    return ('Build_c19_case 1 0 [] (q 0 1) (0)%%Z (LErr 0) [] (LErr 0) (LErr 0) %s %s [%s] %s %s []'
            % ('true' if case['v'] else 'false', pos0, '; '.join(op_term(o) for o in case['ops']), tr, ints))


# ------------------------------------------------------------------ generators: posets

def closure(n, edges):
    rel = [[i == j for j in range(n)] for i in range(n)]
    for a, b in edges:
        rel[a][b] = True
    for k in range(n):
        for i in range(n):
            if rel[i][k]:
                for j in range(n):
                    if rel[k][j]:
                        rel[i][j] = True
    return rel


def layout_case(carrier, elements=None, rel=None, c=Fraction(1, 2), dpth=1, shape='', **kw):
    case = {'kind': 'layout', 'carrier': carrier, 'elements': elements, 'rel': rel,
            'c': [c.numerator, c.denominator], 'dpth': dpth, 'shape': shape}
    case.update(kw)
    if rel is None and carrier != 'lattice':
        case['rel'] = rel_of_elements(case)
    return case


def random_poset_case(rng, max_n):
    shape = rng.choice(['subsets', 'subsets', 'powerset', 'div', 'div', 'dag', 'dag', 'dag', 'chain', 'antichain',
                        'tree', 'layers', 'lattice', 'lattice', 'lattice', 'diamonds'])
    c = rng.choice(C_CHOICES)
    dpth = rng.choice(DPTH_CHOICES)
    n = rng.randint(1, max_n)
    kw = {'use_cache': rng.random() < 0.8}
    if shape == 'subsets':
        k = rng.randint(1, 4)
        universe = [list(s) for r in range(k + 1) for s in itertools.combinations(range(k), r)]
        els = rng.sample(universe, min(n, len(universe)))
        return layout_case('subsets', els, c=c, dpth=dpth, shape=shape, **kw)
    if shape == 'powerset':
        k = rng.randint(0, 3)
        els = [list(s) for r in range(k + 1) for s in itertools.combinations(range(k), r)]
        rng.shuffle(els)
        return layout_case('subsets', els, c=c, dpth=dpth, shape=shape, **kw)
    if shape == 'div':
        els = rng.sample(range(1, 37), n)
        return layout_case('div', els, c=c, dpth=dpth, shape=shape, **kw)
    if shape == 'lattice':
        h, w = rng.randint(1, 4), rng.randint(1, 4)
        p = rng.choice([0.3, 0.5, 0.7])
        t = [[rng.random() < p for _ in range(w)] for _ in range(h)]
        return layout_case('lattice', c=c, dpth=dpth, shape=shape, table=t,
                           algo=rng.choice(['CbO', 'Sofia', 'Lindig']))
    perm = list(range(n))
    rng.shuffle(perm)
    edges = []
    if shape == 'dag':
        p = rng.choice([0.15, 0.3, 0.5])
        edges = [(perm[i], perm[j]) for i in range(n) for j in range(i + 1, n) if rng.random() < p]
    elif shape == 'chain':
        edges = [(perm[i], perm[i + 1]) for i in range(n - 1)]
    elif shape == 'tree':
        edges = [(perm[i], perm[rng.randrange(i)]) for i in range(1, n)]
    elif shape == 'layers':      # complete bipartite between consecutive layers, plus skipped levels
        layers, i = [], 0
        while i < n:
            k = rng.randint(1, 3)
            layers.append(perm[i:i + k])
            i += k
        for a, b in zip(layers, layers[1:]):
            edges += [(y, x) for x in a for y in b if rng.random() < 0.8]
    elif shape == 'diamonds':    # long and short routes to the same element: longest chain matters
        edges = [(perm[i], perm[j]) for i in range(n) for j in range(i) if rng.random() < 0.35]
        if n >= 3:
            edges.append((perm[n - 1], perm[0]))
    return layout_case('dag', None, closure(n, edges), c=c, dpth=dpth, shape=shape, **kw)


def all_partial_orders(n):
    pairs = [(i, j) for i in range(n) for j in range(n) if i != j]
    for bits in itertools.product([False, True], repeat=len(pairs)):
        rel = [[i == j for j in range(n)] for i in range(n)]
        for (i, j), b in zip(pairs, bits):
            rel[i][j] = b
        if any(rel[i][j] and rel[j][i] for i, j in pairs):
            continue
        if any(rel[i][j] and rel[j][k] and not rel[i][k] for i in range(n) for j in range(n) for k in range(n)):
            continue
        yield rel


_EXH = None


def exhaustive_layouts():
    global _EXH
    if _EXH is None:
        _EXH = [layout_case('dag', None, rel, shape='exhaustive') for n in (0, 1, 2, 3, 4)
                for rel in all_partial_orders(n)]
    return _EXH


# ------------------------------------------------------------------ generators: mover

GRID = 8       # coordinates are multiples of 1/8


def fr4(a, b):
    return [a.numerator, a.denominator, b.numerator, b.denominator]


def random_picture(rng, max_n):
    n = rng.randint(1, max_n)
    n_lvls = rng.randint(1, min(4, n))
    lvl_coords = rng.sample(range(-2 * GRID, 2 * GRID + 1), n_lvls)
    pts_ = []
    used = set()
    for i in range(n):
        l = lvl_coords[i] if i < n_lvls else rng.choice(lvl_coords)
        while True:
            x = rng.randint(-2 * GRID, 2 * GRID)
            if (x, l) not in used:
                used.add((x, l))
                break
        pts_.append((Fraction(x, GRID), Fraction(l, GRID)))
    rng.shuffle(pts_)
    return pts_          # (peer coordinate, level coordinate)


def random_history(rng, peer_level, n_ops, v):
    """ops drawn with the current picture in mind (same-level pairs, exact overlaps, crossings)"""
    n = len(peer_level)
    by_level = {}
    for i, (_, l) in enumerate(peer_level):
        by_level.setdefault(l, []).append(i)
    peer = [p for p, _ in peer_level]       # only approximately tracked: good enough to aim offsets
    # level index of every node as the pos setter assigns it (never changed by any operation):
    # 'v': rank of the level coordinate in descending order, 'h': in ascending order
    lcs = sorted({l for _, l in peer_level}, reverse=v)
    lidx = [lcs.index(l) for _, l in peer_level]
    ops = []
    for _ in range(n_ops):
        r = rng.random()
        i = rng.randrange(n)
        mates = by_level[peer_level[i][1]]
        if r < 0.14:
            # the posx / posy setters.  Level axis ('v': posy, 'h': posx): new, re-spaced level coordinates
            # that keep the grouping and the order of the levels (posy is sorted descending, posx ascending);
            # peer axis: arbitrary pairwise different coordinates
            level_axis = rng.random() < 0.5
            if level_axis:
                vals = sorted(rng.sample(range(-3 * GRID, 3 * GRID + 1), len(lcs)), reverse=v)
                new = [Fraction(vals[lidx[el]], GRID) for el in range(n)]
                ops.append(['sety' if v else 'setx', [[x.numerator, x.denominator] for x in new]])
            else:
                vals = rng.sample(range(-3 * GRID, 3 * GRID + 1), n)
                new = [Fraction(x, GRID) for x in vals]
                peer = list(new)
                ops.append(['setx' if v else 'sety', [[x.numerator, x.denominator] for x in new]])
            continue
        r = (r - 0.14) / 0.86
        if r < 0.22:
            j = rng.choice(mates) if rng.random() < 0.75 else rng.randrange(n)
            ops.append(['swap', i, j])
        elif r < 0.44:
            ops.append(['shift', i, rng.choice([-10, -3, -2, -1, -1, 0, 1, 1, 2, 3, 10])])
        elif r < 0.72 or (r < 0.92 and not v):
            j = rng.choice(mates)
            mode = rng.random()
            if mode < 0.2 and j != i:
                dx = peer[j] - peer[i]                        # lands exactly on a peer (maybe stale)
            elif mode < 0.5 and j != i:
                dx = peer[j] - peer[i] + Fraction(rng.choice([-1, 1]), 2 * GRID)   # just across a peer
            else:
                dx = Fraction(rng.randint(-3 * GRID, 3 * GRID), 2 * GRID)
            peer[i] = peer[i] + dx
            ops.append(['jitter', i, dx.numerator, dx.denominator])
        elif r < 0.92:
            j = rng.choice(mates)
            mode = rng.random()
            if mode < 0.2 and j != i:
                x = peer[j]
            elif mode < 0.5:
                x = peer[j] + Fraction(rng.choice([-1, 1]), 2 * GRID)
            else:
                x = Fraction(rng.randint(-3 * GRID, 3 * GRID), 2 * GRID)
            peer[i] = x
            ops.append(['place', i, x.numerator, x.denominator])
        else:
            v = not v
            ops.append(['dir', v])
    return ops


ROUTES = ['ctor', 'ctor', 'setter', 'dir_then_setter', 'reload']


def mover_case(peer_level, v, ops, shape='', ins=None, route='ctor'):
    pos = [fr4(p, l) if v else fr4(l, p) for p, l in peer_level]
    return {'kind': 'mover', 'v': v, 'pos': pos, 'ops': ops, 'shape': shape,
            'ins': ins if ins is not None else list(range(len(pos))), 'route': route}


def random_mover_case(rng, max_n, max_ops):
    pl = random_picture(rng, max_n)
    v = rng.random() < 0.6
    ops = random_history(rng, pl, rng.randint(0, max_ops), v)
    ins = list(range(len(pl)))
    if rng.random() < 0.85:
        rng.shuffle(ins)                    # the dictionary is NOT built in key order
    return mover_case(pl, v, ops, 'random', ins, rng.choice(ROUTES))


def init_mover_case(rng, max_n, max_ops):
    """load route Mover.initialize_pos(poset, layout) on a poset stored in arbitrary index order;
    only exact operations (swap / shift / direction) follow: layout coordinates are not dyadic"""
    for _ in range(20):
        pc = random_poset_case(rng, max_n)
        if pc['carrier'] != 'lattice':
            break
    else:
        pc = layout_case('dag', None, closure(3, [(0, 2), (1, 2)]))
    n = len(pc['rel'])
    v = rng.random() < 0.6
    ops = []
    for _ in range(rng.randint(0, max_ops)):
        r = rng.random()
        if r < 0.45:
            ops.append(['swap', rng.randrange(n), rng.randrange(n)])
        elif r < 0.9:
            ops.append(['shift', rng.randrange(n), rng.choice([-3, -2, -1, 0, 1, 2, 3])])
        else:
            v2 = rng.random() < 0.5
            ops.append(['dir', v2])
    return {'kind': 'mover', 'route': 'init', 'layout': rng.choice(['fcart', 'multipartite', 'multipartite']),
            'poset': pc, 'v': v, 'ops': ops, 'shape': 'init_' + pc.get('shape', '')}


_EXM = None


def exhaustive_mover():
    global _EXM
    if _EXM is not None:
        return _EXM
    F = Fraction
    pictures = [
        [(F(0), F(1)), (F(-1, 2), F(0)), (F(1, 2), F(0)), (F(1), F(0)), (F(0), F(-1))],
        [(F(-1), F(0)), (F(0), F(0)), (F(1, 4), F(0)), (F(1), F(0)), (F(3, 2), F(0))],
        [(F(1), F(1, 2)), (F(-1), F(1, 2)), (F(0), F(-1, 2)), (F(1, 8), F(-1, 2)), (F(0), F(3, 2))],
    ]
    out = []
    for pl in pictures:
        n = len(pl)
        for v in (True, False):
            single = [['swap', a, b] for a in range(n) for b in range(n)]
            single += [['shift', i, k] for i in range(n) for k in (-2, -1, 0, 1, 2)]
            for i in range(n):
                for dx in (F(-3), F(-1, 2), F(-1, 8), F(0), F(1, 8), F(1, 2), F(3)):
                    single.append(['jitter', i, dx.numerator, dx.denominator])
                if v:
                    for x in (F(-3), F(-1, 2), F(1, 8), F(1), F(3)):
                        single.append(['place', i, x.numerator, x.denominator])
            single += [['dir', True], ['dir', False]]
            for op in single:
                out.append(mover_case(pl, v, [op], 'exhaustive'))
    _EXM = out
    return out


def viz_case(rng, max_n):
    """2-4 uses of one visualizer: different posets, or the previous poset after add / delete"""
    steps = []
    cur = None
    for k in range(rng.randint(2, 4)):
        c, dpth = rng.choice(C_CHOICES), rng.choice(DPTH_CHOICES)
        st = None
        if cur is not None and rng.random() < 0.5:
            n_now = cur['n']
            if cur['carrier'] in ('subsets', 'div') and rng.random() < 0.55:
                if cur['carrier'] == 'div':
                    cand = [x for x in range(1, 37) if x not in cur['els']]
                    e = rng.choice(cand)
                else:
                    universe = [list(s) for r in range(5) for s in itertools.combinations(range(4), r)]
                    cand = [s for s in universe if s not in cur['els']]
                    e = rng.choice(cand) if cand else None
                if e is not None:
                    st = {'mutate': ['add', e]}
                    cur['els'] = cur['els'] + [e]
                    cur['n'] += 1
            if st is None and n_now > 1:
                i = rng.randrange(n_now)
                st = {'mutate': ['del', i]}
                cur['els'] = cur['els'][:i] + cur['els'][i + 1:]
                cur['n'] -= 1
        if st is None:
            for _ in range(20):
                pc = random_poset_case(rng, max_n)
                if pc['carrier'] != 'lattice':
                    break
            else:
                pc = layout_case('dag', None, closure(3, [(0, 2), (1, 2)]))
            st = {'mutate': None, 'carrier': pc['carrier'], 'elements': pc['elements'], 'rel': pc['rel']}
            cur = {'carrier': pc['carrier'], 'n': len(pc['rel']),
                   'els': list(pc['elements']) if pc['elements'] is not None else list(range(len(pc['rel'])))}
        st.update(c=[1, 2], dpth=1, draw=rng.random() < 0.15)
        steps.append(st)
    return {'kind': 'viz', 'steps': steps, 'shape': 'viz'}


DIVISORS_360 = [d for d in range(1, 361) if 360 % d == 0]
HIST_CLASSES = ['POSet', 'POSet', 'UpperSemiLattice', 'Lattice', 'Lattice', 'ConceptLattice']


def hist_case(rng, max_n):
    cls = rng.choice(HIST_CLASSES)
    case = {'kind': 'hist', 'cls': cls, 'shape': 'hist_' + cls, 'use_cache': rng.random() < 0.9}
    pool = []
    if cls == 'ConceptLattice':
        h, w = rng.randint(2, 4), rng.randint(2, 4)
        p = rng.choice([0.4, 0.6, 0.75])
        case['table'] = [[rng.random() < p for _ in range(w)] for _ in range(h)]
        case['algo'] = rng.choice(['CbO', 'Sofia', 'Lindig'])
        case['use_cache'] = True
    else:
        car = rng.choice(['subsets', 'subsets', 'div'])
        case['carrier'] = car
        n = rng.randint(2, max(3, max_n - 2))
        if car == 'subsets':
            k = rng.choice([3, 4, 4, 5])
            universe = [list(s) for r in range(k + 1) for s in itertools.combinations(range(k), r)]
            top, bottom = list(range(k)), []
        else:
            universe = list(DIVISORS_360)
            top, bottom = 360, 1
        els = rng.sample(universe, min(n, len(universe)))
        if cls in ('UpperSemiLattice', 'Lattice') and top not in els:
            els.append(top)
        if cls == 'Lattice' and bottom not in els:
            els.append(bottom)
        rng.shuffle(els)
        targeted = None
        if car == 'subsets' and rng.random() < 0.3:
            # a chain with a side branch: deleting a middle element of the chain must re-hook its child to the
            # element above although the child keeps another, incomparable parent; adding one back lazily puts
            # an element between an old element and its old parent
            m = rng.randint(3, 4)
            chain = [list(range(j + 1)) for j in range(m)]
            side = [[0, m], [0, 1, m]][:rng.randint(1, 2)]
            k = m + 1
            universe = [list(t) for r in range(k + 1) for t in itertools.combinations(range(k), r)]
            top = list(range(k))
            els = chain + side + ([top] if cls in ('UpperSemiLattice', 'Lattice') and top not in chain + side else []) \
                + ([bottom] if cls == 'Lattice' else [])
            k_mid = rng.randint(1, m - 2)
            rng.shuffle(els)
            targeted = els.index(chain[k_mid])
        case['elements'] = els
        pool = [e for e in universe if e not in els]
        rng.shuffle(pool)

    def lay():
        c = rng.choice(C_CHOICES)
        return ['layout', [c.numerator, c.denominator], rng.choice(DPTH_CHOICES)]

    def mutation():
        r = rng.random()
        lazy = rng.random() < 0.5
        if r < 0.34 and pool:
            return ['add', pool.pop(), not lazy]
        if r < 0.40:
            return ['addback', rng.randrange(8), not lazy]
        if r < 0.62:
            return ['del', rng.randrange(16)]
        if r < 0.72:
            return ['remove', rng.randrange(16)]
        if r < 0.82:
            return ['readd', rng.randrange(16), not lazy]
        if r < 0.93:
            return ['readd_top', 0, not lazy]
        return ['readd_bottom', 0, not lazy]
    if cls != 'ConceptLattice' and targeted is not None:
        ops = [lay(), [rng.choice(['del', 'remove']), targeted], lay(), ['addback', 0, rng.random() < 0.4], lay()]
        case['ops'] = ops
        return case
    ops = [mutation() for _ in range(rng.choice([0, 0, 1, 2]))]
    ops.append(lay())
    for _ in range(rng.randint(1, 2)):
        ops += [mutation() for _ in range(rng.randint(1, 3))]
        ops.append(lay())
    case['ops'] = ops
    return case


def generate(rng, tier):
    cases = []
    exl, exm = exhaustive_layouts(), exhaustive_mover()
    if tier == 'thorough':
        cases += exl + exm
        n_lay, n_mov, max_n, max_ops = 7000, 7000, 12, 25
    else:
        cases += rng.sample(exl, 60) + rng.sample(exm, 60)
        n_lay, n_mov, max_n, max_ops = 350, 400, 8, 8
    for _ in range(n_lay):
        cases.append(random_poset_case(rng, max_n))
    for k in range(n_mov):
        cases.append(init_mover_case(rng, max_n, max_ops) if k % 5 == 4 else random_mover_case(rng, max_n, max_ops))
    for _ in range(n_mov // 5):
        cases.append(viz_case(rng, max_n))
    for _ in range(n_mov // 2):
        cases.append(hist_case(rng, max_n))
    return cases


# ------------------------------------------------------------------ evidence helpers

def _levels_of(rel):
    n = len(rel)
    memo = {}

    def h(i):
        if i not in memo:
            memo[i] = max([1 + h(j) for j in range(n) if j != i and rel[i][j]] or [0])
        return memo[i]
    return [h(i) for i in range(n)]


def nontrivial(case):
    if case['kind'] == 'hist':
        return sum(1 for o in case['ops'] if o[0] == 'layout') >= 2 and \
            len(case.get('elements') or case.get('table') or []) >= 3
    if case['kind'] == 'viz':
        return len(case['steps']) >= 2 and sum(1 for s in case['steps'] if s['mutate'] is None and len(s.get('rel') or s.get('elements') or []) >= 4) >= 1
    if case['kind'] == 'layout':
        rel = case.get('rel')
        if rel is None:
            t = case['table']
            return len(t) >= 2 and len(t[0]) >= 2 and len({tuple(r) for r in t}) >= 2
        lv = _levels_of(rel)
        n = len(rel)
        return n >= 4 and max(lv) >= 1 and max(lv) < n - 1 and any(lv.count(k) >= 2 for k in set(lv))
    if case.get('route') == 'init':
        return len(case['poset']['rel']) >= 4 and len(case['ops']) >= 2
    pos = case['pos']
    lvl = [(p[2], p[3]) if case['v'] else (p[0], p[1]) for p in pos]
    kinds = {o[0] for o in case['ops']}
    return len(pos) >= 4 and any(lvl.count(l) >= 3 for l in set(lvl)) and len(case['ops']) >= 3 and len(kinds) >= 2


def stats(case):
    if case['kind'] == 'hist':
        d = {'kind': 'hist', 'hist_class': case['cls'], 'hist_layouts': sum(1 for o in case['ops'] if o[0] == 'layout')}
        for o in case['ops']:
            if o[0] != 'layout':
                d['hist_' + o[0] + ('_lazy' if (len(o) > 2 and o[2] is False) else '')] = True
        return d
    if case['kind'] == 'viz':
        d = {'kind': 'viz', 'viz_steps': len(case['steps'])}
        for s in case['steps']:
            d['viz_' + ('fresh' if s['mutate'] is None else s['mutate'][0])] = True
            if s.get('draw'):
                d['viz_draw'] = True
        return d
    if case['kind'] == 'layout':
        rel = case.get('rel')
        d = {'kind': 'layout', 'shape': case.get('shape', ''), 'c': '%d/%d' % tuple(case['c']), 'dpth': case['dpth']}
        if rel is not None:
            d['n'] = len(rel)
            d['levels'] = max(_levels_of(rel)) + 1 if rel else 0
        return d
    nn = len(case['poset']['rel']) if case.get('route') == 'init' else len(case['pos'])
    d = {'kind': 'mover', 'nodes': nn, 'n_ops': len(case['ops']), 'dir': 'v' if case['v'] else 'h',
         'route': case.get('route', 'ctor') + ('_' + case['layout'] if case.get('route') == 'init' else ''),
         'insertion': 'n/a' if case.get('route') == 'init' else
                      ('key order' if case.get('ins', sorted(range(nn))) == list(range(nn)) else 'shuffled')}
    for o in case['ops']:
        d['op_' + o[0]] = True
    return d


def shrink(case):
    out = []
    if case['kind'] == 'hist':
        ops = case['ops']
        for i in range(len(ops)):
            if ops[i][0] == 'layout' and sum(1 for o in ops if o[0] == 'layout') <= 1:
                continue
            out.append(dict(case, ops=ops[:i] + ops[i + 1:]))
        els = case.get('elements')
        if els and len(els) > 1 and case['cls'] == 'POSet':
            out += [dict(case, elements=els[:i] + els[i + 1:]) for i in range(len(els))]
        if case['cls'] in ('UpperSemiLattice', 'Lattice'):
            out.append(dict(case, cls='POSet'))
        return out
    if case['kind'] == 'viz':
        st = case['steps']
        if len(st) > 1:
            out.append(dict(case, steps=st[:-1]))
            for i in range(len(st)):
                if (i + 1 == len(st) or st[i + 1]['mutate'] is None) and not (i == 0 and st[1]['mutate'] is not None):
                    out.append(dict(case, steps=st[:i] + st[i + 1:]))
        out += [dict(case, steps=[dict(s, draw=False) for s in st])] if any(s.get('draw') for s in st) else []
        return out
    if case['kind'] == 'mover':
        ops = case['ops']
        for i in range(len(ops)):
            c = dict(case)
            c['ops'] = ops[:i] + ops[i + 1:]
            out.append(c)
        if case.get('route') == 'init':
            return out
        if case.get('route', 'ctor') != 'ctor':
            out.append(dict(case, route='ctor'))
        n = len(case['pos'])
        if n > 1:
            for k in range(n):
                if any(o[0] in ('setx', 'sety') for o in ops):
                    break
                if any(k in o[1:3] and o[0] != 'dir' and (o[0] == 'swap' or o[1] == k) for o in ops):
                    continue
                c = dict(case)
                c['pos'] = case['pos'][:k] + case['pos'][k + 1:]
                c['ins'] = [x - 1 if x > k else x for x in case.get('ins', list(range(n))) if x != k]

                def ren(o):
                    if o[0] == 'dir':
                        return o
                    o = list(o)
                    o[1] = o[1] - 1 if o[1] > k else o[1]
                    if o[0] == 'swap':
                        o[2] = o[2] - 1 if o[2] > k else o[2]
                    return o
                c['ops'] = [ren(o) for o in ops]
                out.append(c)
        return out
    rel = case.get('rel')
    if rel is None:
        t = case['table']
        if len(t) > 1:
            out += [dict(case, table=t[:i] + t[i + 1:]) for i in range(len(t))]
        if len(t[0]) > 1:
            out += [dict(case, table=[r[:j] + r[j + 1:] for r in t]) for j in range(len(t[0]))]
        return out
    n = len(rel)
    if n > 1:
        for k in range(n):
            r2 = [[v for j, v in enumerate(row) if j != k] for i, row in enumerate(rel) if i != k]
            out.append(dict(case, carrier='dag', elements=None, rel=r2))
    if case['c'] != [1, 2] or case['dpth'] != 1:
        out.append(dict(case, c=[1, 2], dpth=1))
    return out

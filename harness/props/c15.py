"""C15 — approximate miners (Sofia, decision-tree extents, random-forest concepts) return only
genuine concepts and honour their limits.

Four kinds of case (field 'kind'):
  sofia_f  : sofia(FormalContext) + ConceptLattice.from_context(algo='Sofia')
  sofia_mv : sofia(MVContext of interval columns) + from_context
  tree     : parse_decision_tree_to_extents on a tree / forest fitted by scikit-learn
  forest   : random_forest_concepts(MVContext) + from_context(algo='RandomForest')
  hist     : a history on ONE MVContext object: mine / binarize, edit it through the public setters
             (ps.data = column, K.pattern_structures = ...), mine again; every step is judged
             against the table the context holds at that moment
scikit-learn is the input generator for the last two: the case holds the data and the
parameters, run_impl fits the estimator, ships its arrays (children_left/right, feature,
threshold) to the model and compares what FCApy reads off it.
"""
import itertools
from fractions import Fraction
from harness.core import coq, Raw, guarded, canon, zlit, ERR_KINDS
from harness import gen

ID = 'C15'
COQ_IMPORTS = ['FCA.Corr.C15']
CASE_TYPE = 'c15_case'
CHECK = 'c15_check'
SHOW = 'c15_show'
SHARD = 150
RULE = ('cases = histories (mine / edit through the public setters / mine again) on one many-valued context object; Sofia on formal contexts (3 back-ends) and on interval many-valued contexts x L_max x '
        'min_supp x both stability bounds, tree/forest extents and random-forest concepts on scikit-learn '
        'fits; non-trivial = Sofia case whose context has more extents than L_max + 2 (the limit binds) or '
        'a support threshold that removes something; tree/forest case with at least one split; forest '
        'case with a proper interval')
EXHAUSTIVE = {'thorough': 'Sofia: all formal contexts of shape <= 3x3 x L_max in {1,2,3} x min_supp in '
                          '{0,2,0.5} x both bounds (bitarray back-end)'}
TRUSTED_EXTRA = [
    'scikit-learn fitting and decision_path are outside the model (input generator); the fitted arrays '
    'children_left/children_right/feature/threshold are shipped to the model',
    'caspailleur.order.sort_intents_inclusion/inverse_order are transcribed in the model of the Delta bound; '
    'where equal-support extents meet at a pruning step the outcome may depend on the hash order of a Python '
    'set, and there only the predicates are compared, not the exact set',
]
BACKENDS = ['BinTableLists', 'BinTableNumpy', 'BinTableBitarray']
COQ_BACKEND = {'BinTableLists': 'BLists', 'BinTableNumpy': 'BNumpy', 'BinTableBitarray': 'BBitarray'}
L_VALUES = [1, 2, 3, 5, 10, 1000]
MS_VALUES = [0, 1, 2, 3, 0.25, 0.5]


# ------------------------------------------------------------------ building the inputs

def formal_context(case):
    from fcapy.context import FormalContext
    return FormalContext(data=[list(map(bool, r)) for r in case['table']], backend=case['backend'])


def mv_context(case, target=None):
    from fcapy.mvcontext import MVContext, PS
    ps = PS.IntervalNumpyPS if case.get('numpy_ps') else PS.IntervalPS
    data = case['data']                      # rows of [l, r] pairs
    names = ['c%d' % k for k in range(len(data[0]))]
    rows = [[tuple(v) for v in row] for row in data]
    kw = {} if target is None else {'target': target}
    return MVContext(data=rows, pattern_types={m: ps for m in names}, attribute_names=names, **kw)


def _int_exact(x):
    f = Fraction(float(x))
    if f.denominator != 1:
        raise ValueError('non-integral interval end %r' % (x,))
    return int(f)


def canon_formal(concepts):
    return [[sorted(int(g) for g in c.extent_i), [int(m) for m in c.intent_i]] for c in concepts]


def canon_mv(concepts, n_cols):
    out = []
    for c in concepts:
        d = c.intent_i
        intent = []
        for k in range(n_cols):
            v = d[k]
            intent.append(None if v is None else [_int_exact(v[0]), _int_exact(v[1])])
        out.append([sorted(int(g) for g in c.extent_i), intent])
    return out


def lattice_obs(L):
    els = [sorted(int(g) for g in c.extent_i) for c in L]
    return [els, sorted(int(g) for g in L[L.top].extent_i), sorted(int(g) for g in L[L.bottom].extent_i)]


def tree_arrays(est):
    """children_left/right, feature, threshold of every tree of a fitted tree or forest."""
    trees = [e.tree_ for e in est.estimators_] if hasattr(est, 'estimators_') else [est.tree_]
    out = []
    for t in trees:
        thr = [Fraction(float(x)) for x in t.threshold]
        out.append({'left': [int(x) for x in t.children_left], 'right': [int(x) for x in t.children_right],
                    'feature': [int(x) for x in t.feature],
                    'threshold': [[f.numerator, f.denominator] for f in thr]})
    return out


def make_estimator(case):
    from sklearn.tree import DecisionTreeClassifier, DecisionTreeRegressor
    from sklearn.ensemble import RandomForestClassifier, RandomForestRegressor
    cls = {'dtc': DecisionTreeClassifier, 'dtr': DecisionTreeRegressor,
           'rfc': RandomForestClassifier, 'rfr': RandomForestRegressor}[case['model']]
    return cls(**case['params'])


# ------------------------------------------------------------------ running the implementation

def _preload():
    """import everything the cases need before any alarm is armed (an alarm that fires in the
    middle of a first import leaves half-initialised modules behind)"""
    import numpy, sklearn.tree, sklearn.ensemble, networkx  # noqa
    import fcapy.context, fcapy.mvcontext, fcapy.lattice, fcapy.algorithms.concept_construction  # noqa


def run_impl(case):
    _preload()
    out = _run_impl(case)
    flat = list(out.values()) + [x for st in out.get('steps', []) for x in st]
    if any(isinstance(v, list) and len(v) > 1 and v[0] == 'err' and v[1] == 'Timeout' for v in flat):
        out = _run_impl(case)            # a loaded machine: once more before believing a time-out
    return out


def _run_impl(case):
    kind = case['kind']

    def sofia_go(K, n_cols=None):
        from fcapy.algorithms.concept_construction import sofia
        from fcapy.lattice import ConceptLattice
        kw = dict(L_max=case['L'], min_supp=case['ms'], use_log_stability_bound=case['use_log'])
        res = guarded(lambda: (canon_formal if n_cols is None else (lambda cs: canon_mv(cs, n_cols)))(
            sofia(K, **kw)), 60)
        lat = guarded(lambda: lattice_obs(ConceptLattice.from_context(K, algo='Sofia', **kw)), 60)
        return {'res': list(res), 'lat': list(lat)}

    if kind == 'sofia_f':
        r = guarded(lambda: formal_context(case))
        if r[0] != 'ok':
            return {'res': list(r), 'lat': list(r)}
        return sofia_go(r[1])
    if kind == 'sofia_mv':
        r = guarded(lambda: mv_context(case))
        if r[0] != 'ok':
            return {'res': list(r), 'lat': list(r)}
        return sofia_go(r[1], len(case['data'][0]))
    if kind == 'hist':
        from fcapy.algorithms.concept_construction import sofia
        from fcapy.lattice import ConceptLattice
        r = guarded(lambda: mv_context(case))
        if r[0] != 'ok':
            return {'steps': [[list(r), list(r)] for _ in case['ops']]}
        K = r[1]
        n_cols = len(case['data'][0])
        steps = []
        for op in case['ops']:
            if op[0] == 'mine':
                kw = dict(L_max=op[1], min_supp=op[2], use_log_stability_bound=op[3])
                res = guarded(lambda: canon_mv(sofia(K, **kw), n_cols), 60)
                lat = guarded(lambda: lattice_obs(ConceptLattice.from_context(K, algo='Sofia', **kw)), 60)
                steps.append([list(res), list(lat)])
            elif op[0] == 'binarize':
                steps.append([list(guarded(lambda: [[bool(v) for v in row] for row in K.binarize().data.to_list()], 60))])
            elif op[0] == 'setcol':
                def setcol():
                    K.pattern_structures[op[1]].data = [tuple(v) for v in op[2]]
                    return True
                steps.append([list(guarded(setcol, 60))])
            else:
                def setall():
                    rows = [[tuple(v) for v in row] for row in op[1]]
                    K.pattern_structures = K.assemble_pattern_structures(rows, K.pattern_types)
                    return True
                steps.append([list(guarded(setall, 60))])
        return {'steps': steps}
    if kind == 'tree':
        import numpy as np
        from fcapy.algorithms.concept_construction import parse_decision_tree_to_extents
        X = np.array(case['X'], dtype=float)
        est = make_estimator(case)
        est.fit(X, case['y'])                       # input generation, outside the model
        nj = case.get('n_jobs', 1)

        def call():
            if nj == 1:
                return parse_decision_tree_to_extents(est, X)
            import joblib
            if case.get('joblib_backend', 'threading') == 'threading':
                with joblib.parallel_backend('threading'):
                    return parse_decision_tree_to_extents(est, X, n_jobs=nj)
            try:
                return parse_decision_tree_to_extents(est, X, n_jobs=nj)      # joblib's default (loky)
            finally:
                # idle loky workers live for 300 s and the harness worker process would wait for them
                from joblib.externals.loky import get_reusable_executor
                get_reusable_executor().shutdown(wait=True, kill_workers=True)
        res = guarded(lambda: sorted(sorted(int(g) for g in e) for e in call()), 60)
        return {'arrays': tree_arrays(est), 'res': list(res)}
    if kind == 'forest':
        from sklearn.ensemble import RandomForestClassifier, RandomForestRegressor
        from fcapy.algorithms.concept_construction import random_forest_concepts
        from fcapy.lattice import ConceptLattice
        base = RandomForestClassifier if case['model'] == 'rfc' else RandomForestRegressor
        fitted = []

        class Recording(base):                      # lets the harness see the forest that was fitted
            def fit(self, X, y, *a, **k):
                r = super().fit(X, y, *a, **k)
                fitted.append(self)
                return r
        Recording.__name__ = base.__name__
        K = mv_context(case, target=case['y'])
        n_cols = len(case['data'][0])
        res = guarded(lambda: canon_mv(random_forest_concepts(K, rf_params=dict(case['params']),
                                                              rf_class=Recording), n_cols), 90)
        arrays = tree_arrays(fitted[0]) if fitted else []
        n1 = len(fitted)
        lat = guarded(lambda: lattice_obs(ConceptLattice.from_context(
            K, algo='RandomForest', rf_params=dict(case['params']), rf_class=Recording)), 90)
        if len(fitted) > n1 and tree_arrays(fitted[n1]) != arrays:
            lat = ('err', 'Other', 'second fit with the same random_state gave another forest')
        return {'arrays': arrays, 'res': list(res), 'lat': list(lat)}
    raise ValueError(kind)


# ------------------------------------------------------------------ Coq terms

def qterm(fr):
    return '(mkQ (%d)%%Z %d%%positive)' % (fr.numerator, fr.denominator)


def zlist(xs):
    return '[' + '; '.join(str(zlit(int(x))) for x in xs) + ']'


def ires(out, printer):
    if out[0] == 'ok':
        try:
            return '(IOk %s)' % printer(out[1])
        except Exception:
            return '(IErr 12)'
    return '(IErr %d)' % ERR_KINDS.get(out[1], 11)


def p_formal(r):
    return coq([(list(c[0]), list(c[1])) for c in r]) if r else '[]'


def p_descr(d):
    return '[' + '; '.join('None' if v is None else '(Some (%s, %s))' % (zlit(v[0]), zlit(v[1])) for v in d) + ']'


def p_mv(r):
    return '[' + '; '.join('(%s, %s)' % (coq(list(c[0])), p_descr(c[1])) for c in r) + ']'


def p_lat(l):
    return '(%s, %s, %s)' % (coq(l[0]), coq(l[1]), coq(l[2]))


def p_mvctx(data):
    cols = list(zip(*data))
    return '[' + '; '.join('[' + '; '.join('(%s, %s)' % (zlit(v[0]), zlit(v[1])) for v in col) + ']'
                           for col in cols) + ']'


def p_arrays(arrs):
    return '[' + '; '.join(
        '(Build_tree_arrays %s %s %s [%s])' % (
            zlist(a['left']), zlist(a['right']), zlist(a['feature']),
            '; '.join(qterm(Fraction(n, d)) for n, d in a['threshold']))
        for a in arrs) + ']'


def to_coq(case, out):
    kind = case['kind']
    if kind == 'sofia_f':
        return 'CSofiaF %s %s %d %s %s %s %s' % (
            COQ_BACKEND[case['backend']], coq(case['table']), case['L'], qterm(Fraction(case['ms'])),
            coq(bool(case['use_log'])), ires(out['res'], p_formal), ires(out['lat'], p_lat))
    if kind == 'sofia_mv':
        return 'CSofiaMV %s %d %s %s %s %s' % (
            p_mvctx(case['data']), case['L'], qterm(Fraction(case['ms'])), coq(bool(case['use_log'])),
            ires(out['res'], p_mv), ires(out['lat'], p_lat))
    if kind == 'hist':
        ops = []
        for op, st in zip(case['ops'], out['steps']):
            if op[0] == 'mine':
                ops.append('(HMine %d %s %s %s %s)' % (op[1], qterm(Fraction(op[2])), coq(bool(op[3])),
                                                      ires(st[0], p_mv), ires(st[1], p_lat)))
            elif op[0] == 'binarize':
                ops.append('(HBinarize %s)' % ires(st[0], lambda t: coq([[bool(v) for v in r] for r in t])))
            elif st[0][0] != 'ok':           # a public setter raised: every later step is judged as failed
                ops.append('(HMine 1 %s true (IErr %d) (IErr %d))' % (
                    qterm(Fraction(0)), ERR_KINDS.get(st[0][1], 11), ERR_KINDS.get(st[0][1], 11)))
            elif op[0] == 'setcol':
                ops.append('(HSetCol %d %s)' % (op[1], p_mvctx([[v] for v in op[2]])[1:-1]))
            else:
                ops.append('(HSetAll %s)' % p_mvctx(op[1]))
        return 'CHist %s [%s]' % (p_mvctx(case['data']), '; '.join(ops))
    if kind == 'tree':
        return 'CTree %s %s %s' % (p_arrays(out['arrays']),
                                   '[' + '; '.join(zlist(r) for r in case['X']) + ']',
                                   ires(out['res'], lambda r: coq([list(e) for e in r])))
    return 'CForest %s %s %s %s' % (p_mvctx(case['data']), p_arrays(out['arrays']),
                                    ires(out['res'], p_mv), ires(out['lat'], p_lat))


# ------------------------------------------------------------------ generators

def random_mv_data(rng, max_n, max_cols, force_points=False):
    n = rng.randint(1, max_n)
    k = rng.randint(1, max_cols)
    hi = rng.choice([2, 3, 5, 9])
    mode = 'points' if force_points else rng.choice(['points', 'proper', 'proper', 'mixed', 'mixed', 'neg'])
    data = []
    for _ in range(n):
        row = []
        for _ in range(k):
            a = rng.randint(0, hi)
            if mode == 'points' or (mode == 'mixed' and rng.random() < 0.5):
                row.append([a, a])
            else:
                b = rng.randint(0, hi)
                lo, up = min(a, b), max(a, b)
                if mode == 'neg':
                    lo, up = lo - 3, up - 3
                row.append([lo, up])
        data.append(row)
    if rng.random() < 0.2 and n >= 2:           # duplicated object
        i, j = rng.sample(range(n), 2)
        data[j] = [list(v) for v in data[i]]
    return data, mode


def sofia_params(rng):
    return {'L': rng.choice(L_VALUES), 'ms': rng.choice(MS_VALUES), 'use_log': rng.random() < 0.5}


def random_sofia_f(rng, dim):
    t, shape = gen.random_table(rng, dim, dim)
    c = {'kind': 'sofia_f', 'backend': rng.choice(BACKENDS), 'table': t, 'shape': shape}
    c.update(sofia_params(rng))
    return c


def random_sofia_mv(rng, max_n, max_cols):
    data, mode = random_mv_data(rng, max_n, max_cols)
    c = {'kind': 'sofia_mv', 'data': data, 'numpy_ps': rng.random() < 0.5, 'shape': mode}
    c.update(sofia_params(rng))
    return c


def random_xy(rng, max_n, max_f):
    n = rng.randint(2, max_n)
    f = rng.randint(1, max_f)
    hi = rng.choice([1, 3, 6, 20])
    X = [[rng.randint(-2, hi) for _ in range(f)] for _ in range(n)]
    return X, n


def tree_params(rng, model):
    p = {'random_state': rng.randrange(1000), 'max_depth': rng.choice([1, 2, 3, 4, None])}
    if rng.random() < 0.2:
        p['min_samples_leaf'] = 2
    if model in ('rfc', 'rfr'):
        p['n_estimators'] = rng.choice([1, 2, 3, 5])
        if rng.random() < 0.3:
            p['bootstrap'] = False
        if rng.random() < 0.3:
            p['max_features'] = 1
    return p


def random_target(rng, n, model):
    if model in ('dtc', 'rfc'):
        k = rng.choice([2, 2, 3])
        y = [rng.randrange(k) for _ in range(n)]
        if len(set(y)) < 2 and n >= 2:
            y[0], y[1] = 0, 1
        return y
    return [rng.randint(-8, 8) / 2 for _ in range(n)]


def random_tree_case(rng, max_n, max_f):
    X, n = random_xy(rng, max_n, max_f)
    model = rng.choice(['dtc', 'dtr', 'dtr', 'rfc', 'rfr'])
    c = {'kind': 'tree', 'X': X, 'y': random_target(rng, n, model), 'model': model,
         'params': tree_params(rng, model)}
    return c


def parallel_tree_case(rng):
    """the joblib branch of parse_decision_tree_to_extents: a forest of >= 2 trees, n_jobs=2, tiny data
    (rationed: mostly joblib's threading back-end; with the default loky back-end the worker
    pool costs about a second to start and has to be shut down afterwards)"""
    X, n = random_xy(rng, 6, 2)
    model = rng.choice(['rfc', 'rfr'])
    p = {'random_state': rng.randrange(1000), 'max_depth': rng.choice([1, 2, 3]),
         'n_estimators': rng.choice([2, 3, 5])}
    return {'kind': 'tree', 'X': X, 'y': random_target(rng, n, model), 'model': model, 'params': p, 'n_jobs': 2,
            'joblib_backend': 'loky' if rng.random() < 0.2 else 'threading'}


def random_forest_case(rng, max_n, max_cols):
    data, mode = random_mv_data(rng, max_n, max_cols, force_points=rng.random() < 0.25)
    while len(data) < 2:
        data, mode = random_mv_data(rng, max_n, max_cols)
    model = rng.choice(['rfc', 'rfr'])
    return {'kind': 'forest', 'data': data, 'numpy_ps': rng.random() < 0.5, 'shape': mode,
            'y': random_target(rng, len(data), model), 'model': model, 'params': tree_params(rng, model)}


def random_hist_case(rng, max_n, max_cols):
    """mine, edit through the public setters, mine again -- on one context object"""
    data, mode = random_mv_data(rng, max_n, max_cols)
    while len(data) < 2:
        data, mode = random_mv_data(rng, max_n, max_cols)
    n, k = len(data), len(data[0])

    def mine():
        return ['mine', rng.choice([1, 2, 3, 1000, 1000]), rng.choice([0, 0, 1, 2, 0.5]), rng.random() < 0.5]

    def new_col():
        hi = rng.choice([2, 3, 5, 9])
        col = []
        for _ in range(n):
            a, b = rng.randint(0, hi), rng.randint(0, hi)
            col.append([a, a] if rng.random() < 0.5 else [min(a, b), max(a, b)])
        return col
    ops = [mine() if rng.random() < 0.7 else ['binarize']]
    for _ in range(rng.randint(1, 3)):
        r = rng.random()
        if r < 0.6:
            ops.append(['setcol', rng.randrange(k), new_col()])
        elif r < 0.8:
            cols = [new_col() for _ in range(k)]
            ops.append(['setall', [[cols[j][g] for j in range(k)] for g in range(n)]])
        if rng.random() < 0.25:
            ops.append(['binarize'])
        ops.append(mine())
    return {'kind': 'hist', 'data': data, 'numpy_ps': rng.random() < 0.5, 'shape': mode, 'ops': ops}


def exhaustive_cases():
    for (h, w) in [(1, 1), (1, 2), (2, 1), (2, 2), (2, 3), (3, 2), (3, 3)]:
        for t in gen.all_tables(h, w):
            for L in (1, 2, 3):
                for ms in (0, 2, 0.5):
                    for ul in (True, False):
                        yield {'kind': 'sofia_f', 'backend': 'BinTableBitarray', 'table': t, 'L': L, 'ms': ms,
                               'use_log': ul, 'shape': 'exhaustive'}


def grid_cases(rng, n_tables, dim):
    """every L_max x min_supp x bound combination on the same table (all three back-ends in turn)"""
    out = []
    for k in range(n_tables):
        t, shape = gen.random_table(rng, dim, dim, min_h=2, min_w=2)
        for L, ms, ul in itertools.product(L_VALUES, MS_VALUES, (True, False)):
            out.append({'kind': 'sofia_f', 'backend': BACKENDS[(k + L) % 3], 'table': t, 'L': L, 'ms': ms,
                        'use_log': ul, 'shape': shape})
    return out


def generate(rng, tier):
    cases = []
    ex = list(exhaustive_cases())
    if tier == 'thorough':
        cases += ex
        n_f, n_mv, n_tree, n_forest, n_grid, dim, mvn = 18000, 8000, 4000, 1500, 40, 8, 7
    else:
        cases += rng.sample(ex, 350)
        n_f, n_mv, n_tree, n_forest, n_grid, dim, mvn = 1300, 450, 300, 100, 4, 7, 6
    cases += grid_cases(rng, n_grid, dim)
    for _ in range(n_f):
        cases.append(random_sofia_f(rng, dim))
    for _ in range(n_mv):
        cases.append(random_sofia_mv(rng, mvn, 3))
    for _ in range(n_tree):
        cases.append(random_tree_case(rng, 10, 4))
    for _ in range(n_forest):
        cases.append(random_forest_case(rng, 8, 3))
    for _ in range(2500 if tier == 'thorough' else 160):
        cases.append(random_hist_case(rng, 6, 2))
    # kept together at the end so that one worker process (one joblib pool) runs them all
    for _ in range(48 if tier == 'thorough' else 8):
        cases.append(parallel_tree_case(rng))
    return cases


# ------------------------------------------------------------------ evidence helpers

def _n_extents_formal(t):
    h = len(t)
    cols = [frozenset(i for i in range(h) if t[i][j]) for j in range(len(t[0]))]
    fam = {frozenset(range(h))}
    for c in cols:
        fam |= {e & c for e in fam}
    return len(fam)


def nontrivial(case):
    k = case['kind']
    if k == 'sofia_f':
        t = case['table']
        return _n_extents_formal(t) > case['L'] + 2 or (case['ms'] not in (0,) and len(t) >= 3)
    if k == 'sofia_mv':
        return len(case['data']) >= 3 and case['L'] <= 5
    if k == 'hist':
        ops = [o[0] for o in case['ops']]
        return any(a in ('mine', 'binarize') and b in ('setcol', 'setall') for a, b in zip(ops, ops[1:])) \
            and ops[-1] == 'mine'
    if k == 'tree':
        return len(set(map(tuple, case['X']))) >= 2 and len(set(case['y'])) >= 2
    return any(v[0] != v[1] for row in case['data'] for v in row) and len(set(case['y'])) >= 2


def stats(case):
    k = case['kind']
    d = {'kind': k}
    if k in ('sofia_f', 'sofia_mv'):
        d.update({'L_max': case['L'], 'min_supp': case['ms'], 'bound': 'log' if case['use_log'] else 'delta',
                  'shape': case.get('shape', '')})
        if k == 'sofia_f':
            d['backend'] = case['backend']
            d['size'] = '%dx%d' % (len(case['table']), len(case['table'][0]))
        else:
            d['size'] = '%dx%d' % (len(case['data']), len(case['data'][0]))
            d['ps'] = 'numpy' if case.get('numpy_ps') else 'plain'
    elif k == 'hist':
        d.update({'history': '-'.join(o[0] for o in case['ops']), 'ps': 'numpy' if case.get('numpy_ps') else 'plain'})
    else:
        d.update({'model': case['model'], 'depth': case['params'].get('max_depth'), 'n_jobs': case.get('n_jobs', 1),
                  'joblib': case.get('joblib_backend', '-')})
        if k == 'forest':
            d['shape'] = case.get('shape', '')
    return d


def shrink(case):
    out = []
    k = case['kind']
    if k == 'sofia_f':
        out += gen.shrink_table_case(case)
        for L in (1, 2, 3):
            if L < case['L']:
                out.append(dict(case, L=L))
        if case['ms'] != 0:
            out.append(dict(case, ms=0))
    elif k in ('sofia_mv', 'forest'):
        data = case['data']
        min_rows = 1 if k == 'sofia_mv' else 2
        if len(data) > min_rows:
            for i in range(len(data)):
                c = dict(case, data=[r for j, r in enumerate(data) if j != i])
                if 'y' in case:
                    c['y'] = [v for j, v in enumerate(case['y']) if j != i]
                    if case['model'] == 'rfc' and len(set(c['y'])) < 2:
                        continue
                out.append(c)
        if len(data[0]) > 1:
            for j in range(len(data[0])):
                out.append(dict(case, data=[[v for q, v in enumerate(r) if q != j] for r in data]))
        for i, r in enumerate(data):
            for j, v in enumerate(r):
                if v[0] != v[1]:
                    out.append(dict(case, data=[[([v2[0], v2[0]] if (a == i and b == j) else v2)
                                                 for b, v2 in enumerate(r2)] for a, r2 in enumerate(data)]))
        if k == 'forest' and case['params'].get('n_estimators', 1) > 1:
            out.append(dict(case, params=dict(case['params'], n_estimators=1)))
        if k == 'sofia_mv':
            for L in (1, 2, 3):
                if L < case['L']:
                    out.append(dict(case, L=L))
    elif k == 'hist':
        ops = case['ops']
        for i in range(len(ops)):
            if len(ops) > 1:
                out.append(dict(case, ops=ops[:i] + ops[i + 1:]))
        for i, op in enumerate(ops):
            if op[0] == 'mine' and (op[1] != 1000 or op[2] != 0):
                out.append(dict(case, ops=ops[:i] + [['mine', 1000, 0, op[3]]] + ops[i + 1:]))
        data = case['data']
        if len(data) > 2:
            for g in range(len(data)):
                def cut(op):
                    if op[0] == 'setcol':
                        return ['setcol', op[1], [v for q, v in enumerate(op[2]) if q != g]]
                    if op[0] == 'setall':
                        return ['setall', [r for q, r in enumerate(op[1]) if q != g]]
                    return op
                out.append(dict(case, data=[r for q, r in enumerate(data) if q != g], ops=[cut(o) for o in ops]))
    elif k == 'tree':
        X, y = case['X'], case['y']
        if len(X) > 2:
            for i in range(len(X)):
                yy = [v for j, v in enumerate(y) if j != i]
                if case['model'] in ('dtc', 'rfc') and len(set(yy)) < 2:
                    continue
                out.append(dict(case, X=[r for j, r in enumerate(X) if j != i], y=yy))
        if len(X[0]) > 1:
            for j in range(len(X[0])):
                out.append(dict(case, X=[[v for q, v in enumerate(r) if q != j] for r in X]))
    return out

"""C10 — set algebra on posets yields correct posets whatever the operands have cached."""
import itertools
from harness.core import coq, Raw, guarded
from harness import posetlib as PL

ID = 'C10'
COQ_IMPORTS = ['FCA.Corr.C10']
CASE_TYPE = 'c10_case'
COQ_HEADER = 'Set Printing Width 1000000.\n'   # Coq wraps long result lists; core's pair regex does not survive a wrap
CHECK = 'c10_check'
SHOW = 'c10_show'
SHARD = 200
RULE = ('case = (relation matrix on <= 8 carriers, two element lists with controlled overlap incl. prefix / '
        'sub-list shapes, cache flag per operand, a warm-up history per operand with queries AND mutations '
        '(add with/without cache filling, delete/remove + re-add), operand classes POSet / UpperSemiLattice / '
        'LowerSemiLattice / Lattice, the comparison handed over as one function, as a bound method fetched '
        'twice, as equal callable objects or as two different functions (must be refused), operator in '
        '& | ^ -); compared: element '
        'list of the result (ordered), every query on the result, on the same operation evaluated a second '
        'time and on the operation with exchanged operands, every query on BOTH operands afterwards, deep '
        'equality of both operands before/after; '
        'non-trivial = both operands non-empty, they overlap without being equal, and at least one '
        'operand has a non-empty relation cache')
EXHAUSTIVE = {'thorough': 'all pairs of non-empty operands with <= 3 elements (sub-lists of the carrier '
                          'order) over the 4-element universes {{},{0},{1},{0,1}} and the 4-chain, x the '
                          'four operators x every warm-up of at most one relation query per operand, cache on; '
                          'plus all cases where the second operand is a prefix of the first (2-3 carriers, both '
                          'universes) whose last elements were inserted by add() with/without cache filling, x at '
                          'most one closed-relation query per operand x four operators'}
OPS = {'&': 'OpAnd', '|': 'OpOr', '^': 'OpXor', '-': 'OpSub'}


def _apply(A, B, op):
    if op == '&':
        return A & B
    if op == '|':
        return A | B
    if op == '^':
        return A ^ B
    return A - B


KINDS = {'P': 'None', 'U': '(Some KUpper)', 'L': '(Some KLower)', 'B': '(Some KLattice)'}


class _Cmp:
    """A comparison given as a callable object; two instances over the same matrix are ==."""
    def __init__(self, m):
        self.m = m

    def __call__(self, a, b):
        return self.m[a][b]

    def __eq__(self, other):
        return isinstance(other, _Cmp) and self.m == other.m

    def __hash__(self):
        return 0

    def leq(self, a, b):
        return self.m[a][b]


def comparisons(case):
    """(leq of A, leq of B) according to case['leq_mode']: one shared function object; the bound
    method of one object fetched twice (== but not `is`); two equal callable objects; or two
    genuinely different comparisons (which the operations must refuse)."""
    m = case['matrix']
    mode = case.get('leq_mode', 'same')
    if mode == 'bound':
        o = _Cmp(m)
        return o.leq, o.leq
    if mode == 'callable_eq':
        return _Cmp(m), _Cmp([list(r) for r in m])
    if mode == 'different':
        return (lambda a, b: m[a][b]), (lambda a, b: m[a][b])     # two distinct function objects
    f = lambda a, b: m[a][b]   # noqa
    return f, f


def run_impl(case):
    def go():
        from fcapy.poset import POSet, UpperSemiLattice, LowerSemiLattice, Lattice
        classes = {'P': POSet, 'U': UpperSemiLattice, 'L': LowerSemiLattice, 'B': Lattice}
        leq_a, leq_b = comparisons(case)
        A = classes[case.get('cls_a', 'P')](PL.as_iterable(case['a'], case.get('ctor_a')), leq_a, use_cache=case['cache_a'])
        B = classes[case.get('cls_b', 'P')](PL.as_iterable(case['b'], case.get('ctor_b')), leq_b, use_cache=case['cache_b'])
        for o in case['warm_a']:
            PL.apply_op(A, o, leq_a, POSet)
        for o in case['warm_b']:
            PL.apply_op(B, o, leq_b, POSet)
        before = (PL.snapshot(A), PL.snapshot(B))

        def answers(f):
            try:
                R = f()
            except Exception as e:  # noqa
                return PL.out_term(PL._x(e)), PL.outs_term([PL._x(e)])
            if type(R) is not POSet:          # the algebra yields plain posets, whatever the operands' class
                return PL.out_term(['x', 97]), PL.outs_term([['x', 97]])
            return (PL.out_term(['e', [int(x) for x in R.elements]]),
                    PL.outs_term(PL.run_final(R, leq_a, POSet)))
        # the operation, the same operation again, the operation with the operands exchanged:
        # an operand corrupted in place by the first shows in the later ones
        res, fin = answers(lambda: _apply(A, B, case['op']))
        _, fin2 = answers(lambda: _apply(A, B, case['op']))
        _, fin_rev = answers(lambda: _apply(B, A, case['op']))
        unchanged = (PL.snapshot(A), PL.snapshot(B)) == before
        # every query on both operands afterwards (compact strings = Coq terms); operands of a
        # semilattice class are asked through POSet's own methods (their tops/bottoms are overridden)
        after_a = PL.outs_term(PL.run_final(_as_poset(A, POSet), leq_a, POSet))
        after_b = PL.outs_term(PL.run_final(_as_poset(B, POSet), leq_b, POSet))
        return [res, unchanged, fin, fin2, fin_rev, after_a, after_b]
    r = guarded(go, timeout_s=30)
    return list(r)


class _PosetView:
    """Calls POSet's implementation of every method on an object of a subclass."""
    def __init__(self, obj, POSet):
        self._o, self._P = obj, POSet

    def __len__(self):
        return len(self._o)

    @property
    def elements(self):
        return self._o.elements

    @property
    def tops(self):
        return self._P.tops.fget(self._o)

    @property
    def bottoms(self):
        return self._P.bottoms.fget(self._o)

    def __getattr__(self, name):
        return getattr(self._o, name)


def _as_poset(obj, POSet):
    return obj if type(obj) is POSet else _PosetView(obj, POSet)


def to_coq(case, out):
    if out[0] == 'ok':
        res, unchanged, fin, fin2, fin_rev, after_a, after_b = out[1]
    else:
        res, unchanged = PL.out_term(['x', PL.ERR_KINDS.get(out[1], 11)]), True
        fin = fin2 = fin_rev = after_a = after_b = '[]'
    return 'Build_c10_case %s %s %s %s %s %s %s %s %s %s %s %s %s %s %s %s %s %s' % (
        coq(case['matrix']), coq(list(case['a'])), coq(list(case['b'])), PL.b(case['cache_a']),
        PL.b(case['cache_b']), PL.ops_term(case['warm_a']), PL.ops_term(case['warm_b']),
        KINDS[case.get('cls_a', 'P')], KINDS[case.get('cls_b', 'P')],
        PL.b(case.get('leq_mode', 'same') != 'different'), OPS[case['op']],
        res, PL.b(bool(unchanged)), fin, fin2, fin_rev, after_a, after_b)


# ------------------------------------------------------------------ generation
def warmup(rng, els, k_all, heavy):
    """Query-only warm-up (partial caches)."""
    n = len(els)
    if n == 0 or rng.random() < 0.15:
        return []
    ops = []
    for _ in range(rng.randint(1, 3 if not heavy else 6)):
        i = rng.randrange(n)
        r = rng.random()
        if r < 0.40:
            ops.append(['cv', rng.random() < 0.5, i])
        elif r < 0.75:
            ops.append(['cl', rng.random() < 0.5, i])
        elif r < 0.90:
            ops.append(['leq', i, rng.randrange(n)])
        elif r < 0.95:
            ops.append(['ex', rng.random() < 0.5])
        else:
            ops.append(['fill', rng.randrange(6)])
    return ops


def grow(rng, target, k_all, fill_weight=0.8):
    """(initial list, warm-up) such that the operand ENDS with the element list `target`: the last
    elements are inserted by add() (which stores plain mutable sets in the caches), possibly after
    a delete/remove + re-add, with queries in between."""
    n = len(target)
    j = rng.randint(0, n) if n else 0                 # target[j:] are added one at a time
    init = list(target[:j])
    ops, cur = [], list(init)
    if cur and rng.random() < 0.3:                     # delete / remove the last one, add it again
        e = cur[-1]
        ops.append(['del', len(cur) - 1] if rng.random() < 0.5 else ['rm', e])
        cur = cur[:-1]
        j -= 1
    for e in target[j:]:
        if cur and rng.random() < 0.5:
            ops += PL.random_queries(rng, len(cur), cur, k_all)[:2]
        ops.append(['add', e, rng.random() < fill_weight])
        cur.append(e)
    if cur and rng.random() < 0.6:
        ops += [q for q in PL.random_queries(rng, len(cur), cur, k_all) if q[0] != 'eq'][:2]
    ops = [o for o in ops if o[0] != 'eq']
    assert cur == list(target)
    return init, ops


def operands(rng, k):
    """Two FINAL element lists over carriers 0..k-1 with a controlled overlap."""
    allc = list(range(k))
    rng.shuffle(allc)
    mode = rng.choice(['disjoint', 'nested', 'equal', 'middle', 'random', 'random', 'empty',
                       'prefix', 'prefix', 'sublist'])
    if mode == 'disjoint':
        cut = rng.randint(0, k)
        a, b = allc[:cut], allc[cut:]
    elif mode == 'nested':
        a = allc[:rng.randint(1, k)]
        b = rng.sample(a, rng.randint(0, len(a)))
        if rng.random() < 0.5:
            a, b = b, a
    elif mode == 'equal':
        a = allc[:rng.randint(0, k)]
        b = list(a)
        rng.shuffle(b)
    elif mode == 'middle':                      # one element present in only one operand
        a = allc[:rng.randint(min(2, k), k)]
        b = list(a)
        b.remove(rng.choice(b))
        rng.shuffle(b)
        if rng.random() < 0.5:
            a, b = b, a
    elif mode == 'empty':
        a = allc[:rng.randint(0, k)]
        b = []
        if rng.random() < 0.5:
            a, b = b, a
    elif mode == 'prefix':                      # one list is a prefix of the other: indexes preserved
        a = allc[:rng.randint(1, k)]
        b = a[:rng.randint(0, len(a))]
        if rng.random() < 0.5:
            a, b = b, a
    elif mode == 'sublist':                     # same relative order, indexes shifted
        a = allc[:rng.randint(1, k)]
        b = [x for x in a if rng.random() < 0.6]
        if rng.random() < 0.5:
            a, b = b, a
    else:
        a = rng.sample(allc, rng.randint(0, k))
        b = rng.sample(allc, rng.randint(0, k))
    return a, b, mode


def random_case(rng, heavy):
    m, kind = PL.random_order(rng)
    k = len(m)
    fa, fb, mode = operands(rng, k)
    r = rng.random()
    ca, cb = (True, True) if r < 0.86 else ((False, False) if r < 0.94 else
                                            ((True, False) if r < 0.97 else (False, True)))
    out = {}
    for key, target, flag in (('a', fa, ca), ('b', fb, cb)):
        style = rng.random()
        if mode == 'prefix' and len(target) <= min(len(fa), len(fb)) and flag:
            style = style * 0.55                 # the prefix operand is (almost always) grown by add()
        if style < 0.45:                         # grown by add / delete + re-add, then queried
            init, w = grow(rng, target, k)
        elif style < 0.60:                       # a general history; the final list is whatever results
            init = list(target)
            w = [o for o in PL.random_history(rng, init, k, rng.randint(2, 8), flag) if o[0] != 'eq']
        else:
            init = list(target)
            w = warmup(rng, init, k, heavy) if flag or rng.random() < 0.3 else []
        out[key], out['warm_' + key] = init, w
    if mode in ('prefix', 'sublist', 'equal', 'nested', 'middle'):
        # make both operands hold entries for the same elements: one of them caches whole relations
        for key, flag in (('a', ca), ('b', cb)):
            if flag and rng.random() < (0.6 if mode == 'prefix' else 0.3):
                out['warm_' + key] = out['warm_' + key] + [['fill', rng.choice([1, 1, 2, 2, 5])]]
    out.update({'matrix': m, 'cache_a': ca, 'cache_b': cb, 'op': rng.choice('&|^-'),
                'kind': kind, 'overlap': mode})
    return out


U4 = PL.closure(4, [(0, 1), (0, 2), (1, 3), (2, 3)])
C4 = PL.closure(4, [(0, 1), (1, 2), (2, 3)])


def _single_warmups(n):
    w = [[]]
    for i in range(n):
        w += [[['cv', True, i]], [['cv', False, i]], [['cl', True, i]], [['cl', False, i]]]
    return w


def exhaustive_cases():
    subs = [list(c) for r in (1, 2, 3) for c in itertools.combinations(range(4), r)]
    for m, kind in ((U4, 'exh-U4'), (C4, 'exh-C4')):
        for a in subs:
            for b in subs:
                for wa in _single_warmups(len(a)):
                    for wb in _single_warmups(len(b)):
                        for op in '&|^-':
                            yield {'matrix': m, 'a': a, 'b': b, 'cache_a': True, 'cache_b': True,
                                   'warm_a': wa, 'warm_b': wb, 'op': op, 'kind': kind, 'overlap': 'exhaustive'}


def grown_prefix_cases():
    """B ends as a prefix of A and its last elements were inserted by add() (plain mutable sets in
    B's caches): all lists A of 2-3 distinct carriers of both universes, all prefixes and split
    points, cache filling on/off, all operators, at most one closed-relation query on each operand
    (so that both may hold an entry for the same element).  b ⊙ a is evaluated by run_impl anyway."""
    for m, kind in ((U4, 'exh-U4'), (C4, 'exh-C4')):
        for r in (2, 3):
            for a in itertools.permutations(range(4), r):
                a = list(a)
                qas = [[]] + [[['cl', up, i]] for i in range(len(a)) for up in (False, True)]
                for p in range(1, len(a) + 1):
                    target = a[:p]
                    qbs = [[], [['cl', False, p - 1]], [['cl', True, p - 1]]]
                    for j in range(0, p):
                        for fill in (True, False):
                            grow_ops = [['add', e, fill] for e in target[j:]]
                            for qa in qas:
                                for qb in qbs:
                                    for op in '&|^-':
                                        yield {'matrix': m, 'a': a, 'b': target[:j], 'cache_a': True,
                                               'cache_b': True, 'warm_a': qa, 'warm_b': grow_ops + qb,
                                               'op': op, 'kind': kind, 'overlap': 'exhaustive-grown-prefix'}


def _sl_ok(m, kind, els):
    def ext(up):
        return [i for i in range(len(els)) if not any(
            j != i and (m[els[i]][els[j]] if up else m[els[j]][els[i]]) for j in range(len(els)))]
    need = {'U': (True,), 'L': (False,), 'B': (True, False)}[kind]
    return len(els) > 0 and all(len(ext(up)) == 1 for up in need)


def class_case(rng):
    """Operands of the semilattice classes (first, second or both); the combination often has
    several maximal / minimal elements or is empty, which a plain POSet must hold all the same.
    Warm-ups are POSet-level queries (the model starts from the constructor's state)."""
    for _ in range(200):
        if rng.random() < 0.6:
            m, kind = PL.order_bounded(rng, rng.randint(3, 8))
        else:
            m, kind = PL.random_order(rng)
        k = len(m)
        a, b, mode = operands(rng, k)
        ca = rng.choice(['P', 'U', 'L', 'B', 'B'])
        cb = rng.choice(['P', 'U', 'L', 'B', 'B'])
        if ca == 'P' and cb == 'P':
            continue
        if kind == 'bounded':                      # carriers 0 / 1 are the least / greatest
            for lst, c in ((a, ca), (b, cb)):
                for e, need in ((1, c in 'UB'), (0, c in 'LB')):
                    if need and e not in lst and rng.random() < 0.8:
                        lst.insert(rng.randint(0, len(lst)), e)
        if (ca == 'P' or _sl_ok(m, ca, a)) and (cb == 'P' or _sl_ok(m, cb, b)):
            break
    else:
        m, kind, a, b, ca, cb, mode = [[True]], 'chain', [0], [0], 'B', 'P', 'equal'
    k = len(m)

    def w(els):
        ops = [o for o in warmup(rng, els, k, False) if o[0] in ('cv', 'cl', 'leq', 'fill')]
        return ops
    flag = rng.random() < 0.85
    return {'matrix': m, 'a': a, 'b': b, 'cache_a': flag, 'cache_b': flag if rng.random() < 0.9 else not flag,
            'warm_a': w(a), 'warm_b': w(b), 'cls_a': ca, 'cls_b': cb, 'op': rng.choice('&|^-'),
            'kind': kind, 'overlap': 'class-' + mode}


def generate(rng, tier):
    cases = []
    if tier == 'thorough':
        cases += list(exhaustive_cases())
        cases += list(grown_prefix_cases())
        n_rand = 12000
    else:
        ex = list(exhaustive_cases())
        cases += rng.sample(ex, 500)
        gp = list(grown_prefix_cases())
        cases += rng.sample(gp, 200)
        cases += rng.sample([c for c in gp if c["warm_a"] and c["warm_b"][0][2]], 400)
        n_rand = 1300
    for _ in range(n_rand):
        c = random_case(rng, heavy=(tier == 'thorough' and rng.random() < 0.3))
        r = rng.random()               # how the comparison is handed to the two posets
        c['leq_mode'] = 'same' if r < 0.70 else ('bound' if r < 0.82 else
                                                 ('callable_eq' if r < 0.94 else 'different'))
        for key in ('ctor_a', 'ctor_b'):          # how the element collection is handed to the constructor
            c[key] = rng.choice(['list', 'list', 'list', 'tuple', 'gen', 'map', 'iter'])
        cases.append(c)
    for _ in range(n_rand // 5):
        c = class_case(rng)
        r = rng.random()
        c['leq_mode'] = 'same' if r < 0.75 else ('bound' if r < 0.85 else
                                                 ('callable_eq' if r < 0.95 else 'different'))
        cases.append(c)
    return cases


# ------------------------------------------------------------------ evidence
def _final_lists(case):
    out = []
    for key in ('a', 'b'):
        cur = list(case[key])
        for o in case['warm_' + key]:
            if o[0] == 'add' and o[1] not in cur:
                cur.append(o[1])
            elif o[0] == 'del' and o[1] < len(cur):
                cur.pop(o[1])
            elif o[0] == 'rm' and o[1] in cur:
                cur.remove(o[1])
        out.append(cur)
    return out


def nontrivial(case):
    fa, fb = _final_lists(case)
    a, b = set(fa), set(fb)
    kinds = ('cv', 'cl', 'ex', 'fill', 'add', 'bd')
    warmed = (case['cache_a'] and any(o[0] in kinds for o in case['warm_a'])) or \
             (case['cache_b'] and any(o[0] in kinds for o in case['warm_b']))
    return bool(a) and bool(b) and bool(a & b) and a != b and warmed


def stats(case):
    fa, fb = _final_lists(case)
    w = case['warm_a'] + case['warm_b']
    pref = (fa[:len(fb)] == fb or fb[:len(fa)] == fa) and bool(fa) and bool(fb)
    return {'order': case.get('kind', ''), 'overlap': case.get('overlap', ''), 'op': case['op'],
            'classes': case.get('cls_a', 'P') + '/' + case.get('cls_b', 'P'),
            'comparison': case.get('leq_mode', 'same'),
            'elements_given_as': '%s/%s' % (case.get('ctor_a', 'list'), case.get('ctor_b', 'list')),
            'cache': '%s/%s' % (case['cache_a'], case['cache_b']),
            'size_a': len(fa), 'size_b': len(fb), 'warm': min(len(w), 8),
            'warm_adds_fill': min(sum(1 for o in w if o[0] == 'add' and o[2]), 4),
            'warm_adds_nofill': min(sum(1 for o in w if o[0] == 'add' and not o[2]), 4),
            'warm_deletes': min(sum(1 for o in w if o[0] in ('del', 'rm')), 4),
            'final_lists_prefix': pref}


def shrink(case):
    out = []
    for key, ekey in (('warm_a', 'a'), ('warm_b', 'b')):
        for i in range(len(case[key])):
            c = dict(case)
            c[key] = case[key][:i] + case[key][i + 1:]
            if PL.history_valid(c[ekey], c[key], len(c['matrix'])):
                out.append(c)
    for key, wkey in (('a', 'warm_a'), ('b', 'warm_b')):
        for i in range(len(case[key])):
            c = dict(case)
            c[key] = case[key][:i] + case[key][i + 1:]
            ck = c.get('cls_' + key, 'P')
            if PL.history_valid(c[key], c[wkey], len(c['matrix'])) and (ck == 'P' or _sl_ok(c['matrix'], ck, c[key])):
                out.append(c)
    for key in ('cls_a', 'cls_b'):
        if case.get(key, 'P') != 'P':
            c = dict(case)
            c[key] = 'P'
            out.append(c)
    if case.get('leq_mode', 'same') not in ('same', 'different'):
        c = dict(case)
        c['leq_mode'] = 'same'
        out.append(c)
    return out

"""C10 — set algebra on posets yields correct posets whatever the operands have cached."""
import itertools
from harness.core import coq, Raw, guarded
from harness import posetlib as PL

ID = 'C10'
COQ_IMPORTS = ['FCA.Corr.C10']
CASE_TYPE = 'c10_case'
CHECK = 'c10_check'
SHOW = 'c10_show'
SHARD = 200
RULE = ('case = (relation matrix on <= 8 carriers, two element lists with controlled overlap, cache flag '
        'per operand, a warm-up history per operand, operator in & | ^ -); compared: element list of the '
        'result (ordered), every query on the result, deep equality of both operands before/after; '
        'non-trivial = both operands non-empty, they overlap without being equal, and at least one '
        'operand has a non-empty relation cache')
EXHAUSTIVE = {'thorough': 'all pairs of non-empty operands with <= 3 elements (sub-lists of the carrier '
                          'order) over the 4-element universes {{},{0},{1},{0,1}} and the 4-chain, x the '
                          'four operators x every warm-up of at most one relation query per operand, cache on'}
OPS = {'&': 'OpAnd', '|': 'OpOr', '^': 'OpXor', '-': 'OpSub'}


def run_impl(case):
    def go():
        from fcapy.poset import POSet
        m = case['matrix']
        leq = lambda a, b: m[a][b]   # noqa
        A = POSet(list(case['a']), leq, use_cache=case['cache_a'])
        B = POSet(list(case['b']), leq, use_cache=case['cache_b'])
        for o in case['warm_a']:
            PL.apply_op(A, o, leq, POSet)
        for o in case['warm_b']:
            PL.apply_op(B, o, leq, POSet)
        before = (PL.snapshot(A), PL.snapshot(B))
        try:
            if case['op'] == '&':
                R = A & B
            elif case['op'] == '|':
                R = A | B
            elif case['op'] == '^':
                R = A ^ B
            else:
                R = A - B
        except Exception as e:  # noqa
            return [PL.out_term(PL._x(e)), (PL.snapshot(A), PL.snapshot(B)) == before, '[]']
        res = ['e', [int(x) for x in R.elements]]
        unchanged = (PL.snapshot(A), PL.snapshot(B)) == before
        fin = PL.run_final(R, leq, POSet)
        unchanged = unchanged and (PL.snapshot(A), PL.snapshot(B)) == before
        return [PL.out_term(res), unchanged, PL.outs_term(fin)]     # compact strings (Coq terms)
    r = guarded(go, timeout_s=20)
    return list(r)


def to_coq(case, out):
    if out[0] == 'ok':
        res, unchanged, fin = out[1]
    else:
        res, unchanged, fin = PL.out_term(['x', PL.ERR_KINDS.get(out[1], 11)]), True, '[]'
    return 'Build_c10_case %s %s %s %s %s %s %s %s %s %s %s' % (
        coq(case['matrix']), coq(list(case['a'])), coq(list(case['b'])), PL.b(case['cache_a']),
        PL.b(case['cache_b']), PL.ops_term(case['warm_a']), PL.ops_term(case['warm_b']), OPS[case['op']],
        res, PL.b(bool(unchanged)), fin)


# ------------------------------------------------------------------ generation
def warmup(rng, els, k_all, heavy):
    n = len(els)
    if n == 0 or rng.random() < 0.15:
        return []
    ops = []
    for _ in range(rng.randint(1, 3 if not heavy else 6)):
        i = rng.randrange(n)
        r = rng.random()
        if r < 0.40:
            ops.append(['cv', rng.random() < 0.5, i])
        elif r < 0.75:
            ops.append(['cl', rng.random() < 0.5, i])
        elif r < 0.90:
            ops.append(['leq', i, rng.randrange(n)])
        elif r < 0.95:
            ops.append(['ex', rng.random() < 0.5])
        else:
            ops.append(['fill', rng.randrange(6)])
    return ops


def operands(rng, k):
    """Two element lists over carriers 0..k-1 with a controlled overlap."""
    allc = list(range(k))
    rng.shuffle(allc)
    mode = rng.choice(['disjoint', 'nested', 'equal', 'middle', 'random', 'random', 'empty'])
    if mode == 'disjoint':
        cut = rng.randint(0, k)
        a, b = allc[:cut], allc[cut:]
    elif mode == 'nested':
        a = allc[:rng.randint(1, k)]
        b = rng.sample(a, rng.randint(0, len(a)))
        if rng.random() < 0.5:
            a, b = b, a
    elif mode == 'equal':
        a = allc[:rng.randint(0, k)]
        b = list(a)
        rng.shuffle(b)
    elif mode == 'middle':                      # one element present in only one operand
        a = allc[:rng.randint(min(2, k), k)]
        b = list(a)
        b.remove(rng.choice(b))
        rng.shuffle(b)
        if rng.random() < 0.5:
            a, b = b, a
    elif mode == 'empty':
        a = allc[:rng.randint(0, k)]
        b = []
        if rng.random() < 0.5:
            a, b = b, a
    else:
        a = rng.sample(allc, rng.randint(0, k))
        b = rng.sample(allc, rng.randint(0, k))
    return a, b, mode


def random_case(rng, heavy):
    m, kind = PL.random_order(rng)
    k = len(m)
    a, b, mode = operands(rng, k)
    r = rng.random()
    ca, cb = (True, True) if r < 0.86 else ((False, False) if r < 0.94 else
                                            ((True, False) if r < 0.97 else (False, True)))
    return {'matrix': m, 'a': a, 'b': b, 'cache_a': ca, 'cache_b': cb,
            'warm_a': warmup(rng, a, k, heavy) if ca or rng.random() < 0.3 else [],
            'warm_b': warmup(rng, b, k, heavy) if cb or rng.random() < 0.3 else [],
            'op': rng.choice('&|^-'), 'kind': kind, 'overlap': mode}


U4 = PL.closure(4, [(0, 1), (0, 2), (1, 3), (2, 3)])
C4 = PL.closure(4, [(0, 1), (1, 2), (2, 3)])


def _single_warmups(n):
    w = [[]]
    for i in range(n):
        w += [[['cv', True, i]], [['cv', False, i]], [['cl', True, i]], [['cl', False, i]]]
    return w


def exhaustive_cases():
    subs = [list(c) for r in (1, 2, 3) for c in itertools.combinations(range(4), r)]
    for m, kind in ((U4, 'exh-U4'), (C4, 'exh-C4')):
        for a in subs:
            for b in subs:
                for wa in _single_warmups(len(a)):
                    for wb in _single_warmups(len(b)):
                        for op in '&|^-':
                            yield {'matrix': m, 'a': a, 'b': b, 'cache_a': True, 'cache_b': True,
                                   'warm_a': wa, 'warm_b': wb, 'op': op, 'kind': kind, 'overlap': 'exhaustive'}


def generate(rng, tier):
    cases = []
    if tier == 'thorough':
        cases += list(exhaustive_cases())
        n_rand = 40000
    else:
        ex = list(exhaustive_cases())
        cases += rng.sample(ex, 1200)
        n_rand = 3000
    for _ in range(n_rand):
        cases.append(random_case(rng, heavy=(tier == 'thorough' and rng.random() < 0.3)))
    return cases


# ------------------------------------------------------------------ evidence
def nontrivial(case):
    a, b = set(case['a']), set(case['b'])
    warmed = (case['cache_a'] and any(o[0] in ('cv', 'cl', 'ex', 'fill') for o in case['warm_a'])) or \
             (case['cache_b'] and any(o[0] in ('cv', 'cl', 'ex', 'fill') for o in case['warm_b']))
    return bool(a) and bool(b) and bool(a & b) and a != b and warmed


def stats(case):
    return {'order': case.get('kind', ''), 'overlap': case.get('overlap', ''), 'op': case['op'],
            'cache': '%s/%s' % (case['cache_a'], case['cache_b']),
            'size_a': len(case['a']), 'size_b': len(case['b']),
            'warm': min(len(case['warm_a']) + len(case['warm_b']), 6)}


def shrink(case):
    out = []
    for key in ('warm_a', 'warm_b'):
        for i in range(len(case[key])):
            c = dict(case)
            c[key] = case[key][:i] + case[key][i + 1:]
            out.append(c)
    for key, wkey in (('a', 'warm_a'), ('b', 'warm_b')):
        for i in range(len(case[key])):
            c = dict(case)
            c[key] = case[key][:i] + case[key][i + 1:]
            if PL.history_valid(c[key], c[wkey], len(c['matrix'])):
                out.append(c)
    return out

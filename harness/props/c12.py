"""C12 — every order-construction routine computes exactly the cover relation.

A case is a list of extents (all concepts of a small context, or a sub-list that keeps the top
and the bottom concept, in sort_concepts order or shuffled), a routine, the flag
is_concepts_sorted, n_jobs, and for add/remove the concept to add / the index to remove."""
import itertools
import sys
from harness.core import coq, some, Raw, guarded, canon, ERR_KINDS
from harness import gen

ID = 'C12'
COQ_IMPORTS = ['FCA.Corr.C12']
CASE_TYPE = 'c12_case'
CHECK = 'c12_check'
SHOW = 'c12_show'
SHARD = 120
RULE = ('[plus histories on ONE list object: an order-construction call, in-place remove_concept + add_concept '
        'bringing the list back to its length, then the routine under test on the current list] '
        'case = (list of extents of a context: complete, a sub-list keeping top and bottom, or a non-graded family '
        '(pentagon-like, uneven chains below a node: every family of object sets is a sub-list of the concepts of '
        'the context with one attribute per set); sorted or '
        'shuffled; flag: set on the sort_concepts listing AND on arbitrary linear extensions - random topological, '
        'depth-first, adjacent swaps - since is_concepts_sorted promises only a topological listing), routine, n_jobs, [chains | concept to add | index to remove]; '
        'non-trivial = at least 5 concepts, at least one pair of incomparable concepts and at least one '
        'non-cover comparable pair (so the transitive reduction has something to remove)')
EXHAUSTIVE = {'thorough': 'all 3x3 boolean tables x {complete list sorted, complete list reversed} x the '
                          'sequential routines (complete_comparison, spanning tree, chains, sweep, by_spanning_tree, '
                          'order_extents_comparison)'}
ASSUMPTIONS = [
    'a threaded run (n_jobs > 1, joblib threading backend) samples ONE schedule of the worker threads; the '
    'Coq theorems cover every complete interleaving of ATOMIC LOOP ITERATIONS of the threads of a chunk '
    '(C12_schedule_complete, C12_schedule_sound) and the thread-after-thread schedule (C12_jobs_irrelevant); '
    'pre-emption inside one iteration of iterate_chain (between byte-codes) and joblib itself are not modelled',
    'concepts are compared through AbstractConcept.__lt__ on duplicate-free extents; the model sees a concept '
    'list as the boolean comparison lt i j, the sort position rank i and the support size i',
    'order_extents_comparison delegates to the caspailleur library: not modelled, only checked against the '
    'cover relation by definition',
    'the iteration order of Python sets (spanning-tree sifting, add_concept queues, remove_concept ties) is a '
    'parameter of the model; the spanning tree itself is checked against the set of all outcomes the sifting '
    'loop can produce, the final relations as sets',
    'pm._effective_n_jobs() is taken to be n_jobs (true on this 16-core machine for n_jobs <= 4)',
]

OPS = {0: 'complete_comparison', 1: 'construct_spanning_tree', 2: '_get_chains(tree)', 3: '_get_chains(covers)',
       4: 'from_spanning_tree', 5: 'from_spanning_tree_parallel', 6: 'by_spanning_tree',
       7: 'order_extents_comparison', 8: 'add_concept', 9: 'remove_concept'}


# ------------------------------------------------------------------ independent helpers (harness side)

def all_extents(table):
    """All concept extents of a boolean table: intersections of attribute extents (and the full set)."""
    h = len(table)
    w = len(table[0]) if table else 0
    full = frozenset(range(h))
    exts = {full}
    for j in range(w):
        col = frozenset(i for i in range(h) if table[i][j])
        exts |= {e & col for e in exts}
    return [sorted(e) for e in exts]


def sort_key(ext):
    return (-len(ext), ','.join(str(g) for g in ext))


def covers_py(exts):
    """{i: set of lower covers} by definition (strict inclusion, nothing between)."""
    s = [frozenset(e) for e in exts]
    n = len(s)
    out = {}
    for a in range(n):
        below = [b for b in range(n) if s[b] < s[a]]
        out[a] = {b for b in below if not any(s[b] < s[c] for c in below)}
    return out


def transpose_py(rel, n):
    out = {i: set() for i in range(n)}
    for a, bs in rel.items():
        for b in bs:
            out[b].add(a)
    return out


def make_concepts(case, exts=None):
    from fcapy.lattice.formal_concept import FormalConcept
    table = case['table']
    w = len(table[0]) if table else 0
    out = []
    for e in (case['exts'] if exts is None else exts):
        intent = [j for j in range(w) if all(table[g][j] for g in e)]
        out.append(FormalConcept(tuple(e), tuple('g%d' % g for g in e), tuple(intent),
                                 tuple('m%d' % j for j in intent), context_hash=17))
    return out


def rel_list(d, n):
    """dict {i: set} with keys exactly 0..n-1 -> list of sorted lists; anything else is an error."""
    if not isinstance(d, dict) or sorted(d.keys()) != list(range(n)):
        raise TypeError('relation keys are %r, expected 0..%d' % (sorted(d.keys()) if isinstance(d, dict) else d, n - 1))
    return [sorted(int(x) for x in d[i]) for i in range(n)]


# ------------------------------------------------------------------ implementation

class ArgumentsMutated(Exception):
    """a routine changed an argument it must not change (or did not work in place when asked to)"""


class CallNotRepeatable(Exception):
    """the same non-inplace call from the same base gave two different answers"""


class ChainMismatch(Exception):
    """add -> remove -> add (or remove -> add) on the returned relation did not come back to the expected relation"""


def _snap(cs, *rels):
    return ([tuple(c.extent_i) for c in cs],
            [None if r is None else ({k: frozenset(v) for k, v in r.items()} if isinstance(r, dict)
                                     else [list(x) for x in r]) for r in rels])


def _check_unchanged(what, before, cs, *rels):
    after = _snap(cs, *rels)
    if after != before:
        raise ArgumentsMutated('%s changed its arguments: %r -> %r' % (what, before, after))


def _result(ret, n):
    _, sub2, sup2, t, b = ret
    return [rel_list(sub2, n), rel_list(sup2, n), int(t), int(b)]


def run_add_remove(case, lca, cs, sub, sup):
    """add_concept / remove_concept in one of the calling modes: in place, on copies, twice from the same base,
    chained on the returned relation"""
    op, n = case['op'], len(cs)
    mode = case.get('mode') or 'inplace'
    tb = (case['top'], case['bottom'])
    new = make_concepts(case, [case['new']])[0] if op == 8 else None

    def call(concepts, sub_, sup_, inplace, top_bottom=tb):
        if op == 8:
            return lca.add_concept(new, concepts, sub_, sup_, top_bottom[0], top_bottom[1], inplace=inplace)
        return lca.remove_concept(case['arg'], concepts, sub_, sup_, top_bottom[0], top_bottom[1], inplace=inplace)
    n2 = n + 1 if op == 8 else n - 1
    if mode == 'inplace':
        ret = call(cs, sub, sup, True)
        if ret[0] is not cs or ret[1] is not sub or ret[2] is not sup:
            raise ArgumentsMutated('inplace=True did not return the objects it was given')
        return _result(ret, n2)
    before = _snap(cs, sub, sup)
    ret = call(cs, sub, sup, False)
    _check_unchanged('inplace=False call', before, cs, sub, sup)
    res = _result(ret, n2)
    if mode == 'copy':
        return res
    if mode == 'copy_twice':
        # two independent calls from the same base must agree
        res2 = _result(call(cs, sub, sup, False), n2)
        _check_unchanged('second inplace=False call', before, cs, sub, sup)
        if res2 != res:
            raise CallNotRepeatable('first %r, second %r' % (res, res2))
        return res
    # chains on the returned relation
    cs2, sub2, sup2, t2, b2 = ret
    if op == 8:
        try:
            back = lca.remove_concept(n, cs2, sub2, sup2, t2, b2, inplace=False)
        except AssertionError:
            return res                  # the new concept is a top/bottom that cannot be taken out again
        if _result(back, n)[:2] != [rel_list(sub, n), rel_list(sup, n)]:
            raise ChainMismatch('add then remove does not give the base relation back: %r' % (_result(back, n),))
        again = lca.add_concept(new, back[0], back[1], back[2], back[3], back[4], inplace=True)
        res3 = _result(again, n + 1)
        if res3 != res:
            raise ChainMismatch('add, remove, add: %r instead of %r' % (res3, res))
        return res
    removed = cs[case['arg']]
    again = lca.add_concept(removed, cs2, sub2, sup2, t2, b2, inplace=False)
    listing = [e for k, e in enumerate(case['exts']) if k != case['arg']] + [case['exts'][case['arg']]]
    want = covers_py(listing)
    if rel_list(again[1], n) != [sorted(want[i]) for i in range(n)]:
        raise ChainMismatch('remove then add: %r' % (rel_list(again[1], n),))
    return res


def run_impl(case):
    def go():
        from fcapy.algorithms import lattice_construction as lca
        from fcapy.lattice import ConceptLattice
        cs = make_concepts(case)
        n = len(cs)
        op, flag, jobs = case['op'], case['sorted'], case['n_jobs']
        hist = case.get('list_history')
        if hist:
            # ONE list object: an order-construction call, then in-place remove + add (same length again, no
            # sorting call in between), then the routine under test on the CURRENT list
            def first_call():
                if hist['first'] == 'by_spanning_tree':
                    return rel_list(lca.construct_lattice_by_spanning_tree(cs, is_concepts_sorted=False), len(cs))
                if hist['first'] == 'complete_comparison':
                    return rel_list(lca.complete_comparison(cs, is_concepts_sorted=False), len(cs))
                st = lca.construct_spanning_tree(cs, is_concepts_sorted=False)
                ch = ConceptLattice._get_chains(cs, st[1], is_concepts_sorted=False)
                return rel_list(lca.construct_lattice_from_spanning_tree(cs, ch, is_concepts_sorted=False), len(cs))
            exts = [list(e) for e in case['exts']]
            want = covers_py(exts)
            if first_call() != [sorted(want[i]) for i in range(n)]:
                raise ChainMismatch('first order-construction call is wrong')
            sub = {i: set(v) for i, v in want.items()}
            sup = transpose_py(want, n)
            t0 = b0 = None
            for step in hist['steps']:
                if step[0] == 'remove':
                    _, sub, sup, t0, b0 = lca.remove_concept(step[1], cs, sub, sup, t0, b0, inplace=True)
                    del exts[step[1]]
                else:
                    new = make_concepts(case, [step[1]])[0]
                    _, sub, sup, t0, b0 = lca.add_concept(new, cs, sub, sup, t0, b0, inplace=True)
                    exts.append(list(step[1]))
                if [sorted(int(g) for g in c.extent_i) for c in cs] != [sorted(e) for e in exts]:
                    raise ArgumentsMutated('the list does not hold the expected concepts after an in-place %s' % step[0])
                if hist.get('between') == 'call' and step is not hist['steps'][-1]:
                    first_call()
            cur = covers_py(exts)
            if rel_list(sub, len(exts)) != [sorted(cur[i]) for i in range(len(exts))]:
                raise ChainMismatch('relation after the in-place edits is wrong')
            n = len(cs)
            return go_routines(lca, ConceptLattice, cs, n, op, False, jobs, cur_exts=exts) + [exts]
        if op >= 8:
            cov = covers_py(case['exts'])
            return run_add_remove(case, lca, cs, {i: set(v) for i, v in cov.items()}, transpose_py(cov, n))
        before = _snap(cs)
        try:
            return go_routines(lca, ConceptLattice, cs, n, op, flag, jobs)
        finally:
            _check_unchanged(OPS[op], before, cs)

    def go_routines(lca, ConceptLattice, cs, n, op, flag, jobs, cur_exts=None):
        if op == 0:
            return [rel_list(lca.complete_comparison(cs, is_concepts_sorted=flag, n_jobs=jobs), n), [], 0, 0]
        if op in (1, 2, 4, 5) and case.get('chains') is None:
            sub_st, sup_st = lca.construct_spanning_tree(cs, is_concepts_sorted=flag)
            sub_l, sup_l = rel_list(sub_st, n), rel_list(sup_st, n)
            if op == 1:
                return [sub_l, sup_l, 0, 0]
            sup_before = {k: list(v) for k, v in sup_st.items()}
            chains = canon(ConceptLattice._get_chains(cs, sup_st, is_concepts_sorted=flag))
            if {k: list(v) for k, v in sup_st.items()} != sup_before:
                raise ArgumentsMutated('_get_chains changed the parents dictionary')
            if op == 2:
                return [chains, sup_l, 0, 0]
        else:
            chains = case.get('chains')
        if op == 3:
            parents = transpose_py(covers_py(cur_exts if cur_exts is not None else case['exts']), n)
            return [canon(ConceptLattice._get_chains(cs, parents, is_concepts_sorted=flag)), [], 0, 0]
        if op == 4:
            arg = [list(c) for c in chains]
            r = lca.construct_lattice_from_spanning_tree(cs, arg, is_concepts_sorted=flag)
            if arg != [list(c) for c in chains]:
                raise ArgumentsMutated('the chains were changed')
            return [rel_list(r, n), chains, 0, 0]
        if op == 5:
            arg = [list(c) for c in chains]
            r = lca.construct_lattice_from_spanning_tree_parallel(cs, arg, is_concepts_sorted=flag, n_jobs=jobs)
            if arg != [list(c) for c in chains]:
                raise ArgumentsMutated('the chains were changed')
            return [rel_list(r, n), chains, 0, 0]
        if op == 6:
            return [rel_list(lca.construct_lattice_by_spanning_tree(cs, is_concepts_sorted=flag, n_jobs=jobs), n),
                    [], 0, 0]
        if op == 7:
            return [rel_list(lca.order_extents_comparison(cs), n), [], 0, 0]
        raise ValueError('unknown op %r' % op)

    old = sys.getswitchinterval()
    if case.get('switch'):
        sys.setswitchinterval(1e-6)
    try:
        r = guarded(go, timeout_s=60)
    finally:
        sys.setswitchinterval(old)
    return list(r)


def _nat_lists(v):
    return (isinstance(v, list) and all(isinstance(l, list) and all(
        isinstance(x, int) and not isinstance(x, bool) and x >= 0 for x in l) for l in v))


def impl_term(out):
    if out[0] == 'ok':
        r1, r2, t, b = out[1][:4]
        if not (_nat_lists(r1) and _nat_lists(r2) and isinstance(t, int) and isinstance(b, int) and t >= 0 and b >= 0):
            return Raw('(IErr 12)')
        return Raw('(IOk ((%s, %s), (%d, %d)))' % (coq(r1), coq(r2), t, b))
    return Raw('(IErr %d)' % ERR_KINDS.get(out[1], 11))


def current_exts(case, out):
    """the list the routine under test saw: after the history, if there is one"""
    if case.get('list_history'):
        if out[0] == 'ok' and len(out[1]) > 4:
            return out[1][4]
        exts = [list(e) for e in case['exts']]
        for step in case['list_history']['steps']:
            if step[0] == 'remove':
                del exts[step[1]]
            else:
                exts.append(list(step[1]))
        return exts
    return case['exts']


def to_coq(case, out):
    chains = case.get('chains')
    if chains is None and case['op'] in (4, 5) and out[0] == 'ok':
        chains = out[1][1]
        out = ['ok', [out[1][0], [], 0, 0] + out[1][4:]]
    elif case['op'] in (4, 5) and out[0] == 'ok':
        out = ['ok', [out[1][0], [], 0, 0] + out[1][4:]]
    return 'Build_c12_case %s %s %d %d %s %d %s %s %s %s' % (
        coq(current_exts(case, out)), coq(bool(case['sorted'])), case['op'], case['n_jobs'], coq(chains or []),
        case.get('arg') or 0, coq(case.get('new') or []), some(case.get('top')), some(case.get('bottom')),
        impl_term(out))


# ------------------------------------------------------------------ generation

def _mk(table, exts, flag, op, n_jobs=1, chains=None, arg=None, new=None, top=None, bottom=None,
        switch=False, kind='', mode=None, list_history=None):
    return {'list_history': list_history, 'mode': mode, 'table': table, 'exts': exts, 'sorted': flag, 'op': op, 'n_jobs': n_jobs, 'chains': chains,
            'arg': arg, 'new': new, 'top': top, 'bottom': bottom, 'switch': switch, 'kind': kind}


def small_table(rng, max_dim):
    """Mostly tables with several concepts (random tables at extreme densities have 2-3)."""
    best = None
    for _ in range(6):
        if rng.random() < 0.5:
            h, w = rng.randint(3, max_dim), rng.randint(3, max_dim)
            p = rng.choice([0.35, 0.5, 0.65, 0.75])
            t, kind = [[rng.random() < p for _ in range(w)] for _ in range(h)], 'mid'
        else:
            t, kind = gen.random_table(rng, max_dim, max_dim, min_h=1, min_w=1)
        k = len(all_extents(t))
        if best is None or k > best[2]:
            best = (t, kind, k)
        if k >= 5 or rng.random() < 0.08:
            return t, kind
    return best[0], best[1]


def predicted_chain_count(exts, flag):
    """Number of chains the library will most probably build (sifting with ascending set order)."""
    n = len(exts)
    s = [frozenset(e) for e in exts]
    order = list(range(n)) if flag else sorted(range(n), key=lambda i: sort_key(exts[i]))
    sub = {}
    for k, c in enumerate(order):
        sub[c] = []
        if k == 0:
            continue
        p = order[0]
        moved = True
        while moved:
            moved = False
            for x in sorted(sub[p]):
                if s[c] < s[x]:
                    p, moved = x, True
                    break
        sub[p].append(c)
    return max(1, sum(1 for c in order if not sub[c]))


def pick_list(rng, table, max_n, complete=None):
    """A list of extents: all of them, or a sub-list keeping top and bottom; returns (exts sorted, is_complete)."""
    exts = sorted(all_extents(table), key=sort_key)
    if len(exts) > max_n:
        complete = False
    if complete is None:
        complete = rng.random() < 0.5
    if not complete and len(exts) > 2:
        inner = exts[1:-1]
        hi = min(len(inner), max_n - 2)
        k = rng.randint(hi // 2, hi) if rng.random() < 0.85 else rng.randint(0, hi)
        keep = sorted(rng.sample(range(len(inner)), k))
        exts = [exts[0]] + [inner[i] for i in keep] + [exts[-1]]
    return exts, complete


def random_topological(rng, exts):
    """A random linear extension: every concept after all its (strict) super-concepts."""
    s = [frozenset(e) for e in exts]
    n = len(s)
    placed, out = set(), []
    while len(out) < n:
        ready = [i for i in range(n) if i not in placed and all(j in placed for j in range(n) if s[i] < s[j])]
        i = rng.choice(ready)
        placed.add(i)
        out.append(i)
    return [exts[i] for i in out]


def dfs_topological(rng, exts):
    """Depth-first linear extension (reverse post-order of the cover DAG): supports go up and down along it."""
    s = [frozenset(e) for e in exts]
    n = len(s)
    cov = covers_py(exts)
    seen, post = set(), []

    def visit(i):
        seen.add(i)
        ch = sorted(cov[i])
        rng.shuffle(ch)
        for j in ch:
            if j not in seen:
                visit(j)
        post.append(i)
    roots = [i for i in range(n) if not any(s[i] < s[j] for j in range(n))]
    rng.shuffle(roots)
    for r in roots:
        if r not in seen:
            visit(r)
    return [exts[i] for i in reversed(post)]


def tie_swapped(rng, exts):
    """The support-sorted listing with random swaps of adjacent incomparable concepts (still a linear extension)."""
    l = list(exts)
    for _ in range(2 * len(l)):
        if len(l) < 2:
            break
        k = rng.randrange(len(l) - 1)
        a, b = frozenset(l[k]), frozenset(l[k + 1])
        if not (b < a):
            l[k], l[k + 1] = l[k + 1], l[k]
    return l


def is_topological(exts):
    s = [frozenset(e) for e in exts]
    return all(not (s[i] < s[j]) or j < i for i in range(len(s)) for j in range(len(s)))


def arrange(rng, exts):
    """(listing, flag).  The flag is_concepts_sorted=True promises a TOPOLOGICAL listing (every concept after all
    its super-concepts), not the particular order of sort_concepts: besides the support-sorted listing the flag
    is set on random linear extensions, depth-first ones and support-sorted ones with adjacent swaps."""
    mode = rng.choice(['sorted_flag', 'topo_random_flag', 'topo_dfs_flag', 'topo_tieswap_flag',
                       'sorted_noflag', 'shuffled', 'shuffled', 'reversed', 'topo_dfs_noflag'])
    if mode == 'sorted_flag':
        return list(exts), True, mode
    if mode == 'topo_random_flag':
        return random_topological(rng, exts), True, mode
    if mode == 'topo_dfs_flag':
        return dfs_topological(rng, exts), True, mode
    if mode == 'topo_tieswap_flag':
        return tie_swapped(rng, exts), True, mode
    if mode == 'topo_dfs_noflag':
        return dfs_topological(rng, exts), False, mode
    if mode == 'sorted_noflag':
        return list(exts), False, mode
    if mode == 'reversed':
        return list(reversed(exts)), False, mode
    l = list(exts)
    rng.shuffle(l)
    return l, False, mode


def random_chains(rng, exts, flag):
    """A valid chain decomposition not produced by the library: each chain starts at the top, descends
    strictly, and together they cover every concept."""
    s = [frozenset(e) for e in exts]
    n = len(s)
    top = max(range(n), key=lambda i: len(s[i]))
    todo = set(range(n)) - {top}
    chains = []
    while todo:
        c = rng.choice(sorted(todo))
        up = [c]
        while True:
            above = [i for i in range(n) if s[up[-1]] < s[i] and i != top]
            if not above or rng.random() < 0.3:
                break
            up.append(rng.choice(above))
        down = [c]
        while True:
            below = [i for i in range(n) if s[i] < s[down[-1]]]
            if not below or rng.random() < 0.4:
                break
            down.append(rng.choice(below))
        ch = [top] + list(reversed(up)) + down[1:]
        chains.append(ch)
        todo -= set(ch)
    if not chains:
        chains = [[top]]
    return chains


def table_of_family(n_objects, family):
    """A context with one attribute per set of the family: every set of the family is one of its concept
    extents, so ANY family of object sets is a sub-list of the concepts of a context."""
    return [[g in e for e in family] for g in range(n_objects)]


def nongraded_family(rng, max_n):
    """A list of distinct object sets with a greatest and a least one whose order is NOT graded: maximal chains
    of different length between the same two elements (pentagon-like shapes, uneven chains below a node)."""
    shape = rng.choice(['uneven', 'uneven', 'pentagon', 'randfam', 'crown'])
    if shape == 'pentagon':
        # 0 < a < b < 1 and 0 < c < 1 with c incomparable to a, b; optionally stretched / doubled
        la, lc = rng.randint(2, 3), 1
        m = la + lc + rng.randint(0, 1)
        fam = [frozenset(range(k + 1)) for k in range(la)] + [frozenset([la])]
        if rng.random() < 0.5:
            fam.append(frozenset(range(la)) | frozenset([la]))     # a node above both chains
    elif shape == 'crown':
        # s < r, O_1..O_k ; r < P_1..P_k ; O_i < P_i : removing r hands its parents P_i to s, where every one of them
        # is transitive through O_i; blocks of different size put the supports of the O_i and P_i in varying order
        k = rng.randint(2, 3)
        sizes = [rng.randint(1, 3) for _ in range(k)]
        fam, start = [frozenset([0]), frozenset([0, 1])], 2
        for sz in sizes:
            blk = frozenset(range(start, start + sz))
            fam += [frozenset([0]) | blk, frozenset([0, 1]) | blk]
            start += sz
        if rng.random() < 0.4:
            fam.append(frozenset([1]))
        m = start + rng.randint(0, 1)
    elif shape == 'uneven':
        # two or three nested chains of different length on disjoint blocks, a node N above their tops,
        # a chain from N up to the full set
        lens = rng.sample([1, 2, 3, 4], rng.randint(2, 3))
        fam, start, tops = [], 0, []
        for ln in lens:
            blk = list(range(start, start + ln))
            fam += [frozenset(blk[:k + 1]) for k in range(ln)]
            tops.append(frozenset(blk))
            start += ln
        node = frozenset().union(*tops)
        fam.append(node)
        if rng.random() < 0.5 and len(tops) > 2:
            fam.append(tops[0] | tops[1])
        m = start + rng.randint(1, 2)
        for k in range(start, m - 1):
            fam.append(frozenset(range(k + 1)))
    else:
        m = rng.randint(4, 6)
        fam = []
        for _ in range(rng.randint(4, 8)):
            k = rng.randint(1, m - 1)
            fam.append(frozenset(rng.sample(range(m), k)))
        # add a few nested refinements so that chains of different length appear
        for e in list(fam)[:3]:
            if len(e) >= 2:
                fam.append(frozenset(sorted(e)[:len(e) - 1]))
    full = frozenset(range(m))
    fam = list(dict.fromkeys([e for e in fam if e and e != full]))
    if len(fam) > max_n - 2:
        fam = fam[:max_n - 2]
    fam = [full] + fam + [frozenset()]
    exts = sorted([sorted(e) for e in fam], key=sort_key)
    return table_of_family(m, [e for e in fam if e]), exts, 'nongraded-' + shape


def is_graded(exts):
    """Do all maximal chains between two comparable elements have the same length?  (rank function test)"""
    s = [frozenset(e) for e in exts]
    n = len(s)
    cov = covers_py(exts)
    bot = min(range(n), key=lambda i: len(s[i]))
    rank = {bot: 0}
    changed = True
    order = sorted(range(n), key=lambda i: len(s[i]))
    for i in order:
        rs = {rank[j] + 1 for j in cov[i] if j in rank}
        if len(rs) > 1:
            return False
        if rs:
            rank[i] = rs.pop()
        elif i != bot:
            rank[i] = 0
    return True


def random_case(rng, max_dim, max_n, ops, threaded=False, switch=False):
    op = rng.choice(ops)
    # random small contexts are mostly graded: weight non-graded families, above all for add/remove
    if rng.random() < (0.55 if op in (8, 9) else 0.12):
        table, exts, kind = nongraded_family(rng, max_n)
        complete = False
    else:
        for _ in range(50):
            table, kind = small_table(rng, max_dim)
            exts, complete = pick_list(rng, table, max_n)
            if len(exts) >= 2:
                break
    listing, flag, mode = arrange(rng, exts)
    kind = '%s/%s/%s' % (kind, 'complete' if complete else 'sub', mode)
    if op == 7 and not complete:
        op = 0
    if op in (4, 5) and rng.random() < 0.4:
        chains = random_chains(rng, listing, flag)
    else:
        chains = None
    n_jobs = 1
    if threaded:
        cnt = len(chains) if chains else predicted_chain_count(listing, flag)
        for _ in range(12):
            if cnt >= 3:
                break
            # prefer lists with several chains, so that the chunked sweep has more than one batch
            if rng.random() < 0.5:
                table, exts, kind0 = nongraded_family(rng, max_n)
            else:
                table, kind0 = small_table(rng, max_dim)
                exts, _ = pick_list(rng, table, max_n, complete=rng.random() < 0.6)
            listing, flag, mode = arrange(rng, exts)
            kind = '%s/%s/%s' % (kind0, 'threaded', mode)
            chains = random_chains(rng, listing, flag) if (op in (4, 5) and rng.random() < 0.4) else None
            cnt = len(chains) if chains else predicted_chain_count(listing, flag)
        # chain count not a multiple of n_jobs, and (if possible) more chains than jobs: >= 2 batches
        opts = ([j for j in (2, 3, 4) if cnt % j != 0 and j < cnt] or
                [j for j in (2, 3, 4) if cnt % j != 0 and cnt > 1] or [2, 3, 4])
        n_jobs = rng.choice(opts)
    elif op == 5:
        # the parallel routine with n_jobs=1 runs the same chunked loop without joblib (cheap)
        n_jobs = 1
    if op == 8:
        return add_case(rng, table, listing, flag, kind)
    if op == 9:
        n = len(listing)
        if n < 3:
            op = 0
        else:
            s = [frozenset(e) for e in listing]
            top = max(range(n), key=lambda i: len(s[i]))
            bot = min(range(n), key=lambda i: len(s[i]))
            r = rng.random()
            arg = rng.randrange(n) if r < 0.85 else rng.choice([top, bot])
            if kind.startswith('nongraded-crown') and [0, 1] in listing and rng.random() < 0.7:
                arg = listing.index([0, 1])
            if rng.random() < 0.2:
                # a list whose bottom has exactly one upper cover / whose top has exactly one lower cover:
                # removing that bottom / top is legitimate (the reduced list still has a least / greatest one)
                m = max([g for e in listing for g in e] + [-1]) + 1
                if rng.random() < 0.5:
                    listing = [sorted(e + [m]) for e in listing] + [sorted(listing[bot])]
                    table = table_of_family(m + 1, [frozenset(e) for e in listing if e])
                    special = len(listing) - 1
                else:
                    listing = listing + [sorted(listing[top] + [m])]
                    table = table_of_family(m + 1, [frozenset(e) for e in listing if e])
                    special = len(listing) - 1
                kind = kind + '+single-cover'
                if rng.random() < 0.4:
                    rng.shuffle(listing)
                n = len(listing)
                s = [frozenset(e) for e in listing]
                top = max(range(n), key=lambda i: len(s[i]))
                bot = min(range(n), key=lambda i: len(s[i]))
                arg = rng.choice([top, bot]) if rng.random() < 0.7 else rng.randrange(n)
            tb = rng.choice(['none', 'given', 'given', 'one'])
            t, b = (None, None) if tb == 'none' else (top, bot) if tb == 'given' else (top, None)
            return _mk(table, listing, False, 9, arg=arg, top=t, bottom=b, kind=kind,
                       mode=rng.choice(['inplace', 'inplace', 'copy', 'copy_twice', 'chain']))
    return _mk(table, listing, flag, op, n_jobs=n_jobs, chains=chains, switch=switch, kind=kind)


def add_case(rng, table, listing, flag, kind):
    """Take one concept out of the list and add it back (a middle one, the top or the bottom)."""
    n = len(listing)
    s = [frozenset(e) for e in listing]
    top = max(range(n), key=lambda i: len(s[i]))
    bot = min(range(n), key=lambda i: len(s[i]))
    if n < 3:
        return _mk(table, listing, flag, 0, kind=kind)
    r = rng.random()
    if r < 0.45:
        # a concept high in the list (many concepts, and chains of different length, below it)
        big = sorted((k for k in range(n) if k != top), key=lambda k: -len(s[k]))
        i = rng.choice(big[:max(1, len(big) // 3)])
    else:
        i = rng.randrange(n) if r < 0.88 else rng.choice([top, bot])
    new = listing[i]
    rest = listing[:i] + listing[i + 1:]
    s2 = [frozenset(e) for e in rest]
    t2 = max(range(n - 1), key=lambda k: len(s2[k]))
    b2 = min(range(n - 1), key=lambda k: len(s2[k]))
    tb = rng.choice(['none', 'given', 'given', 'one'])
    t, b = (None, None) if tb == 'none' else (t2, b2) if tb == 'given' else (None, b2)
    return _mk(table, rest, False, 8, new=new, top=t, bottom=b, kind=kind,
               mode=rng.choice(['inplace', 'inplace', 'copy', 'copy_twice', 'chain']))


def exhaustive_cases():
    for t in gen.all_tables(3, 3):
        exts = sorted(all_extents(t), key=sort_key)
        if len(exts) < 2:
            continue
        for listing, flag in ((exts, True), (list(reversed(exts)), False)):
            for op in (0, 1, 2, 3, 4, 6, 7):
                yield _mk(t, listing, flag, op, kind='exhaustive')


def history_case(rng, max_dim, max_n):
    """order construction, in-place remove + add on the same list object, order construction again"""
    for _ in range(30):
        if rng.random() < 0.3:
            table, full, kind = nongraded_family(rng, max_n)
        else:
            table, kind = small_table(rng, max_dim)
            full = sorted(all_extents(table), key=sort_key)
        if len(full) >= 5:
            break
    inner = full[1:-1]
    hi = max(1, min(len(inner) - 1, max_n - 3))
    k = rng.randint(min(max(1, len(inner) // 2), hi), hi)
    keep = sorted(rng.sample(range(len(inner)), min(k, len(inner))))
    exts = [full[0]] + [inner[i] for i in keep] + [full[-1]]
    spare = [inner[i] for i in range(len(inner)) if i not in keep]
    listing, _, mode = arrange(rng, exts)
    steps, cur = [], [list(e) for e in listing]
    for _ in range(rng.choice([1, 1, 2])):
        s = [frozenset(e) for e in cur]
        top = max(range(len(s)), key=lambda i: len(s[i]))
        bot = min(range(len(s)), key=lambda i: len(s[i]))
        cand = [i for i in range(len(cur)) if i not in (top, bot)]
        if not cand:
            break
        i = rng.choice(cand)
        removed = cur[i]
        new = rng.choice(spare) if spare and rng.random() < 0.85 else removed
        if new in spare:
            spare.remove(new)
            spare.append(removed)
        if rng.random() < 0.8:
            steps += [['remove', i], ['add', new]]
            del cur[i]
            cur.append(new)
        else:
            steps += [['add', new], ['remove', i]] if new != removed else [['remove', i], ['add', new]]
            if new != removed:
                cur.append(new)
                del cur[i]
            else:
                del cur[i]
                cur.append(new)
    hist = {'first': rng.choice(['by_spanning_tree', 'by_spanning_tree', 'tree+chains+sweep', 'complete_comparison']),
            'steps': steps, 'between': rng.choice(['none', 'none', 'none', 'call'])}
    op = rng.choice([6, 6, 1, 2, 3, 0, 7])
    if op == 7:
        op = 6
    return _mk(table, listing, False, op, kind='%s/history/%s' % (kind, mode), list_history=hist)


SEQ_OPS = [0, 0, 1, 2, 3, 4, 4, 5, 6, 6, 7, 8, 8, 9, 9]


def generate(rng, tier):
    cases = []
    ex = list(exhaustive_cases())
    if tier == 'thorough':
        cases += ex
        n_seq, n_thr, n_sw, dim, max_n = 12000, 900, 60, 6, 24
    else:
        cases += rng.sample(ex, 300)
        n_seq, n_thr, n_sw, dim, max_n = 1300, 56, 4, 5, 14
    for k in range(n_seq):
        cases.append(history_case(rng, dim, max_n) if k % 9 == 4 else random_case(rng, dim, max_n, SEQ_OPS))
    thr = []
    for k in range(n_thr + n_sw):
        # threaded: parallel sweep (given chains or the library's), by_spanning_tree, a few complete_comparison
        c = random_case(rng, dim, max_n, [5, 5, 5, 6, 6, 0], threaded=True, switch=(k >= n_thr))
        thr.append(c)
    # spread the expensive threaded runs over the whole list (the pool works on chunks of 100)
    step = max(1, len(cases) // max(1, len(thr)))
    out = []
    it = iter(thr)
    for i, c in enumerate(cases):
        out.append(c)
        if i % step == step - 1:
            nxt = next(it, None)
            if nxt is not None:
                out.append(nxt)
    out.extend(it)
    return out


# ------------------------------------------------------------------ statistics / shrinking

def nontrivial(case):
    s = [frozenset(e) for e in current_exts(case, ['err'])]
    n = len(s)
    if n < 5:
        return False
    incomparable = any(not (s[i] <= s[j] or s[j] <= s[i]) for i in range(n) for j in range(i))
    cov = covers_py(current_exts(case, ['err']))
    noncover = any(s[j] < s[i] and j not in cov[i] for i in range(n) for j in range(n))
    return incomparable and noncover


def stats(case):
    n = len(case['exts'])
    d = {'op': OPS[case['op']], 'n_concepts': n if n < 10 else '%d-%d' % (n // 5 * 5, n // 5 * 5 + 4),
         'flag': case['sorted'], 'n_jobs': case['n_jobs'], 'kind': case.get('kind', '').split('/', 1)[-1],
         'chains': 'given' if case.get('chains') else 'library', 'switchinterval': bool(case.get('switch'))}
    if case['sorted']:
        sup = [len(e) for e in case['exts']]
        d['flagged listing'] = ('support non-increasing' if all(sup[i] >= sup[i + 1] for i in range(len(sup) - 1))
                                else 'topological, supports go up and down')
    if case.get('list_history'):
        d['list history'] = 'first %s, in-place edits, then %s' % (case['list_history']['first'], OPS[case['op']])
    if case['op'] in (8, 9):
        d['calling mode'] = case.get('mode') or 'inplace'
        full = case['exts'] + ([case['new']] if case.get('new') is not None else [])
        d['add/remove order'] = 'graded' if is_graded(full) else 'non-graded'
    if case['n_jobs'] > 1 and case['op'] in (5, 6):
        cnt = len(case['chains']) if case.get('chains') else predicted_chain_count(case['exts'], case['sorted'])
        d['chains_mod_jobs'] = 'multiple' if cnt % case['n_jobs'] == 0 else 'not a multiple'
        d['chains(threaded)'] = cnt if cnt < 6 else '6+'
    return d


def shrink(case):
    out = []
    if case.get('list_history'):
        return out
    exts = case['exts']
    n = len(exts)
    if case['op'] in (8, 9) or n <= 2:
        cands = []
    else:
        s = [frozenset(e) for e in exts]
        top = max(range(n), key=lambda i: len(s[i]))
        bot = min(range(n), key=lambda i: len(s[i]))
        cands = [i for i in range(n) if i not in (top, bot)]
    for i in cands:
        c = dict(case)
        c['exts'] = exts[:i] + exts[i + 1:]
        if case.get('chains'):
            c['chains'] = None
        if c['sorted'] or True:
            out.append(c)
    if case['n_jobs'] > 2:
        c = dict(case)
        c['n_jobs'] = case['n_jobs'] - 1
        out.append(c)
    if case.get('switch'):
        c = dict(case)
        c['switch'] = False
        out.append(c)
    return out

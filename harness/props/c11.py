"""C11 — semilattices and lattices keep a unique top/bottom; incremental equals batch."""
import itertools
from harness.core import coq, Raw, guarded
from harness import posetlib as PL

ID = 'C11'
COQ_IMPORTS = ['FCA.Corr.C11']
CASE_TYPE = 'c11_case'
COQ_HEADER = 'Set Printing Width 1000000.\n'   # Coq wraps long result lists; core's pair regex does not survive a wrap
CHECK = 'c11_check'
SHOW = 'c11_show'
SHARD = 150
RULE = ('case = (relation matrix, class in {UpperSemiLattice, LowerSemiLattice, Lattice, ConceptLattice}, '
        'initial element list, cache flag, optional true children_dict, history of calls including calls '
        'that must be refused); compared after every call: output / exception kind, object unchanged after '
        'a refusal; at the end all queries, top/bottom, elements.  Concept level: all non-extreme concepts '
        'of a random context added to ConceptLattice([top, bottom]) in a random order, compared (==) with '
        'the lattice built at once, then removed in a random order.  Non-trivial = at least one accepted '
        'and one refused call, or a concept-level case with >= 2 inner concepts')
KINDS = {'U': 'KUpper', 'L': 'KLower', 'B': 'KLattice'}


def has_ext(kind, up):
    return kind == 'B' or (kind == 'U' and up) or (kind == 'L' and not up)


# ------------------------------------------------------------------ the meaning, for generation
def extremes(m, cur, up):
    n = len(cur)
    return [i for i in range(n)
            if not any(j != i and (m[cur[i]][cur[j]] if up else m[cur[j]][cur[i]]) for j in range(n))]


def ctor_ok(m, kind, cur):
    return len(cur) > 0 and all(len(extremes(m, cur, up)) == 1 for up in (True, False) if has_ext(kind, up))


def sim(m, kind, cur, op):
    """(new element list, refused?) of one mutation on a structure that satisfies ctor_ok."""
    ext = {up: extremes(m, cur, up)[0] for up in (True, False) if has_ext(kind, up)}
    k = op[0]
    if k == 'add':
        e = op[1]
        for up, t in ext.items():
            x = cur[t]
            if not (m[e][x] or m[x][e]):
                return cur, True
        return (cur if e in cur else cur + [e]), False
    if k == 'del':
        if op[1] in ext.values():
            return cur, True
        return cur[:op[1]] + cur[op[1] + 1:], False
    if k == 'rm':
        if op[1] not in cur or cur.index(op[1]) in ext.values():
            return cur, True
        i = cur.index(op[1])
        return cur[:i] + cur[i + 1:], False
    return cur, False


# ------------------------------------------------------------------ implementation
def _listing(case, k):
    """The order in which the extent of concept #k is listed when the object is (re-)created."""
    return list(case.get('listing', {}).get('perm', {}).get(str(k), case['extents'][k]))


def _concept_objects(case, only=None):
    """Concept objects of the case, built by the direct constructor or by
    FormalConcept.from_objects(listing, K, is_extent=True); for a random subset of the concepts the
    extent is listed in a permuted (not ascending) order."""
    from fcapy.lattice.formal_concept import FormalConcept
    mode = case.get('listing', {}).get('mode', 'ctor')
    K = None
    if mode == 'from_objects' or only is not None:
        from fcapy.context import FormalContext
        K = FormalContext(data=[list(r) for r in case['table']])
    objs = {}
    for k, (ext, itn) in enumerate(zip(case['extents'], case['intents'])):
        if only is not None and k not in only:
            continue
        lst = _listing(case, k)
        if K is not None:
            objs[k] = FormalConcept.from_objects(lst, K, is_extent=True)
        else:
            objs[k] = FormalConcept(tuple(lst), tuple('g%d' % g for g in lst),
                                    tuple(itn), tuple('m%d' % a for a in itn))
    return objs


def run_impl(case):
    def go():
        from fcapy.poset import POSet, UpperSemiLattice, LowerSemiLattice, Lattice
        m = case['matrix']
        init = list(case['init'])
        enc = dec = mk_other = None
        ops = case['ops']
        if case.get('level') == 'fromctx':
            # start state = ConceptLattice.from_context (default = Lindig, CbO, Sofia); the element
            # order is whatever the construction yields, so it is part of the outcome
            from fcapy.context import FormalContext
            from fcapy.lattice import ConceptLattice
            K = FormalContext(data=[list(r) for r in case['table']])
            kw = {} if case['algo'] is None else {'algo': case['algo']}
            ckw = dict(case.get('ctx_kwargs') or {})      # pruning parameters (min_supp, L_max)
            ids = {tuple(e): k for k, e in enumerate(case['extents'])}
            key = lambda c: tuple(sorted(c.extent_i))     # noqa
            try:
                p = ConceptLattice.from_context(K, **kw, **ckw)
            except Exception as e:  # noqa
                # from_context refused: hand the concept list of the same miner to the model, which
                # says whether the batch constructor accepts it (unique top and bottom)
                try:
                    from fcapy.algorithms import concept_construction as cca
                    cl = ConceptLattice.sort_concepts(cca.sofia(K, **ckw) if case['algo'] == 'Sofia'
                                                      else cca.close_by_one(K))
                    lst = [ids.get(key(c), 900 + i) for i, c in enumerate(cl)]
                except Exception:  # noqa
                    lst = [len(case['extents']) - 1, 0]
                return [PL.out_term(PL._x(e)), '[]', '[]', lst, []]
            objs = {ids.get(key(c), 900 + i): c for i, c in enumerate(p.elements)}
            init = [ids.get(key(c), 900 + i) for i, c in enumerate(p.elements)]
            # some concepts are handed over as re-created, equal objects with a permuted extent listing
            perm = [int(x) for x in case.get('listing', {}).get('perm', {})]
            absent = [x for x in range(len(case['extents'])) if x not in init]
            objs.update(_concept_objects(case, only=set(perm) | set(absent)))
            if case.get('seed') is not None:
                # a pruned concept family: the history is drawn here, once the family is known
                import random
                ops = ctx_history(random.Random(case['seed']), case['matrix'], init)
            elif sorted(init) != list(range(len(case['extents']))):
                ops = []                                  # not the full concept set: no history
            enc = lambda e: objs[e]                       # noqa
            dec = lambda o: ids.get(tuple(sorted(o.extent_i)), 999)   # noqa
            mk_other = lambda els, oc: ConceptLattice(els)   # noqa
            leq = None
        elif case.get('level') == 'concept':
            from fcapy.lattice import ConceptLattice
            objs = _concept_objects(case)
            ids = {tuple(e): k for k, e in enumerate(case['extents'])}
            enc = lambda e: objs[e]                      # noqa
            dec = lambda o: ids[tuple(sorted(o.extent_i))]   # noqa
            mk_other = lambda els, oc: ConceptLattice(els)   # noqa
            leq = None
            try:
                p = ConceptLattice([enc(e) for e in init])
            except Exception as e:  # noqa
                return [PL.out_term(PL._x(e)), '[]', '[]']
        else:
            leq = lambda a, b: m[a][b]   # noqa
            cls = {'U': UpperSemiLattice, 'L': LowerSemiLattice, 'B': Lattice}[case['kind']]
            if case.get('tree'):               # BinaryTree: an UpperSemiLattice whose elements form a binary tree
                from fcapy.poset.tree import BinaryTree
                cls = BinaryTree
            cd = PL.true_children(m, init) if case.get('cd') and case['cache'] else None
            try:
                p = cls(init, leq, use_cache=case['cache'], children_dict=cd)
            except Exception as e:  # noqa
                return [PL.out_term(PL._x(e)), '[]', '[]']
        outs = []
        for o in ops:
            before = PL.snapshot(p)
            r = PL.apply_op(p, o, leq, POSet, enc, dec, mk_other)
            if r[0] == 'x' and PL.snapshot(p) != before:
                r = ['x', 99]                          # refused, but the object changed
            outs.append(r)
        extra = [['top']] if has_ext(case['kind'], True) else []
        extra += [['bot']] if has_ext(case['kind'], False) else []
        res = ['ONone', PL.outs_term(outs), PL.outs_term(PL.run_final(p, leq, POSet, extra, enc, dec))]
        if case.get('level') == 'fromctx':
            res += [init, ops]
        return res
    r = guarded(go, timeout_s=30)
    return list(r)


def to_coq(case, out):
    m = case['matrix']
    cd = None
    if case.get('cd') and case.get('level') != 'concept':
        cd = sorted(PL.true_children(m, case['init']).items())
    init, ops = list(case['init']), case['ops']
    if out[0] == 'ok':
        ctor, steps, fin = out[1][:3]
        if case.get('level') == 'fromctx':
            init, ops = out[1][3], out[1][4]
    else:
        ctor, steps, fin = PL.out_term(['x', PL.ERR_KINDS.get(out[1], 11)]), '[]', '[]'
    return 'Build_c11_case %s %s %s %s %s %s %s %s %s' % (
        coq(m), KINDS[case['kind']], coq(init), PL.b(case['cache']), PL.cache_term(cd),
        PL.sl_ops_term(ops), ctor, steps, fin)


# ------------------------------------------------------------------ generation
def sl_queries(rng, kind, n, cur, k_all):
    qs = PL.random_queries(rng, n, cur, k_all)
    if rng.random() < 0.3:
        ups = [up for up in (True, False) if has_ext(kind, up)]
        qs.append(['top'] if rng.choice(ups) else ['bot'])
    if rng.random() < 0.15:
        qs.append(['ex', rng.random() < 0.5])
    return qs


def sl_mutation(rng, m, kind, cur, k_all):
    """A mutation drawn with a deliberate share of calls that must be refused."""
    n = len(cur)
    absent = [x for x in range(k_all) if x not in cur]
    ext = [extremes(m, cur, up)[0] for up in (True, False) if has_ext(kind, up)]
    r = rng.random()
    if r < 0.30:                                   # the refused stream
        choices = []
        bad = [e for e in absent if sim(m, kind, cur, ['add', e, True])[1]]
        if bad:
            choices += [['add', rng.choice(bad), rng.random() < 0.7]] * 3
        choices += [['del', rng.choice(ext)], ['rm', cur[rng.choice(ext)]]]
        if absent:
            choices.append(['rm', rng.choice(absent)])
        return rng.choice(choices)
    good = [e for e in absent if not sim(m, kind, cur, ['add', e, True])[1]]
    if r < 0.65 and good:
        return ['add', rng.choice(good), rng.random() < 0.7]
    if r < 0.70:
        return ['add', rng.choice(cur), rng.random() < 0.5]
    inner = [i for i in range(n) if i not in ext]
    if inner:
        i = rng.choice([inner[0], inner[-1], rng.choice(inner)])
        return ['del', i] if rng.random() < 0.6 else ['rm', cur[i]]
    if good:
        return ['add', rng.choice(good), True]
    return ['len']


def sl_history(rng, m, kind, init, max_ops, cache):
    k_all = len(m)
    ops, cur = [], list(init)
    while len(ops) < max_ops:
        ops += sl_queries(rng, kind, len(cur), cur, k_all)
        if len(ops) >= max_ops:
            break
        for _ in range(rng.choice([1, 1, 2])):
            o = sl_mutation(rng, m, kind, cur, k_all)
            cur, _ = sim(m, kind, cur, o)
            ops.append(o)
        if cache and rng.random() < 0.05:
            ops.append(['fill', rng.randrange(6)])
    return ops[:max_ops]


def poset_case(rng, max_ops):
    kind = rng.choice(['U', 'L', 'B', 'B'])
    for _ in range(50):
        if rng.random() < 0.6:
            m, okind = PL.order_bounded(rng, rng.randint(2, 8))
        else:
            m, okind = PL.random_order(rng)
        k = len(m)
        init = rng.sample(range(k), rng.randint(1, k))
        if okind == 'bounded' and rng.random() < 0.8:
            init = [x for x in init if x > 1]
            init.insert(rng.randint(0, len(init)), 0)
            init.insert(rng.randint(0, len(init)), 1)
            if rng.random() < 0.5:                       # leave room for a new extreme element
                drop = rng.choice([0, 1])
                if ctor_ok(m, kind, [x for x in init if x != drop]):
                    init = [x for x in init if x != drop]
        if ctor_ok(m, kind, init):
            break
    cache = rng.random() < 0.8
    cd = cache and rng.random() < 0.2
    ops = sl_history(rng, m, kind, init, rng.randint(3, max_ops), cache) if ctor_ok(m, kind, init) else []
    return {'matrix': m, 'kind': kind, 'init': init, 'cache': cache, 'cd': cd, 'ops': ops,
            'level': 'poset', 'okind': okind}


def tree_case(rng, max_ops):
    """A history on a BinaryTree object (class UpperSemiLattice in model and spec).  Carriers: the
    nodes of a random full binary tree (descendant <= ancestor), one carrier above the root, one
    below a leaf, one incomparable with everything.  The element sets and inserts are chosen so
    that BinaryTree's own refusals (constructor: 0 or 2 children; add: two upper neighbours) never
    apply; what remains must behave as the upper semilattice it is: inserts beside the root are
    refused, an insert above the root becomes the new top."""
    t = rng.choice([1, 3, 3, 5, 5, 7])
    parent, leaves, nxt = {}, [0], 1
    while nxt < t:
        l = leaves.pop(rng.randrange(len(leaves)))
        for c in (nxt, nxt + 1):
            parent[c] = l
            leaves.append(c)
        nxt += 2
    edges = [(c, q) for c, q in parent.items()]
    above, below, iso = t, t + 1, t + 2
    edges += [(0, above), (below, rng.choice(leaves))]
    m = PL.closure(t + 3, edges)
    init = list(range(t))
    rng.shuffle(init)
    cache = rng.random() < 0.8
    cur, ops = list(init), []

    def do(o):
        nonlocal cur
        ops.append(o)
        cur = list(sim(m, 'U', cur, o)[0])
    n_ops = rng.randint(3, max_ops)
    while len(ops) < n_ops:
        top = cur[extremes(m, cur, True)[0]]
        absent = [x for x in range(t + 3) if x not in cur]
        r = rng.random()
        fill = rng.random() < 0.6
        if r < 0.2 and iso in absent:
            do(['add', iso, fill])                                   # beside the root: refused
        elif r < 0.4 and above in absent:
            do(['add', above, fill])                                 # above the root: the new top
        elif r < 0.5 and absent:
            do(['add', rng.choice(absent), fill])
        elif r < 0.6:
            do(['add', rng.choice([top, rng.choice(cur)]), fill])    # present element
        elif r < 0.78:
            do(['del', rng.randrange(len(cur))])
        elif r < 0.93:
            do(['rm', rng.choice(cur)])
        else:
            do(['rm', rng.choice(absent)] if absent else ['len'])
        ops.extend(sl_queries(rng, 'U', len(cur), cur, t + 3)[:rng.randint(0, 2)])
        if rng.random() < 0.5:
            ops.append(rng.choice([['top'], ['ex', True], ['ex', False]]))
    return {'matrix': m, 'kind': 'U', 'init': init, 'cache': cache, 'cd': False, 'ops': ops,
            'level': 'poset', 'okind': 'binary-tree', 'tree': True}


def ctor_refusal_case(rng):
    kind = rng.choice(['U', 'L', 'B'])
    for _ in range(100):
        m, okind = PL.random_order(rng)
        k = len(m)
        init = rng.sample(range(k), min(k, rng.choice([0, 0, 2, 3, rng.randint(0, k)])))
        if not ctor_ok(m, kind, init):
            break
    return {'matrix': m, 'kind': kind, 'init': init, 'cache': rng.random() < 0.7,
            'cd': bool(init) and rng.random() < 0.2, 'ops': [], 'level': 'poset', 'okind': 'ctor-refused'}


def closed_extents(table):
    h, w = len(table), len(table[0])
    rows = [frozenset(j for j in range(w) if table[i][j]) for i in range(h)]
    exts = set()
    for bits in itertools.product([False, True], repeat=w):
        B = frozenset(j for j in range(w) if bits[j])
        exts.add(tuple(i for i in range(h) if B <= rows[i]))
    exts = sorted(exts, key=lambda e: (len(e), e))
    ints = [sorted(set(range(w)).intersection(*[rows[i] for i in e])) if e else list(range(w)) for e in exts]
    return exts, ints


def graded(m):
    """Is the order given by matrix m graded (all maximal chains between two elements equally long)?
    Checked through: every cover step raises the length of the longest chain from the bottom by one."""
    k = len(m)
    below = [[j for j in range(k) if j != i and m[j][i]] for i in range(k)]
    rank = {}
    for i in sorted(range(k), key=lambda i: len(below[i])):
        rank[i] = 1 + max([rank[j] for j in below[i]], default=-1)
    for i in range(k):
        for j in below[i]:
            if not any(x != j and m[j][x] for x in below[i]) and rank[i] != rank[j] + 1:
                return False
    return True


def concept_case(rng, max_concepts, min_concepts=3, dim=4, want_nongraded=False):
    from harness import gen
    for _ in range(400):
        t, tk = gen.random_table(rng, dim, dim, min_h=max(1, dim - 2), min_w=max(1, dim - 2))
        exts, ints = closed_extents(t)
        if min_concepts <= len(exts) <= max_concepts:
            if not want_nongraded or not graded([[set(a) <= set(b) for b in exts] for a in exts]):
                break
    k = len(exts)
    m = [[set(a) <= set(b) for b in exts] for a in exts]
    top, bot = k - 1, 0                                      # all objects / the least extent
    inner = [x for x in range(k) if x not in (top, bot)]
    order = list(inner)
    rng.shuffle(order)
    cur = [top, bot]
    ops = []
    for e in order:
        ops.append(['add', e, rng.random() < 0.85])
        cur = cur + [e]
        if rng.random() < 0.4:
            ops += [q for q in sl_queries(rng, 'B', len(cur), cur, k) if q[0] != 'eq'][:2]
    batch = [top, bot] + order
    ops.append(['eq', batch, True])
    perm = list(batch)
    rng.shuffle(perm)
    ops.append(['eq', perm, True])
    ops += [['top'], ['bot']]
    rem = list(order)
    rng.shuffle(rem)
    rem = rem[:rng.randint(0, len(rem))]
    for e in rem:
        r = rng.random()
        if r < 0.15:
            ops.append(rng.choice([['rm', top], ['rm', bot], ['del', 0], ['del', 1]]))   # refused
        if rng.random() < 0.5:
            ops.append(['rm', e])
        else:
            ops.append(['del', cur.index(e)])
        cur = [x for x in cur if x != e]
        if rng.random() < 0.4:
            ops += [q for q in sl_queries(rng, 'B', len(cur), cur, k) if q[0] != 'eq'][:2]
    rest = list(cur)
    rng.shuffle(rest)
    ops.append(['eq', rest, True])
    return {'matrix': m, 'kind': 'B', 'init': [top, bot], 'cache': True, 'cd': False, 'ops': ops,
            'level': 'concept', 'extents': [list(e) for e in exts], 'intents': ints,
            'table': t, 'okind': 'concepts' if k < 10 else ('concepts-large-graded' if graded(m) else
                                                             'concepts-large-nongraded')}


def ctx_history(rng, m, init):
    """History on a lattice whose concept family `init` (carrier ids in the object's order) became
    known only at run time: first == against the batch lattice of the SAME concept list, then
    removals, re-insertions, insertions of concepts the pruning left out, queries."""
    k = len(m)
    cur = list(init)
    ops = [['eq', list(init), True], ['top'], ['bot']]
    out = []

    def do(o):
        nonlocal cur
        ops.append(o)
        cur = list(sim(m, 'B', cur, o)[0])          # the cache-free meaning, refusals included
    for _ in range(rng.randint(2, 5)):
        ext = {cur[extremes(m, cur, up)[0]] for up in (True, False)}
        inner = [x for x in cur if x not in ext]
        out = [x for x in out if x not in cur]
        absent = [x for x in range(k) if x not in cur and x not in out]
        r = rng.random()
        if r < 0.1:
            do(['rm', rng.choice(sorted(ext))])                          # refused
        elif r < 0.55 and inner:
            e = rng.choice(inner)
            do(['rm', e] if rng.random() < 0.6 else ['del', cur.index(e)])
            out.append(e)
        elif r < 0.8 and out:
            do(['add', out.pop(rng.randrange(len(out))), rng.random() < 0.5])
        elif absent:
            do(['add', rng.choice(absent), rng.random() < 0.6])          # a concept the pruning left out
        n = len(cur)
        for _ in range(rng.randint(0, 2)):
            i = rng.randrange(n)
            ops.append(rng.choice([['cv', True, i], ['cv', False, i], ['cl', True, i], ['cl', False, i],
                                   ['leq', i, rng.randrange(n)]]))
    ops += [['ex', True], ['ex', False], ['top'], ['bot']]
    return ops


def pruned_case(rng):
    """from_context with pruning parameters (Sofia with a support threshold and/or a binding
    L_max): the concept family is in general not closed under intersection."""
    base = concept_case(rng, 16, min_concepts=5, dim=rng.choice([4, 5, 6]))
    k = len(base['matrix'])
    ckw = {}
    if rng.random() < 0.8:
        ckw['min_supp'] = rng.choice([1, 2, 2, 3, 0.3])
    if rng.random() < 0.4 or not ckw:
        ckw['L_max'] = rng.choice([3, 4, 5, 6])
    return {'matrix': base['matrix'], 'kind': 'B', 'init': list(range(k)), 'cache': True, 'cd': False,
            'ops': [], 'level': 'fromctx', 'algo': 'Sofia', 'ctx_kwargs': ckw, 'seed': rng.randrange(2 ** 30),
            'table': base['table'], 'extents': base['extents'], 'intents': base['intents'],
            'okind': 'from_context-pruned'}


def add_listing(rng, case):
    """A random subset of the concepts is (re-)created with a permuted extent listing."""
    perm = {}
    for k, ext in enumerate(case['extents']):
        if len(ext) >= 2 and rng.random() < 0.5:
            l = list(ext)
            while l == list(ext):
                rng.shuffle(l)
            perm[str(k)] = l
    case['listing'] = {'mode': rng.choice(['ctor', 'from_objects']) if case['level'] == 'concept' else 'from_objects',
                       'perm': perm}
    return case


def fromctx_case(rng, big):
    """Start from ConceptLattice.from_context (default algorithm = Lindig, CbO or Sofia), then a
    history of removals and re-insertions (with and without cache filling, which drops the
    relation caches) and queries; everything is compared with the cache-free meaning on the current
    concept set, i.e. with the lattice built at once.  Indexes are only used for queries: the
    element order is the construction's."""
    base = concept_case(rng, 16, min_concepts=10, dim=6, want_nongraded=rng.random() < 0.5) if big \
        else concept_case(rng, 9, min_concepts=4, dim=4)
    m, k = base['matrix'], len(base['matrix'])
    top, bot = k - 1, 0
    cur = list(range(k))
    inner = [x for x in cur if x not in (top, bot)]
    ops, out = [], []
    def queries(cnt):
        return [q for q in sl_queries(rng, 'B', len(cur), cur, k) if q[0] not in ('eq', 'del')][:cnt]
    for _ in range(rng.randint(2, 5)):
        present = [x for x in inner if x in cur]
        r = rng.random()
        if r < 0.1:
            ops.append(rng.choice([['rm', top], ['rm', bot]]))           # refused
        if present and (r < 0.7 or not out):
            e = rng.choice(present)
            ops.append(['rm', e])
            cur.remove(e)
            out.append(e)
            ops += queries(rng.randint(0, 2))
        if out and rng.random() < 0.8:
            e = out.pop(rng.randrange(len(out)))
            ops.append(['add', e, rng.random() < 0.5])
            cur.append(e)
            ops += queries(rng.randint(1, 3))
    ops += [['ex', True], ['ex', False], ['top'], ['bot']]
    perm = list(cur)
    rng.shuffle(perm)
    perm.remove(top); perm.remove(bot)
    ops.append(['eq', [top, bot] + perm, True])
    return {'matrix': m, 'kind': 'B', 'init': list(range(k)), 'cache': True, 'cd': False, 'ops': ops,
            'level': 'fromctx', 'algo': rng.choice([None, None, 'CbO', 'Sofia']), 'table': base['table'],
            'extents': base['extents'], 'intents': base['intents'],
            'okind': 'from_context-%s' % ('large' if big else 'small')}


def generate(rng, tier):
    cases = []
    if tier == 'thorough':
        n_hist, n_ctor, n_conc, max_ops, max_conc, n_big = 34000, 3000, 5000, 30, 12, 1200
        n_ctx = 4000
    else:
        n_hist, n_ctor, n_conc, max_ops, max_conc, n_big = 1100, 150, 220, 12, 8, 40
        n_ctx = 200
    for _ in range(n_hist):
        cases.append(poset_case(rng, max_ops))
    for _ in range(n_ctor):
        cases.append(ctor_refusal_case(rng))
    for _ in range(n_hist // 6):
        cases.append(tree_case(rng, max_ops))
    def listed(c):                # half of the concept-level cases use permuted extent listings
        return add_listing(rng, c) if rng.random() < 0.5 else c
    for _ in range(n_conc):
        cases.append(listed(concept_case(rng, max_conc)))
    for i in range(n_ctx):        # start states built by from_context, < 10 and >= 10 concepts
        cases.append(listed(fromctx_case(rng, big=(i % 4 == 3))))
    for i in range(n_ctx // 2):   # from_context with pruning parameters (non-intersection-closed families)
        cases.append(listed(pruned_case(rng)))
    for i in range(n_big):        # larger lattices: 10-16 concepts, two thirds of them not graded
        cases.append(listed(concept_case(rng, 16, min_concepts=10, dim=6, want_nongraded=(i % 3 != 0))))
    return cases


# ------------------------------------------------------------------ evidence
def _refusals(case):
    if not ctor_ok(case['matrix'], case['kind'], case['init']):
        return 0, 0
    cur, acc, ref = list(case['init']), 0, 0
    for o in case['ops']:
        if PL.is_mutation(o):
            cur, refused = sim(case['matrix'], case['kind'], cur, o)
            ref += refused
            acc += not refused
    return acc, ref


def nontrivial(case):
    if case.get('level') in ('concept', 'fromctx'):
        return len(case['matrix']) >= 4
    acc, ref = _refusals(case)
    return acc >= 1 and ref >= 1


def stats(case):
    acc, ref = _refusals(case)
    return {'class': ('BinaryTree' if case.get('tree') else case['kind']) if case.get('level') not in ('concept', 'fromctx') else
            ('ConceptLattice' if case.get('level') == 'concept' else 'ConceptLattice.from_context(%s%s)' % (
                case.get('algo'), ', pruned' if case.get('ctx_kwargs') else '')),
            'has_nofill_readd': any(o[0] == 'add' and not o[2] for o in case['ops']),
            'extent_listing': (case['listing']['mode'] + ('-permuted' if case['listing']['perm'] else '')) if case.get('listing') else 'ascending',
            'order': case.get('okind', ''), 'carriers': len(case['matrix']), 'cache': case['cache'],
            'children_dict': bool(case.get('cd')),
            'ctor': 'ok' if ctor_ok(case['matrix'], case['kind'], case['init']) else 'refused',
            'accepted_mutations': min(acc, 9), 'refused_mutations': min(ref, 9)}


def shrink(case):
    out = PL.shrink_history(case)
    out = [c for c in out if not ctor_ok(c['matrix'], c['kind'], c['init']) or _valid(c)]
    if case.get('cd'):
        c = dict(case)
        c['cd'] = False
        out.append(c)
    return out


def _valid(case):
    """indices in range along the (spec) evolution of the element list."""
    m, kind, cur = case['matrix'], case['kind'], list(case['init'])
    for o in case['ops']:
        if not PL.history_valid(cur, [o], len(m)):
            return False
        if PL.is_mutation(o):
            cur, _ = sim(m, kind, cur, o)
    return True

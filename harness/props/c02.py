"""C02 — every exact lattice construction returns precisely the set of all formal concepts, each
once, with index and name views that denote the same sets."""
from harness.core import coq, some, Raw, guarded, canon, ERR_KINDS
from harness import gen

ID = 'C02'
COQ_IMPORTS = ['FCA.Corr.C02']
CASE_TYPE = 'c02_case'
CHECK = 'c02_check'
SHOW = 'c02_show'
SHARD = 250
RULE = ('cases = (table, back-end, algorithm run); runs = from_context default / CbO / Lindig with '
        'iterate_extents True, False, None / Sofia with L_max >= number of concepts, the three CbO generators '
        '(yielded sequence compared exactly), sofia() and lindig_algorithm() called directly, '
        'FormalConcept.from_objects by index and by name; plus the LATTICE from_context returns (listing order, '
        'children / parents / descendants / ancestors of every index, cached top / bottom) for the default, CbO, '
        'Lindig in both directions and Sofia, compared with the end-to-end model and with the inclusion-order spec; '
        'the CbO sequences are also compared with the literal explicit-stack model; '
        'contexts with homonymous objects / attributes (name views = position-wise images of the index views); '
        'a rename-history stream (context built under other names, warm-up construction, names re-assigned through '
        'the public setters, construction under test on the same object, judged against the model of the final '
        'context); every result is compared with the Coq model and, '
        'independently, with the 2^n closure enumeration concepts_spec; '
        'non-trivial = the table has >= 4 concepts and two objects with equal or nested rows')
EXHAUSTIVE = {'thorough': 'all boolean tables of shape h x w with h, w <= 4 and h*w <= 12 (incl. 3x4 and 4x3): '
                          'every table x {from_context CbO, the three CbO generators, sofia()}; the other eight '
                          'runs (from_context default / Lindig x3 / Sofia, lindig_algorithm x3) on every table '
                          'with h*w < 12 and rotated two per table on the 3x4 / 4x3 tables; one of the five '
                          'lattice runs per table, rotated; back-ends rotated'}
ASSUMPTIONS = [
    'tables have at least one row and one column; object / attribute names may repeat (about 30% of the named '
    'cases have homonymous objects and/or attributes): name views must be the position-wise images of the index '
    'views; from_objects by name resolves a homonymous name to its first occurrence (object_names.index), as '
    'modelled; the argument of from_objects never lists the same name twice (it is a set)',
    "Sofia is run with min_supp = 0 and L_max >= the number of concepts (the generator's own count), "
    'half of the time exactly equal to it',
    "sort_concepts / the POSet built by from_context are not compared (from_context results are compared "
    "as duplicate-free sets); the skmine-based 'LCM' is left out (broken by the environment)",
    'Lindig paths are run only on tables with <= 200 concepts (ConceptLattice construction is super-linear)',
]
TRUSTED_EXTRA = [
    'Model/ConceptConstruction.v: the LIFO-stack DFS of the two CbO generators is transcribed as a pre-order '
    'structural recursion (tied to the code by exact comparison of the yielded sequence on every case)',
    'Python set iteration order in Lindig / Sofia is a parameter of the model (theorems hold for every order); '
    'those listings are compared as multisets',
]
BACKENDS = ['BinTableLists', 'BinTableNumpy', 'BinTableBitarray']
COQ_BACKEND = {'BinTableLists': 'BLists', 'BinTableNumpy': 'BNumpy', 'BinTableBitarray': 'BBitarray'}
UNKNOWN = 900

# (algo, iterate_extents)
RUNS13 = [(0, None), (1, None), (2, True), (2, False), (2, None), (3, None), (4, None), (5, None),
                (6, None), (7, None), (8, True), (8, False), (8, None)]
CORE_RUNS = [(1, None), (4, None), (5, None), (6, None), (7, None)]
ROTATED_RUNS = [r for r in RUNS13 if r not in CORE_RUNS]
ALGO_NAMES = {0: 'from_context()', 1: "from_context('CbO')", 2: "from_context('Lindig')",
              3: "from_context('Sofia')", 4: 'close_by_one', 5: 'close_by_one_objectwise',
              6: 'close_by_one_objectwise_fbarray', 7: 'sofia', 8: 'lindig_algorithm',
              9: 'from_objects(idx)', 10: 'from_objects(names)', 11: 'LATTICE from_context()',
              12: "LATTICE from_context('CbO')", 13: "LATTICE from_context('Lindig')",
              14: "LATTICE from_context('Sofia')"}
# the lattice object end to end: listing order, children / parents / descendants / ancestors, top, bottom
LATTICE_RUNS = [(11, None), (12, None), (13, True), (13, False), (14, None)]


def oname(k):
    return 'g%d' % k


def aname(k):
    return 'm%d' % k


def n_concepts(t):
    """Number of closed object sets, by closing {full} under intersection with attribute extents
    (the generator's own count; never taken from the implementation)."""
    n, w = len(t), len(t[0])
    full = (1 << n) - 1
    exts = {full}
    for j in range(w):
        col = sum(1 << i for i in range(n) if t[i][j])
        exts |= {e & col for e in exts}
    return len(exts)


def make_context(case, onames=None, anames=None):
    from fcapy.context import FormalContext
    t = case['table']
    on = case['onames'] if onames is None else onames
    an = case['anames'] if anames is None else anames
    return FormalContext(data=[list(r) for r in t], object_names=[oname(k) for k in on],
                         attribute_names=[aname(k) for k in an], backend=case['backend'])


def _views(c):
    return [canon(c.extent_i), [int(s[1:]) for s in c.extent], canon(c.intent_i), [int(s[1:]) for s in c.intent]]


def construct(K, a, ie, lmax, case):
    """Run construction [a] on the context object K and return what is observed."""
    from fcapy.lattice import ConceptLattice
    from fcapy.lattice.formal_concept import FormalConcept
    from fcapy.algorithms import concept_construction as cca
    if a == 0:
        cs = list(ConceptLattice.from_context(K))
    elif a == 1:
        cs = list(ConceptLattice.from_context(K, algo='CbO'))
    elif a == 2:
        cs = list(ConceptLattice.from_context(K, algo='Lindig', iterate_extents=ie))
    elif a == 3:
        cs = list(ConceptLattice.from_context(K, algo='Sofia', L_max=lmax))
    elif a == 4:
        cs = list(cca.close_by_one(K))
    elif a == 5:
        cs = list(cca.close_by_one_objectwise(K))
    elif a == 6:
        cs = list(cca.close_by_one_objectwise_fbarray(K))
    elif a == 7:
        cs = list(cca.sofia(K, L_max=lmax))
    elif a == 8:
        cs = list(cca.lindig_algorithm(K, iterate_extents=ie))
    elif a == 9:
        cs = [FormalConcept.from_objects(list(case['arg']), K, is_extent=case['flag'])]
    elif a == 10:
        cs = [FormalConcept.from_objects([oname(k) for k in case['arg']], K, is_extent=case['flag'])]
    else:
        kw = {11: {}, 12: {'algo': 'CbO'}, 13: {'algo': 'Lindig', 'iterate_extents': ie},
              14: {'algo': 'Sofia', 'L_max': lmax}}[a]
        L = ConceptLattice.from_context(K, **kw)
        n = len(L)
        rel = [[canon(L.children(i)), canon(L.parents(i)), canon(L.descendants(i)), canon(L.ancestors(i))]
               for i in range(n)]
        return {'concepts': [_views(c) for c in L], 'rel': rel, 'top': canon(L.top), 'bottom': canon(L.bottom)}
    return [_views(c) for c in cs]


def run_impl(case):
    def go():
        hist = case.get('hist')
        if not hist:
            K = make_context(case)
        else:
            # rename history: the context object lived under other names, was mined once (warm-up), and is
            # renamed through the public setters before the construction under test runs on the SAME object
            K = make_context(case, hist['pre_onames'], hist['pre_anames'])
            t = case['table']
            wa, wie = hist['warm']
            construct(K, wa, wie, 2 ** min(len(t), len(t[0])) + 1, case)
            if hist['rename'] in ('objs', 'both'):
                K.object_names = [oname(k) for k in case['onames']]
            if hist['rename'] in ('attrs', 'both'):
                K.attribute_names = [aname(k) for k in case['anames']]
        return construct(K, case['algo'], case['ie'], case['lmax'], case)
    return list(guarded(go, timeout_s=30))


def _idx_list(v):
    return isinstance(v, list) and all(isinstance(x, int) and not isinstance(x, bool) and x >= 0 for x in v)


def _opt(v):
    return 'None' if v is None else '(Some %d)' % v


def lattice_extra(out):
    """(c_rel, c_top, c_bot) terms."""
    if out[0] == 'ok' and isinstance(out[1], dict):
        d = out[1]
        if (isinstance(d['rel'], list) and all(len(r) == 4 and all(_idx_list(f) for f in r) for r in d['rel'])
                and all(v is None or (isinstance(v, int) and v >= 0) for v in (d['top'], d['bottom']))):
            return coq([tuple(r) for r in d['rel']]), _opt(d['top']), _opt(d['bottom'])
        return '[]', '(Some 9999)', 'None'
    return '[]', 'None', 'None'


def impl_term(out):
    if out[0] == 'ok':
        v = out[1]
        if isinstance(v, dict):
            v = v['concepts']
        if not (isinstance(v, list) and all(isinstance(c, list) and len(c) == 4 and all(_idx_list(f) for f in c)
                                            for c in v)):
            return Raw('(IErr 12)')
        return Raw('(IOk [%s])' % '; '.join('mkC %s %s %s %s' % tuple(coq(f) for f in c) for c in v))
    return Raw('(IErr %d)' % ERR_KINDS.get(out[1], 11))


def to_coq(case, out):
    ie = case['ie']
    rel, top, bot = lattice_extra(out)
    return 'Build_c02_case %s %s %s %s %d %s %d %s %s %s %s %s %s' % (
        COQ_BACKEND[case['backend']], coq(case['table']), coq(case['onames']), coq(case['anames']),
        case['algo'], 'None' if ie is None else '(Some %s)' % coq(bool(ie)), case['lmax'],
        coq(case['arg']), coq(bool(case['flag'])), impl_term(out), rel, top, bot)


def _nested_rows(t):
    rows = [frozenset(j for j, v in enumerate(r) if v) for r in t]
    return any(rows[i] <= rows[j] or rows[j] <= rows[i] for i in range(len(rows)) for j in range(i + 1, len(rows)))


def nontrivial(case):
    t = case['table']
    return n_concepts(t) >= 4 and _nested_rows(t)


def stats(case):
    t = case['table']
    h, w = len(t), len(t[0])
    nc = n_concepts(t)
    return {'shape': '%dx%d' % (h, w), 'form': 'tall' if h > w else ('wide' if h < w else 'square'),
            'algo': ALGO_NAMES[case['algo']] + ('' if case['algo'] not in (2, 8, 13) else ' ie=%s' % case['ie']),
            'backend': case['backend'], 'kind': case.get('kind', ''),
            'concepts': nc if nc < 8 else ('8-15' if nc < 16 else ('16-63' if nc < 64 else '>=64')),
            'homonyms': ('objects+attributes' if len(set(case['onames'])) < len(case['onames'])
                         and len(set(case['anames'])) < len(case['anames'])
                         else 'objects' if len(set(case['onames'])) < len(case['onames'])
                         else 'attributes' if len(set(case['anames'])) < len(case['anames']) else 'none'),
            'history': ('none' if not case.get('hist') else
                        'renamed %s after warm-up %s' % (case['hist']['rename'], ALGO_NAMES[case['hist']['warm'][0]])),
            'lmax': ('n/a' if case['algo'] not in (3, 7, 14) else
                     ('= #concepts' if case['lmax'] == nc else '> #concepts'))}


def _mk(backend, t, algo, ie=None, lmax=0, arg=(), flag=False, onames=None, anames=None, kind=''):
    return {'backend': backend, 'table': t, 'onames': onames if onames is not None else list(range(len(t))),
            'anames': anames if anames is not None else list(range(len(t[0]))),
            'algo': algo, 'ie': ie, 'lmax': lmax, 'arg': list(arg), 'flag': bool(flag), 'kind': kind}


def dup_names(rng, ids, p=0.3):
    """With probability p make some of the (distinct) ids coincide: homonymous objects / attributes."""
    ids = list(ids)
    if len(ids) >= 2 and rng.random() < p:
        mode = rng.choice(['pair', 'pair', 'several', 'all'])
        if mode == 'all':
            ids = [ids[0]] * len(ids)
        else:
            for _ in range(1 if mode == 'pair' else rng.randint(2, len(ids))):
                i, j = rng.sample(range(len(ids)), 2)
                ids[j] = ids[i]
    return ids


def has_homonyms(case):
    return len(set(case['onames'])) < len(case['onames']) or len(set(case['anames'])) < len(case['anames'])


def _lmax(rng, t):
    nc = n_concepts(t)
    cap = 2 ** min(len(t), len(t[0]))
    return rng.choice([nc, nc, cap, cap + 1, max(cap, 100), nc + 1])


LATTICE_RUNS_DEFAULT = None
LATTICE_CAP = 24    # set per tier in generate()
LINDIG_CAP = 200   # ConceptLattice(children_dict=...) is super-linear: 512 concepts take minutes


def table_cases(rng, t, kind, runs=LATTICE_RUNS_DEFAULT, n_from_objects=2, rotate=None, names=True, n_lattice=1):
    """All lattice-construction runs on one table (back-ends drawn per run) + from_objects cases."""
    h, w = len(t), len(t[0])
    if runs is None:
        runs = RUNS13
    nc = n_concepts(t)
    lat = list(LATTICE_RUNS)
    if nc > LINDIG_CAP:
        runs = [r for r in runs if r[0] not in (0, 2, 8)]
        lat = [r for r in lat if r[0] not in (11, 13)]
    if nc > LATTICE_CAP:
        lat = []          # the relations of every index against the cubic spec filters: keep lattices small
    k0 = rotate if rotate is not None else rng.randrange(5)
    runs = list(runs) + [lat[(k0 + j) % len(lat)] for j in range(min(n_lattice, len(lat)))]
    onames = dup_names(rng, rng.sample(range(60), h)) if names else list(range(h))
    anames = dup_names(rng, rng.sample(range(60), w)) if names else list(range(w))
    out = []
    for k, (a, ie) in enumerate(runs):
        b = BACKENDS[(rotate + k) % 3] if rotate is not None else rng.choice(BACKENDS)
        out.append(_mk(b, t, a, ie, _lmax(rng, t) if a in (3, 7, 14) else 0, onames=onames, anames=anames, kind=kind))
    for _ in range(n_from_objects):
        b = rng.choice(BACKENDS)
        arg = gen.random_subset(rng, h)
        flag = rng.random() < 0.3
        if rng.random() < 0.5:
            out.append(_mk(b, t, 9, arg=arg, flag=flag, onames=onames, anames=anames, kind=kind))
        else:
            nm = list(dict.fromkeys(onames[i] for i in arg))   # an argument SET: no name twice
            if rng.random() < 0.1:
                nm.insert(rng.randint(0, len(nm)), UNKNOWN + rng.randrange(3))
            out.append(_mk(b, t, 10, arg=nm, flag=flag, onames=onames, anames=anames, kind=kind))
    return out


HIST_RUNS = [(1, None), (4, None), (12, None), (1, None), (4, None), (0, None), (2, True), (2, False), (3, None),
             (5, None), (6, None), (7, None), (8, None), (11, None), (13, False), (14, None)]
WARM_RUNS = [(1, None), (4, None), (1, None), (0, None), (2, False), (3, None), (6, None), (12, None)]


def history_cases(rng, t, kind, n=1):
    """Rename-history stream: the context is built under other names, mined once by a warm-up construction,
    renamed through the public setters (objects only / attributes only / both) and then mined by the case's
    construction on the same object; the judgement is against the (stateless) model of the FINAL context."""
    h, w = len(t), len(t[0])
    nc = n_concepts(t)
    out = []
    for _ in range(n):
        a, ie = rng.choice(HIST_RUNS)
        warm = rng.choice(WARM_RUNS + [(a if a < 9 else 1, ie)])
        if nc > LINDIG_CAP and (a in (0, 2, 8, 11, 13) or warm[0] in (0, 2, 8, 11, 13)):
            a, ie, warm = 4, None, (1, None)
        if nc > LATTICE_CAP and a >= 11:
            a, ie = 1, None
        ids = rng.sample(range(60), 2 * (h + w))
        onames, pre_on = dup_names(rng, ids[:h]), dup_names(rng, ids[h:2 * h])
        anames, pre_an = dup_names(rng, ids[2 * h:2 * h + w]), dup_names(rng, ids[2 * h + w:])
        mode = rng.choice(['objs', 'attrs', 'both', 'both'])
        if mode == 'objs':
            pre_an = anames
        if mode == 'attrs':
            pre_on = onames
        c = _mk(rng.choice(BACKENDS), t, a, ie, _lmax(rng, t) if a in (3, 7, 14) else 0,
                onames=onames, anames=anames, kind=kind)
        c['hist'] = {'pre_onames': pre_on, 'pre_anames': pre_an, 'warm': list(warm), 'rename': mode}
        out.append(c)
    return out


def shaped_tables(rng, n_each, dim):
    """Random tables of forced shape: tall, square, wide."""
    out = []
    for _ in range(n_each):
        for shape in ('tall', 'square', 'wide'):
            a, b = rng.randint(2, dim), rng.randint(2, dim)
            lo, hi = min(a, b), max(a, b)
            h, w = {'tall': (hi + 1, lo), 'square': (lo, lo), 'wide': (lo, hi + 1)}[shape]
            p = rng.choice([0.3, 0.5, 0.7])
            out.append(([[rng.random() < p for _ in range(w)] for _ in range(h)], 'hist-' + shape))
    return out


def scale_tables(max_n):
    """Contranominal (2^n concepts), nominal, ordinal, interordinal-like and degenerate tables."""
    out = []
    for n in range(1, max_n + 1):
        out.append(([[i != j for j in range(n)] for i in range(n)], 'contranominal'))
        out.append(([[i == j for j in range(n)] for i in range(n)], 'nominal'))
        out.append(([[j <= i for j in range(n)] for i in range(n)], 'ordinal'))
    for n in range(2, min(max_n, 6) + 1):
        # tall and wide variants: a scale with duplicated rows / columns
        base = [[i != j for j in range(n)] for i in range(n)]
        out.append((base + [list(base[0]), [True] * n, [False] * n], 'contranominal+dup rows'))
        out.append(([r + [r[0], True, False] for r in base], 'contranominal+dup cols'))
        out.append(([[j <= i for j in range(n)] + [j >= i for j in range(n)] for i in range(n)], 'interordinal'))
        out.append(([[i % 2 == j % 2 for j in range(n)] for i in range(n + 2)], 'blocks'))
    return out


def exhaustive_tables():
    for h in range(1, 5):
        for w in range(1, 5):
            if h * w <= 12:
                for t in gen.all_tables(h, w):
                    yield t


def generate(rng, tier):
    global SHARD, LATTICE_CAP
    SHARD = 600 if tier == 'thorough' else 200     # coqc start-up is ~0.4 s per shard
    LATTICE_CAP = 64 if tier == 'thorough' else 24
    cases = []
    if tier == 'thorough':
        for k, t in enumerate(exhaustive_tables()):
            runs = RUNS13
            if len(t) * len(t[0]) == 12:
                # 3x4 / 4x3 (8192 tables): the five order-deterministic runs on every table, the eight
                # set-compared Lindig / from_context / Sofia variants rotated, two per table
                runs = CORE_RUNS + [ROTATED_RUNS[(2 * k) % 8], ROTATED_RUNS[(2 * k + 1) % 8]]
            cases += table_cases(rng, t, 'exhaustive', runs=runs, n_from_objects=0, rotate=k, names=False)
        for t, kind in scale_tables(9):
            cases += table_cases(rng, t, kind, n_lattice=5)
        n_rand, dims = 1000, [(8, 8)] * 12 + [(10, 6), (6, 10), (9, 9), (10, 10)]
    else:
        ex = list(exhaustive_tables())
        for k, t in enumerate(rng.sample(ex, 90)):
            cases += table_cases(rng, t, 'exhaustive-sample', n_from_objects=0, rotate=k, names=False)
        for t, kind in scale_tables(6):
            cases += table_cases(rng, t, kind, n_from_objects=1, n_lattice=2)
        n_rand, dims = 85, [(6, 6)] * 3 + [(7, 7), (8, 5), (5, 8), (8, 8)]
    for _ in range(n_rand):
        mh, mw = rng.choice(dims)
        t, kind = gen.random_table(rng, mh, mw)
        cases += table_cases(rng, t, kind, n_lattice=2 if tier == 'thorough' else 1)
        cases += history_cases(rng, t, kind, n=2 if tier == 'thorough' else 1)
    for t, kind in shaped_tables(rng, 400 if tier == 'thorough' else 40, 7 if tier == 'thorough' else 6):
        cases += history_cases(rng, t, kind, n=3)
    return cases


def shrink(case):
    out = []
    base = dict(case)
    h, w = len(case['table']), len(case['table'][0])
    if case['algo'] == 10:
        # translate names back to indexes where possible so that rows can be dropped
        pass
    else:
        base['onames'], base['anames'] = list(range(h)), list(range(w))
        for c in gen.shrink_table_case(base, row_keys=('arg',) if case['algo'] == 9 else ()):
            t = c['table']
            c['onames'], c['anames'] = list(range(len(t))), list(range(len(t[0])))
            if c['algo'] in (3, 7, 14):
                c['lmax'] = 2 ** min(len(t), len(t[0]))
            if c['algo'] != 9:
                c['arg'] = []
            if c.get('hist'):
                hh = dict(c['hist'])
                hh['pre_onames'] = ([100 + k for k in c['onames']] if hh['rename'] in ('objs', 'both')
                                    else list(c['onames']))
                hh['pre_anames'] = ([100 + k for k in c['anames']] if hh['rename'] in ('attrs', 'both')
                                    else list(c['anames']))
                c['hist'] = hh
            out.append(c)
    if case.get('hist'):
        c = dict(case)
        c['hist'] = None            # is the history needed at all?
        out.append(c)
        if case['hist']['warm'][0] != 4:
            c = dict(case)
            c['hist'] = dict(case['hist'], warm=[4, None])
            out.append(c)
    if case['algo'] in (9, 10):
        v = case['arg']
        for i in range(len(v)):
            c = dict(case)
            c['arg'] = v[:i] + v[i + 1:]
            out.append(c)
    return out

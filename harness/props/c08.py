"""C08 — concepts are ordered by extent inclusion with consistent equality and hashing; guards
against cross-context / cross-monotonicity comparisons; frozen fields; from_objects = closure.

Case kinds
  cmp      : a list of concepts (selected from the lattices of one or two contexts, formal or
             many-valued, monotone or not, or built by from_objects) and the full matrix of
             == != <= < >= > and hash-equality over ALL ordered pairs; the Coq check compares
             every entry with the model and the spec and checks the order laws on all triples
  fromobj  : FormalConcept.from_objects on a list of object subsets of one context (by index / name)
  pfromobj : PatternConcept.from_objects on interval-valued many-valued contexts (by index and by name)
  pallobj  : PatternConcept.from_objects on contexts over ALL shipped structures (SetPS with empty value
             sets and multi-valued rows, AttributePS, both interval engines), every object subset, against
             the many-valued model and spec of C13/C14
  setattr  : one attribute assignment on a concept
  hash     : FormalContext.hash_fixed against the adler32 model (default decimal names)
"""
import itertools
import random
from fractions import Fraction
from harness.core import coq, Raw, guarded, canon, zlit, ERR_KINDS
from harness import gen

ID = 'C08'
COQ_IMPORTS = ['FCA.Corr.C08']
CASE_TYPE = 'c08_case'
CHECK = 'c08_check'
SHOW = 'c08_show'
SHARD = 60
RULE = ('cmp cases: all ordered pairs (and, for the order laws, all triples) of up to 10/14 concepts taken '
        'from the lattices (plain and monotone) of one or two random contexts, formal (3 back-ends) or '
        'many-valued (IntervalPS/IntervalNumpyPS/SetPS/AttributePS), plus from_objects concepts; streams: '
        'one context, two different contexts, two equal contexts built separately, adler32-colliding contexts '
        '(D18), history (one context object before / after an in-place change through its setters, and a fresh '
        'equal context: different content => refused, equal content => accepted; the stored hash must be the '
        'hash of the content), mining (pattern concepts from both close_by_one paths with from_objects twins and '
        'permuted is_extent selections: == true => equal hash, one set element, one dict key), routes (concepts '
        'of one context from from_objects, close_by_one, close_by_one_objectwise, close_by_one_objectwise_fbarray '
        '(also directly on an MVContext), lindig_algorithm, sofia, random_forest_concepts, ConceptLattice.'
        'from_context with each algo, and read back from dict / json: accepted and ordered across routes, refused '
        'across contexts incl. MVContext vs its binarised FormalContext and K vs the transposed lattice L.T); fromobj cases: every object subset of a context with <= 6 (quick) / 8 (thorough) objects by '
        'index and by name, permuted subsets, listings that repeat objects (shorter than, as long as and longer than the '
        'number of objects), unknown names, is_extent, is_monotone; pallobj cases: every object subset of many-valued contexts mixing SetPS (empty value sets, '
        'multi-valued rows), AttributePS and the two interval engines, with the pattern_types dict listed in '
        'another order than attribute_names (directly, or through a column-reordered slice K[:, cols]); setattr: every public '
        'field; non-trivial = a cmp case with >= 3 concepts of which two are comparable and two are not, or a '
        'fromobj case on a non-constant table')
EXHAUSTIVE = {'thorough': 'from_objects on every object subset of every generated context with <= 8 objects, '
                          'by index and by name; comparisons on all ordered pairs/triples of the selected concepts',
              'quick': ''}
BACKENDS = ['BinTableLists', 'BinTableNumpy', 'BinTableBitarray']
COQ_BACKEND = {'BinTableLists': 'BLists', 'BinTableNumpy': 'BNumpy', 'BinTableBitarray': 'BBitarray'}
PTYPE_ID = {'IntervalPS': 0, 'SetPS': 1, 'AttributePS': 2, 'IntervalNumpyPS': 3}
UNKNOWN = 900

# pairs of different contexts (default names) with the same zlib.adler32 hash_fixed  -- finding D18
COLLIDING_TABLES = [
    [[[False, True, True, False]], [[True, False, False, True]]],
    [[[False, True], [True, False]], [[True, False], [False, True]]],
    [[[False, False, True, True, False]], [[False, True, False, False, True]]],
    [[[False, True, False, True, False]], [[True, False, False, False, True]]],
    [[[False, True, True, False, True]], [[True, False, False, True, True]]],
    [[[False, False, True], [False, True, False]], [[False, True, False], [False, False, True]]],
    [[[False, False, True], [True, False, True]], [[False, True, False], [False, True, True]]],
    [[[False, False, True], [True, True, False]], [[False, True, False], [True, False, True]]],
    [[[False, False], [False, True], [True, False]], [[False, False], [True, False], [False, True]]],
    [[[False, False], [True, True], [False, True]], [[False, True], [False, False], [True, True]]],
    [[[False, False], [True, True], [True, False]], [[True, False], [False, False], [True, True]]],
    [[[False, False, True, True, False, True]], [[False, True, False, False, True, True]]],
]
# interval columns (one IntervalPS attribute, default names), values in whole units
COLLIDING_MV = [
    [[[0], [0], [2], [0]], [[0], [1], [0], [1]]],
    [[[0], [0], [3], [0]], [[0], [1], [1], [1]]],
    [[[0], [1], [1], [1]], [[1], [0], [0], [2]]],
    [[[0], [0], [3], [2]], [[0], [1], [1], [3]]],
    [[[0, 1], [1, 0]], [[1, 0], [0, 1]]],
    [[[0, 1], [2, 0]], [[1, 0], [1, 1]]],
    [[[0, 2], [1, 1]], [[1, 1], [0, 2]]],
]


def nm(k):
    return str(k)


# ------------------------------------------------------------------ building contexts

def make_formal(c):
    from fcapy.context import FormalContext
    return FormalContext(data=[list(r) for r in c['table']], object_names=[nm(k) for k in c['onames']],
                         attribute_names=[nm(k) for k in c['anames']], backend=c.get('backend', 'BinTableBitarray'))


def cell_value(cell):
    tag = cell[0]
    if tag == 'i':
        return (cell[1] / 4.0, cell[2] / 4.0)
    if tag == 'n':
        return cell[1] / 4.0
    if tag == 's':
        return set(cell[1])
    return bool(cell[1])


def ps_order(c):
    """The order of the pattern_types dict (= of K.pattern_structures) as positions in attribute_names."""
    return list(c.get('order') or range(len(c['anames'])))


def make_mv(c):
    from fcapy.mvcontext import MVContext, PS
    names = [nm(k) for k in c['anames']]
    order = ps_order(c)
    data = [[cell_value(x) for x in row] for row in c['data']]
    onames = [nm(k) for k in c['onames']]
    if c.get('via_slice'):
        # a context whose attributes are listed in dict order, then the column-reordered slice K[:, cols]:
        # attribute_names and the data are re-ordered, the pattern_types dict keeps its order
        src_names = [names[p] for p in order]
        src = MVContext(data=[[row[p] for p in order] for row in data],
                        pattern_types={names[p]: getattr(PS, c['ptypes'][p]) for p in order},
                        object_names=onames, attribute_names=src_names)
        K = src[:, [order.index(i) for i in range(len(names))]]
        assert list(K.attribute_names) == names
        return K
    ptypes = {names[p]: getattr(PS, c['ptypes'][p]) for p in order}
    return MVContext(data=data, pattern_types=ptypes, object_names=onames, attribute_names=names)


def make_ctx(c):
    return make_mv(c) if 'ptypes' in c else make_formal(c)


def cell_code(cell):
    tag = cell[0]
    if tag == 'i':
        return [cell[1], cell[2]]
    if tag == 'n':
        return [cell[1], cell[1]]
    if tag == 's':
        return sorted(cell[1])
    return [1 if cell[1] else 0]


def zl(xs):
    return '[' + '; '.join(zlit(x) for x in xs) + ']'


def ctx_term(c):
    if 'ptypes' in c:
        cells = '[' + '; '.join('[' + '; '.join(zl(cell_code(x)) for x in row) + ']' for row in c['data']) + ']'
        return '(MCtx %s %s %s %s)' % (coq(c['onames']), coq(c['anames']),
                                       coq([PTYPE_ID[t] for t in c['ptypes']]), cells)
    return '(FCtx %s)' % fctx_term(c)


def fctx_term(c):
    return '(mk_ctx %s %s %s)' % (coq(c['onames']), coq(c['anames']), coq(c['table']))


# ------------------------------------------------------------------ running the implementation

def cmp_code(f):
    from fcapy.lattice.formal_concept import UnmatchedContextError, UnmatchedMonotonicityError
    try:
        v = f()
    except UnmatchedContextError:
        return 2
    except UnmatchedMonotonicityError:
        return 3
    except NotImplementedError:
        return 4
    except Exception:  # noqa
        return 5
    if v is True:
        return 1
    if v is False:
        return 0
    return 5


def concepts_for(case, sel, K):
    """The concept objects one selector picks from the context object K."""
    from fcapy.lattice import ConceptLattice
    from fcapy.lattice.formal_concept import FormalConcept
    from fcapy.lattice.pattern_concept import PatternConcept
    from fcapy.algorithms import concept_construction as cca
    from fcapy.mvcontext import MVContext
    cls = PatternConcept if isinstance(K, MVContext) else FormalConcept
    kind = sel[0]
    if kind == 'route':
        return route_concepts(K, cls, sel)
    if kind == 'latT':      # the concepts of the transposed lattice object L.T (K is the ORIGINAL context)
        _, k, seed, cap = sel
        cs = list(ConceptLattice.from_context(K).T)
        r = random.Random(seed)
        return r.sample(cs, cap) if len(cs) > cap else cs
    if kind in ('lat', 'cbo'):
        _, k, arg, seed, cap = sel
        try:
            if kind == 'lat':
                cs = list(ConceptLattice.from_context(K, is_monotone=True) if arg else ConceptLattice.from_context(K))
            else:       # both mining paths of close_by_one: arg = n_projections_to_binarize (0 -> objectwise)
                cs = list(cca.close_by_one(K, n_projections_to_binarize=arg))
        except Exception:  # noqa  (mining is C02/C14's business: D16, D17)
            cs = []
        r = random.Random(seed)
        if len(cs) > cap:
            cs = r.sample(cs, cap)
        if kind == 'cbo':   # ... each with its from_objects twin
            cs = [x for c in cs for x in (c, cls.from_objects(list(c.extent_i), K))]
        return cs
    _, k, objs, by_name = sel[:4]
    is_extent = bool(sel[4]) if len(sel) > 4 else False
    arg = [nm(x) for x in objs] if by_name else list(objs)
    return [cls.from_objects(arg, K, is_extent=is_extent)]


FORMAL_ROUTES = ['from_objects', 'cbo', 'cbo_obj', 'cbo_fb', 'lindig', 'sofia', 'lattice', 'lattice_sofia',
                 'lattice_lindig', 'dict', 'json']
PATTERN_ROUTES = ['from_objects', 'cbo', 'cbo0', 'cbo_obj', 'cbo_fb', 'sofia', 'lattice', 'json']


def route_concepts(K, cls, sel):
    """Concepts of the context object K built by one of the routes the library offers."""
    from fcapy.lattice import ConceptLattice
    from fcapy.algorithms import concept_construction as cca
    _, k, name, seed, cap = sel
    r = random.Random(seed)
    n = K.n_objects
    pattern = cls.__name__ == 'PatternConcept'

    def some_from_objects(count):
        out = []
        for _ in range(count):
            objs = r.sample(range(n), r.randint(0, n))
            out.append(cls.from_objects(objs, K))
        return out
    try:
        if name == 'from_objects':
            cs = some_from_objects(cap)
        elif name == 'cbo':
            cs = list(cca.close_by_one(K))
        elif name == 'cbo0':
            cs = list(cca.close_by_one(K, n_projections_to_binarize=0))
        elif name == 'cbo_obj':
            cs = list(cca.close_by_one_objectwise(K))
        elif name == 'cbo_fb':
            cs = list(cca.close_by_one_objectwise_fbarray(K))
        elif name == 'lindig':
            cs = list(cca.lindig_algorithm(K))
        elif name == 'sofia':
            cs = list(cca.sofia(K, L_max=r.choice([3, 100])))
        elif name == 'lattice':
            cs = list(ConceptLattice.from_context(K))
        elif name == 'lattice_sofia':
            cs = list(ConceptLattice.from_context(K, algo='Sofia'))
        elif name == 'lattice_lindig':
            cs = list(ConceptLattice.from_context(K, algo='Lindig'))
        elif name == 'rf':
            K2 = make_ctx_with_target(K, [i % 2 for i in range(n)])
            cs = list(cca.random_forest_concepts(K2, rf_params={'n_estimators': 2, 'random_state': seed % 1000}))
        elif name == 'dict':
            objs, attrs = list(K.object_names), list(K.attribute_names)
            cs = [cls.from_dict(dict(c.to_dict(objs, attrs))) for c in some_from_objects(cap)]
        elif name == 'json':
            if pattern:
                cs = [cls.read_json(json_data=c.write_json()) for c in some_from_objects(cap)]
            else:
                objs, attrs = list(K.object_names), list(K.attribute_names)
                cs = [cls.read_json(json_data=c.write_json(objs, attrs)) for c in some_from_objects(cap)]
        else:
            raise ValueError(name)
    except (KeyError, AssertionError, TypeError, ValueError, IndexError):   # mining defects are C02/C14/C15's business
        cs = []
    if len(cs) > cap:
        cs = r.sample(cs, cap)
    return cs


def make_ctx_with_target(K, target):
    from fcapy.mvcontext import MVContext
    from fcapy.context import FormalContext
    if isinstance(K, MVContext):
        return MVContext(data=K.data, pattern_types=K.pattern_types, object_names=list(K.object_names),
                         attribute_names=list(K.attribute_names), target=target)
    return FormalContext(data=K.data.to_list(), object_names=list(K.object_names),
                         attribute_names=list(K.attribute_names), target=target)


def warm_up(K, pattern):
    """Fill whatever a context object may cache."""
    from fcapy.lattice import ConceptLattice
    K.hash_fixed()
    try:
        ConceptLattice.from_context(K)
    except Exception:  # noqa
        pass
    K.hash_fixed()
    if pattern:
        K.data
        K.write_json()
    else:
        K.write_json()


def mutate(K, old, new, pattern, how):
    """Turn the context object K (content `old`) into content `new` through the public setters."""
    if pattern:
        if old['data'] != new['data']:
            values = [[cell_value(x) for x in row] for row in new['data']]
            if how == 'column':     # in-place correction of each changed column
                for j in range(len(new['ptypes'])):
                    if [r[j] for r in old['data']] != [r[j] for r in new['data']]:
                        K.pattern_structures[j].data = [row[j] for row in values]
            else:                   # replace all pattern structures through the setter
                K.pattern_structures = K.assemble_pattern_structures(values, K.pattern_types)
    if old['onames'] != new['onames']:
        K.object_names = [nm(k) for k in new['onames']]
    if old['anames'] != new['anames']:
        K.attribute_names = [nm(k) for k in new['anames']]
    return K


def select_concepts(case, ctxs_in):
    """[(ctx index, concept object)].  With case['mutate'], contents 0 and 1 are two successive states of
    ONE context object: concepts of content 0 are derived first, then the object is changed in place."""
    ctxs = {}
    out = []
    mut = case.get('mutate')
    for k in sorted(set(sel[1] for sel in case['sel'])):
        if mut and k == 1:
            K = mutate(ctxs[0], case['ctxs'][0], case['ctxs'][1], case['pattern'], mut)
        elif 'binarize_of' in case['ctxs'][k]:
            K = make_ctx(case['ctxs'][case['ctxs'][k]['binarize_of']]).binarize()
        elif 'lattice_T_of' in case['ctxs'][k]:
            K = make_ctx(case['ctxs'][case['ctxs'][k]['lattice_T_of']])
        else:
            K = make_ctx(case['ctxs'][k])
            if mut and k == 0:
                warm_up(K, case['pattern'])
        ctxs[k] = K
        for sel in case['sel']:
            if sel[1] == k:
                out += [(k, c) for c in concepts_for(case, sel, K)]
                if mut:
                    warm_up(K, case['pattern'])
    return out


def run_cmp(case):
    from fcapy.lattice.pattern_concept import PatternConcept
    fresh, resolved = [], []
    for c in case['ctxs']:
        if 'binarize_of' in c:      # the formal context MVContext.binarize() builds: a different context
            src = case['ctxs'][c['binarize_of']]
            B = make_ctx(src).binarize()
            fresh.append(B.hash_fixed())
            resolved.append({'onames': list(src['onames']), 'anames': list(range(B.n_attributes)),
                             'table': canon(B.data.to_list())})
        elif 'lattice_T_of' in c:
            # ConceptLattice.T marks its concepts as concepts of ANOTHER context -- the transposed one -- by
            # the negated hash of the original context (not by hash_fixed of K.T)
            src = case['ctxs'][c['lattice_T_of']]
            fresh.append(-make_ctx(src).hash_fixed())
            resolved.append({'onames': list(src['anames']), 'anames': list(src['onames']),
                             'table': [list(col) for col in zip(*src['table'])]})
        else:
            fresh.append(make_ctx(c).hash_fixed())
            resolved.append(None)
    sel = select_concepts(case, case['ctxs'])
    concepts = []
    for k, c in sel:
        mono = bool(getattr(c, 'is_monotone', False))
        concepts.append([k, canon(c.context_hash), mono, canon(list(c.extent_i)), isinstance(c, PatternConcept)])
    res = []
    for _, a in sel:
        for _, b in sel:
            row = [cmp_code(lambda: a == b), cmp_code(lambda: a != b), cmp_code(lambda: a <= b),
                   cmp_code(lambda: a < b), cmp_code(lambda: a >= b), cmp_code(lambda: a > b)]
            try:
                same_hash = hash(a) == hash(b)
                if row[0] == 1:     # equal concepts: one element of a set, one key of a dict
                    same_hash = same_hash and len({a, b}) == 1 and (b in {a: 0}) and (a in {b: 0})
                row.append(1 if same_hash else 0)
            except Exception:  # noqa
                row.append(5)
            res.append(row)
    return {'concepts': concepts, 'res': res, 'fresh': fresh, 'resolved': resolved}


def name_ids(names):
    return [int(s) for s in names]


def run_fromobj(case):
    from fcapy.lattice.formal_concept import FormalConcept
    from fcapy.lattice.pattern_concept import PatternConcept
    pattern = case['kind'] == 'pfromobj'
    K = make_ctx(case['ctx'])
    h = K.hash_fixed()
    outs = []
    for by_name, objs, is_extent, is_mono in case['items']:
        arg = [nm(x) for x in objs] if by_name else list(objs)

        def go():
            if pattern:
                c = PatternConcept.from_objects(arg, K, is_extent=is_extent, is_monotone=is_mono)
                intent = []
                for j in range(len(case['ctx']['anames'])):
                    d = c.intent_i[j]
                    if d is None:
                        intent.append(None)
                    else:
                        lo, hi = Fraction(float(d[0])) * 4, Fraction(float(d[1])) * 4
                        if lo.denominator != 1 or hi.denominator != 1:
                            raise RuntimeError('interval end point off the grid')
                        intent.append([int(lo), int(hi)])
                by_name_intent = [c.intent[nm(a)] for a in case['ctx']['anames']]
                if [None if x is None else (float(x[0]), float(x[1])) for x in by_name_intent] != \
                        [None if c.intent_i[j] is None else (float(c.intent_i[j][0]), float(c.intent_i[j][1]))
                         for j in range(len(by_name_intent))]:
                    raise RuntimeError('intent and intent_i disagree')
                return [canon(list(c.extent_i)), name_ids(c.extent), intent, canon(c.context_hash)]
            c = FormalConcept.from_objects(arg, K, is_extent=is_extent, is_monotone=is_mono)
            return [canon(list(c.extent_i)), name_ids(c.extent), canon(list(c.intent_i)), name_ids(c.intent),
                    canon(c.context_hash), bool(c.is_monotone)]
        r = guarded(go, 20)
        outs.append(['ok', r[1]] if r[0] == 'ok' else ['err', r[1], r[2]])
    return {'h': h, 'outs': outs}


F_KEYS = ['extent_i', 'extent', 'intent_i', 'intent', 'context_hash', 'is_monotone', 'measures', 'my_note']
P_KEYS = ['extent_i', 'extent', 'intent_i', 'intent', 'pattern_types', 'support', 'context_hash', 'measures']


def run_setattr(case):
    from fcapy.lattice.formal_concept import FormalConcept
    from fcapy.lattice.pattern_concept import PatternConcept
    K = make_ctx(case['ctx'])
    pattern = case['pattern']
    cls = PatternConcept if pattern else FormalConcept
    c = cls.from_objects(list(case['objs']), K)
    twin = cls.from_objects(list(case['objs']), K)
    keys = P_KEYS if pattern else F_KEYS
    key = keys[case['key']]

    def snapshot(x):
        fields = ['extent_i', 'extent', 'intent_i', 'intent', 'context_hash'] + ([] if pattern else ['is_monotone'])
        return [repr(getattr(x, f)) for f in fields] + [hash(x)]
    before = snapshot(c)
    if case['variant'] == 'same' and key != 'my_note':
        value = getattr(c, key)
    else:
        value = {'extent_i': (0,), 'extent': ('zz',), 'intent_i': (0,) if not pattern else {0: None},
                 'intent': ('zz',) if not pattern else {'zz': None}, 'context_hash': 12345, 'is_monotone': True,
                 'measures': {'stab': 0.5}, 'my_note': 7, 'pattern_types': {}, 'support': 99}[key]
    err = 0
    try:
        setattr(c, key, value)
    except BaseException as e:  # noqa
        from harness.core import classify_exception
        err = ERR_KINDS.get(classify_exception(e), 11)
    after = snapshot(c)
    unchanged = before == after and (c == twin) is True and (c <= twin) is True and (twin <= c) is True
    if key == 'measures' and err == 0:
        unchanged = unchanged and c.measures == value
    return {'err': err, 'unchanged': bool(unchanged)}


def desc_json(d):
    """A description of the implementation -> JSON-able canonical form."""
    import numpy as np
    if d is None:
        return ['none']
    if isinstance(d, (bool, np.bool_)):
        return ['b', bool(d)]
    if isinstance(d, (set, frozenset)):
        return ['s', sorted(int(x) for x in d)]
    lo, hi = Fraction(float(d[0])) * 4, Fraction(float(d[1])) * 4
    if lo.denominator != 1 or hi.denominator != 1:
        raise RuntimeError('interval end point off the grid')
    return ['i', int(lo), int(hi)]


def run_pallobj(case):
    from fcapy.lattice.pattern_concept import PatternConcept
    K = make_mv(case['ctx'])
    h = K.hash_fixed()
    outs = []
    for objs, is_extent in case['items']:
        def go():
            c = PatternConcept.from_objects(list(objs), K, is_extent=is_extent)
            order = ps_order(case['ctx'])
            intent = [desc_json(c.intent_i[j]) for j in range(len(order))]
            if [desc_json(c.intent[nm(case['ctx']['anames'][p])]) for p in order] != intent:
                raise RuntimeError('intent and intent_i disagree')
            return [canon(list(c.extent_i)), name_ids(c.extent), intent, canon(c.context_hash)]
        r = guarded(go, 20)
        outs.append(['ok', r[1]] if r[0] == 'ok' else ['err', r[1], r[2]])
    return {'h': h, 'outs': outs}


def run_impl(case):
    kind = case['kind']
    fn = {'cmp': run_cmp, 'fromobj': run_fromobj, 'pfromobj': run_fromobj, 'pallobj': run_pallobj, 'setattr': run_setattr,
          'hash': lambda c: {'h': make_formal(c['ctx']).hash_fixed()}}[kind]
    r = guarded(lambda: fn(case), 60)
    return list(r)


# ------------------------------------------------------------------ Coq terms

def arg_term(by_name, objs):
    return '(%s %s)' % ('ByName' if by_name else 'ByIndex', coq(objs))


def desc_term(d):
    return 'None' if d is None else '(Some (%s, %s))' % (zlit(d[0]), zlit(d[1]))


def is_idx_list(v):
    return isinstance(v, list) and all(isinstance(x, int) and not isinstance(x, bool) and x >= 0 for x in v)


def to_coq(case, out):
    kind = case['kind']
    if out[0] != 'ok':
        # the whole case blew up in the harness or the library: a case no model accepts
        if kind == 'cmp':
            return 'CmpCase %s [] [] [mk_cc 0 0%%Z false [] false] []' % coq(bool(case['pattern']))
        if kind == 'fromobj':
            return 'FromObjCase BLists %s 0%%Z [(ByIndex [], false, false, FErr 11)]' % fctx_term(case['ctx'])
        if kind == 'pfromobj':
            return 'PFromObjCase %s 0%%Z [(ByIndex [], false, false, PErr 11)]' % mv_term(case['ctx'])
        if kind == 'pallobj':
            return 'PAllCase %s 0%%Z [([], false, PAErr 11)]' % mvk_term(case['ctx'])
        if kind == 'setattr':
            return 'SetattrCase %s %d 11 false' % (coq(bool(case['pattern'])), case['key'])
        return 'HashCase %s (-1)%%Z' % fctx_term(case['ctx'])
    o = out[1]
    if kind == 'cmp':
        cs = '[' + '; '.join('mk_cc %d %s %s %s %s' % (k, zlit(h if isinstance(h, int) else -1), coq(bool(m)),
                                                      coq(e if is_idx_list(e) else []), coq(bool(pt)))
                             for k, h, m, e, pt in o['concepts']) + ']'
        ctxs = [ctx_term(r if r is not None else c) for c, r in zip(case['ctxs'], o['resolved'])]
        return 'CmpCase %s [%s] %s %s %s' % (coq(bool(case['pattern'])), '; '.join(ctxs),
                                             zl(o['fresh']), cs, coq(o['res']))
    if kind in ('fromobj', 'pfromobj'):
        items = []
        for (by_name, objs, e, m), r in zip(case['items'], o['outs']):
            if r[0] == 'ok' and kind == 'fromobj':
                a, an, b, bn, h, mono = r[1]
                if is_idx_list(a) and is_idx_list(b) and isinstance(h, int):
                    t = '(FOk %s %s %s %s %s %s)' % (coq(a), coq(an), coq(b), coq(bn), zlit(h), coq(bool(mono)))
                else:
                    t = '(FErr 12)'
            elif r[0] == 'ok':
                a, an, ds, h = r[1]
                if is_idx_list(a) and isinstance(h, int):
                    t = '(POk %s %s [%s] %s)' % (coq(a), coq(an), '; '.join(desc_term(d) for d in ds), zlit(h))
                else:
                    t = '(PErr 12)'
            else:
                t = '(%s %d)' % ('FErr' if kind == 'fromobj' else 'PErr', ERR_KINDS.get(r[1], 11))
            items.append('(%s, %s, %s, %s)' % (arg_term(by_name, objs), coq(bool(e)), coq(bool(m)), t))
        if kind == 'fromobj':
            return 'FromObjCase %s %s %s [%s]' % (COQ_BACKEND[case['ctx']['backend']], fctx_term(case['ctx']),
                                                  zlit(o['h']), '; '.join(items))
        return 'PFromObjCase %s %s [%s]' % (mv_term(case['ctx']), zlit(o['h']), '; '.join(items))
    if kind == 'pallobj':
        items = []
        for (objs, e), r in zip(case['items'], o['outs']):
            if r[0] == 'ok' and is_idx_list(r[1][0]) and isinstance(r[1][3], int):
                a, an, ds, h = r[1]
                t = '(PAOk %s %s [%s] %s)' % (coq(a), coq(an), '; '.join(
                    pdesc_term_col(d, case['ctx']['ptypes'][p]) for d, p in zip(ds, ps_order(case['ctx']))), zlit(h))
            elif r[0] == 'ok':
                t = '(PAErr 12)'
            else:
                t = '(PAErr %d)' % ERR_KINDS.get(r[1], 11)
            items.append('(%s, %s, %s)' % (coq(list(objs)), coq(bool(e)), t))
        return 'PAllCase %s %s [%s]' % (mvk_term(case['ctx']), zlit(o['h']), '; '.join(items))
    if kind == 'setattr':
        return 'SetattrCase %s %d %d %s' % (coq(bool(case['pattern'])), case['key'], o['err'], coq(bool(o['unchanged'])))
    return 'HashCase %s %s' % (fctx_term(case['ctx']), zlit(o['h']))


PS_ = 'FCA.Model.PatternStructure.'


def mvk_term(c):
    """The context as a value of the C13/C14 model (Model/MVContext.v)."""
    cols = []
    order = ps_order(c)
    for j in order:         # K.pattern_structures follows the pattern_types dict, not attribute_names
        t = c['ptypes'][j]
        col = [row[j] for row in c['data']]
        if t in ('IntervalPS', 'IntervalNumpyPS'):
            cells = '; '.join('(%s, %s)' % (zlit(cell_code(x)[0]), zlit(cell_code(x)[1])) for x in col)
            cols.append('(%s%s [%s])' % (PS_, 'CInterval' if t == 'IntervalPS' else 'CIntervalNp', cells))
        elif t == 'SetPS':
            cols.append('(%sCSet %s)' % (PS_, coq([sorted(x[1]) for x in col])))
        else:
            cols.append('(%sCAttr %s)' % (PS_, coq([bool(x[1]) for x in col])))
    return '(FCA.Model.MVContext.mkMV %d [%s] %s %s %s)' % (
        len(c['data']), '; '.join(cols), coq(c['onames']), coq([c['anames'][j] for j in order]), coq(c['anames']))


def pdesc_term(d):
    if d[0] == 'none':
        raise ValueError('None is only an interval / set description; the column decides')
    if d[0] == 'b':
        return '(%sDAttr %s)' % (PS_, coq(d[1]))
    if d[0] == 's':
        return '(%sDSet (Some %s))' % (PS_, coq(d[1]))
    return '(%sDIv (Some (%s, %s)))' % (PS_, zlit(d[1]), zlit(d[2]))


def pdesc_term_col(d, ptype):
    if d[0] == 'none':
        return '(%sDSet None)' % PS_ if ptype == 'SetPS' else '(%sDIv None)' % PS_
    return pdesc_term(d)


def mv_term(c):
    rows = []
    for row in c['data']:
        cells = []
        for x in row:
            lo, hi = cell_code(x)
            cells.append('(%s, %s)' % (zlit(lo), zlit(hi)))
        rows.append('[' + '; '.join(cells) + ']')
    return '(mk_mv %s %s [%s])' % (coq(c['onames']), coq(c['anames']), '; '.join(rows))


# ------------------------------------------------------------------ generators

def formal_ctx(rng, max_dim, table=None, default_names=False, min_h=1):
    if table is None:
        table, _ = gen.random_table(rng, max_dim, max_dim, min_h=min_h)
    h, w = len(table), len(table[0])
    if default_names:
        on, an = list(range(h)), list(range(w))
    else:
        on, an = rng.sample(range(60), h), rng.sample(range(60), w)
    return {'onames': on, 'anames': an, 'table': table, 'backend': rng.choice(BACKENDS)}


def mv_ctx(rng, max_h, max_w, interval_only=False, default_names=False, data=None):
    if data is not None:
        h, w = len(data), len(data[0])
        ptypes = ['IntervalPS'] * w
        cells = [[['n', 4 * v] for v in row] for row in data]
    else:
        h, w = rng.randint(1, max_h), rng.randint(1, max_w)
        choices = ['IntervalPS', 'IntervalNumpyPS'] if interval_only else \
            ['IntervalPS', 'IntervalPS', 'IntervalNumpyPS', 'SetPS', 'AttributePS']
        ptypes = [rng.choice(choices) for _ in range(w)]
        span = rng.choice([2, 4, 8, 16])
        cells = []
        for _ in range(h):
            row = []
            for t in ptypes:
                if t in ('IntervalPS', 'IntervalNumpyPS'):
                    a, b = rng.randint(-span, span), rng.randint(-span, span)
                    if rng.random() < 0.5:
                        row.append(['n', a])
                    else:
                        row.append(['i', min(a, b), max(a, b)])
                elif t == 'SetPS':
                    row.append(['s', sorted(rng.sample(range(4), rng.randint(0, 3)))])
                else:
                    row.append(['b', rng.random() < 0.5])
            cells.append(row)
        if h >= 2 and rng.random() < 0.3:       # duplicated object description
            cells[rng.randrange(h)] = list(cells[rng.randrange(h)])
    if default_names:
        on, an = list(range(h)), list(range(w))
    else:
        on, an = rng.sample(range(60), h), rng.sample(range(60), w)
    return {'onames': on, 'anames': an, 'ptypes': ptypes, 'data': cells}


def n_objects(c):
    return len(c['onames'])


def obj_selectors(rng, k, c, count):
    n = n_objects(c)
    out = []
    for _ in range(count):
        objs = gen.random_subset(rng, n)
        by_name = bool(objs) and rng.random() < 0.3
        out.append(['obj', k, [c['onames'][i] for i in objs] if by_name else objs, by_name])
    return out


def cmp_case(rng, tier, stream, pattern):
    dim = 8 if tier == 'quick' else 10
    cap = 10 if tier == 'quick' else 14
    mk = (lambda **kw: mv_ctx(rng, dim, 4, **kw)) if pattern else (lambda **kw: formal_ctx(rng, dim, **kw))
    seed = rng.randrange(10 ** 6)
    if stream == 'single':
        c = mk()
        ctxs = [c]
        r = rng.random()
        if pattern or r < 0.5:
            sel = [['lat', 0, False, seed, cap - 2]] + obj_selectors(rng, 0, c, 2)
        elif r < 0.75:
            sel = [['lat', 0, True, seed, cap]]
        else:   # both monotonicities of one context
            sel = [['lat', 0, False, seed, cap // 2], ['lat', 0, True, seed + 1, cap // 2]]
    elif stream == 'cross':
        a, b = mk(), mk()
        ctxs = [a, b]
        sel = [['lat', 0, False, seed, cap // 2 - 1], ['lat', 1, False, seed + 1, cap // 2 - 1]]
        sel += obj_selectors(rng, 0, a, 1) + obj_selectors(rng, 1, b, 1)
        if not pattern and rng.random() < 0.3:
            sel[1] = ['lat', 1, True, seed + 1, cap // 2 - 1]
    elif stream == 'equal':
        a = mk()
        b = dict(a)
        if not pattern:
            b['backend'] = rng.choice(BACKENDS)
        ctxs = [a, b]
        sel = [['lat', 0, False, seed, cap // 2], ['lat', 1, False, seed + 1, cap // 2]]
    else:   # 'collide' : finding D18
        if pattern:
            da, db = rng.choice(COLLIDING_MV)
            if rng.random() < 0.5:
                da, db = db, da
            ctxs = [mv_ctx(rng, 0, 0, default_names=True, data=da), mv_ctx(rng, 0, 0, default_names=True, data=db)]
        else:
            ta, tb = rng.choice(COLLIDING_TABLES)
            if rng.random() < 0.5:
                ta, tb = tb, ta
            ctxs = [formal_ctx(rng, 0, table=ta, default_names=True), formal_ctx(rng, 0, table=tb, default_names=True)]
        sel = [['lat', 0, False, seed, cap // 2], ['lat', 1, False, seed + 1, cap // 2]]
    return {'kind': 'cmp', 'pattern': pattern, 'stream': stream, 'ctxs': ctxs, 'sel': sel}


def perturb(rng, c, pattern):
    """A context content that differs from c in what hash_fixed hashes; returns (content, how)."""
    new = dict(c)
    r = rng.random()
    if pattern and r < 0.7:
        data = [list(row) for row in c['data']]
        h, w = len(data), len(data[0])
        fresh = mv_ctx(rng, h, w)       # cells of the right types come from a same-typed random table
        for _ in range(rng.randint(1, 3)):
            i, j = rng.randrange(h), rng.randrange(w)
            t = c['ptypes'][j]
            if t in ('IntervalPS', 'IntervalNumpyPS'):
                a = rng.randint(-9, 9)
                data[i][j] = ['n', a] if rng.random() < 0.5 else ['i', a, a + rng.randint(0, 3)]
            elif t == 'SetPS':
                data[i][j] = ['s', sorted(rng.sample(range(4), rng.randint(0, 3)))]
            else:
                data[i][j] = ['b', not data[i][j][1]]
        new['data'] = data
        return new, rng.choice(['column', 'replace'])
    which = 'onames' if rng.random() < 0.5 else 'anames'
    names = list(c[which])
    if len(names) >= 2 and rng.random() < 0.5:
        i, j = rng.sample(range(len(names)), 2)
        names[i], names[j] = names[j], names[i]
    else:
        names[rng.randrange(len(names))] = rng.choice([x for x in range(60, 90)])
    new[which] = names
    return new, 'names'


def history_case(rng, tier, pattern):
    """One context object in two successive states (concepts derived before and after an in-place change
    through the public setters) and a freshly built context equal to the second state."""
    dim = 6
    old = mv_ctx(rng, dim, 3) if pattern else formal_ctx(rng, dim)
    if rng.random() < 0.2:
        new, how = dict(old), rng.choice(['names', 'replace'] if pattern else ['names'])   # same content re-assigned
    else:
        new, how = perturb(rng, old, pattern)
    twin = dict(new)
    if not pattern:
        twin['backend'] = rng.choice(BACKENDS)
    seed = rng.randrange(10 ** 6)
    objs = gen.random_subset(rng, n_objects(old))
    sel = []
    for k in (0, 1, 2):
        sel += [['obj', k, objs, False], ['lat', k, False, seed + k, 2]]
    return {'kind': 'cmp', 'pattern': pattern, 'stream': 'history-' + how, 'ctxs': [old, new, twin], 'sel': sel,
            'mutate': how}


def routes_case(rng, tier, pattern, with_rf=False):
    """Concepts of ONE context drawn from every construction route the library offers (must be mutually
    comparable and ordered by extent inclusion, each carrying the hash of its context), optionally a second,
    different context (pairs across routes must be refused), and for a many-valued context the formal
    context K.binarize() builds (formal-vs-pattern pairs: different contexts, refused)."""
    seed = rng.randrange(10 ** 6)
    routes = list(PATTERN_ROUTES if pattern else FORMAL_ROUTES) + (['rf'] if with_rf else [])
    a = mv_ctx(rng, 5, 2) if pattern else formal_ctx(rng, 5, min_h=2)
    ctxs = [a]
    picked = rng.sample(routes, min(len(routes), rng.randint(4, 6)))
    if with_rf and 'rf' not in picked:
        picked[0] = 'rf'
    sel = [['route', 0, name, seed + i, 2] for i, name in enumerate(picked)]
    r = rng.random()
    if r < 0.35:        # a second, different context: cross-context pairs across routes
        b = mv_ctx(rng, 5, 2) if pattern else formal_ctx(rng, 5, min_h=2)
        ctxs.append(b)
        sel = sel[:4] + [['route', 1, name, seed + 50 + i, 2] for i, name in enumerate(rng.sample(routes, 3))]
    elif pattern and r < 0.75:   # the binarised (formal) context of the same data
        ctxs.append({'binarize_of': 0})
        sel = sel[:4] + [['route', 1, name, seed + 70 + i, 2]
                         for i, name in enumerate(rng.sample(['cbo', 'cbo_fb', 'lindig', 'sofia', 'from_objects'], 3))]
    stream = 'routes' + ('-rf' if with_rf else '')
    if not pattern and len(ctxs) == 1 and rng.random() < 0.5 and sorted(a['onames']) != sorted(a['anames']):
        # concepts of L.T : another context (extents are attribute indexes of K) -- refused against K's concepts
        ctxs.append({'lattice_T_of': 0})
        sel = sel[:4] + [['latT', 1, seed + 90, 4]]
        stream += '-T'
    return {'kind': 'cmp', 'pattern': pattern, 'stream': stream, 'ctxs': ctxs, 'sel': sel}


def mining_case(rng, tier):
    """Pattern concepts from both mining paths of close_by_one (the objectwise one stores extents in
    discovery order, e.g. (0, 1, 4, 2)), each with its from_objects twin, plus a permuted is_extent one."""
    c = mv_ctx(rng, 6, 2, interval_only=rng.random() < 0.7)
    seed = rng.randrange(10 ** 6)
    objs = gen.random_subset(rng, n_objects(c))
    rng.shuffle(objs)
    sel = [['cbo', 0, 0, seed, 3], ['cbo', 0, 1000, seed + 1, 2], ['obj', 0, objs, False, True],
           ['obj', 0, sorted(objs), False, True]]
    return {'kind': 'cmp', 'pattern': True, 'stream': 'mining', 'ctxs': [c], 'sel': sel}


def repeated_listings(rng, n, count):
    """Object listings that repeat elements: shorter than, exactly as long as, and longer than n."""
    out = []
    if n == 0:
        return out
    for k in range(count):
        base = gen.random_subset(rng, n, allow_empty=False, allow_full=(n == 1))
        if not base:
            continue
        length = [n, n, max(1, n - 1), n + rng.randint(1, 2), rng.randint(len(base), 2 * n)][k % 5]
        l = list(base)
        while len(l) < length:
            l.insert(rng.randint(0, len(l)), rng.choice(base))
        out.append(l)
    return out


def fromobj_items(rng, c, exhaustive_upto):
    n = n_objects(c)
    items = []
    if n <= exhaustive_upto:
        for s in gen.all_subsets(n):
            items.append([False, s, False, False])
            if s:
                items.append([True, [c['onames'][i] for i in s], False, False])
    else:
        for _ in range(40):
            s = gen.random_subset(rng, n)
            items.append([False, s, False, False])
            if s:
                items.append([True, [c['onames'][i] for i in s], False, False])
    for l in repeated_listings(rng, n, 6):      # a listing is a set: repeats do not matter, whatever its length
        items.append([False, l, False, False])
        items.append([True, [c['onames'][i] for i in l], False, False])
    for _ in range(8):      # permuted, is_extent, monotone, unknown names
        s = gen.random_subset(rng, n)
        rng.shuffle(s)
        names = [c['onames'][i] for i in s]
        r = rng.random()
        if r < 0.3:
            items.append([False, s, True, False])
        elif r < 0.4 and s:
            items.append([True, names, True, False])
        elif r < 0.55:
            items.append([False, s, rng.random() < 0.5, True])
        elif r < 0.8 and s:
            names.insert(rng.randint(0, len(names)), UNKNOWN + rng.randrange(5))
            items.append([True, names, rng.random() < 0.3, False])
        elif s and rng.random() < 0.5:
            items.append([True, names, False, False])
        else:
            items.append([False, s, False, False])
    return items


def fromobj_case(rng, tier, pattern):
    upto = 6 if tier == 'quick' else 8
    dim = 8
    if pattern:
        c = mv_ctx(rng, dim if rng.random() < 0.3 else upto, 3, interval_only=True)
        return {'kind': 'pfromobj', 'ctx': c, 'items': fromobj_items(rng, c, upto)}
    c = formal_ctx(rng, dim if rng.random() < 0.3 else upto)
    return {'kind': 'fromobj', 'ctx': c, 'items': fromobj_items(rng, c, upto)}


def pallobj_case(rng, tier):
    """from_objects on a many-valued context over all shipped structures; SetPS rows include the EMPTY
    value set (a legitimate description) and multi-valued rows."""
    upto = 5 if tier == 'quick' else 7
    h, w = rng.randint(1, upto), rng.randint(1, 3)
    mode = rng.choice(['mixed', 'mixed', 'sets', 'attrs'])
    choices = {'mixed': ['SetPS', 'SetPS', 'AttributePS', 'IntervalPS', 'IntervalNumpyPS'],
               'sets': ['SetPS'], 'attrs': ['AttributePS', 'SetPS']}[mode]
    ptypes = [rng.choice(choices) for _ in range(w)]
    p_empty = rng.choice([0.15, 0.4, 0.7])
    rows = []
    for _ in range(h):
        row = []
        for t in ptypes:
            if t in ('IntervalPS', 'IntervalNumpyPS'):
                a = rng.randint(-6, 6)
                row.append(['n', a] if rng.random() < 0.5 else ['i', a, a + rng.randint(0, 4)])
            elif t == 'SetPS':
                row.append(['s', [] if rng.random() < p_empty else sorted(rng.sample(range(4), rng.randint(1, 3)))])
            else:
                row.append(['b', rng.random() < 0.5])
        rows.append(row)
    c = {'onames': rng.sample(range(60), h), 'anames': rng.sample(range(60), w), 'ptypes': ptypes, 'data': rows}
    if w >= 2 and rng.random() < 0.6:       # pattern_types listed in another order than attribute_names,
        order = list(range(w))              # directly or through a column-reordered slice K[:, cols]
        while order == list(range(w)):
            rng.shuffle(order)
        c['order'] = order
        # (slicing a context with an IntervalNumpyPS column raises TypeError in the unchanged library:
        #  __getitem__ hands numpy rows to IntervalPS._transform_data -- sub-contexts are not C08's subject)
        c['via_slice'] = rng.random() < 0.5 and 'IntervalNumpyPS' not in ptypes
    items = [[s_, False] for s_ in gen.all_subsets(h)]
    items += [[l, False] for l in repeated_listings(rng, h, 3)]
    for _ in range(4):
        s_ = gen.random_subset(rng, h)
        rng.shuffle(s_)
        items.append([s_, rng.random() < 0.6])
    return {'kind': 'pallobj', 'ctx': c, 'items': items}


def setattr_case(rng, pattern):
    c = mv_ctx(rng, 5, 3) if pattern else formal_ctx(rng, 5)
    return {'kind': 'setattr', 'pattern': pattern, 'ctx': c, 'objs': gen.random_subset(rng, n_objects(c)),
            'key': rng.randrange(8), 'variant': rng.choice(['same', 'diff'])}


def hash_case(rng):
    return {'kind': 'hash', 'ctx': formal_ctx(rng, 6, default_names=rng.random() < 0.5)}


def generate(rng, tier):
    quick = tier == 'quick'
    cases = []
    n_cmp = 120 if quick else 1800
    streams = ['single'] * 5 + ['cross'] * 3 + ['equal'] + ['collide']
    for _ in range(n_cmp):
        cases.append(cmp_case(rng, tier, rng.choice(streams), pattern=rng.random() < 0.35))
    for _ in range(60 if quick else 500):
        cases.append(history_case(rng, tier, pattern=rng.random() < 0.6))
    for _ in range(40 if quick else 400):
        cases.append(mining_case(rng, tier))
    for i in range(70 if quick else 700):
        cases.append(routes_case(rng, tier, pattern=rng.random() < 0.5, with_rf=(i % (30 if quick else 12) == 0)))
    for _ in range(30 if quick else 400):
        cases.append(fromobj_case(rng, tier, pattern=False))
    for _ in range(20 if quick else 200):
        cases.append(fromobj_case(rng, tier, pattern=True))
    for _ in range(45 if quick else 400):
        cases.append(pallobj_case(rng, tier))
    for _ in range(60 if quick else 300):
        cases.append(setattr_case(rng, pattern=rng.random() < 0.4))
    for _ in range(40 if quick else 300):
        cases.append(hash_case(rng))
    rng.shuffle(cases)      # spread the expensive from_objects cases over the coqc shards
    return cases


# ------------------------------------------------------------------ evidence helpers

def nontrivial(case):
    if case['kind'] == 'cmp':
        return len(case['sel']) >= 1 and all(n_objects(c) >= 2 for c in case['ctxs'] if 'onames' in c)
    if case['kind'] == 'pallobj':
        return n_objects(case['ctx']) >= 2
    if case['kind'] in ('fromobj', 'pfromobj'):
        c = case['ctx']
        if 'table' in c:
            flat = [v for r in c['table'] for v in r]
            return any(flat) and not all(flat) and len(case['items']) >= 4
        return n_objects(c) >= 2
    return case['kind'] == 'setattr'


def stats(case):
    d = {'kind': case['kind']}
    if case['kind'] == 'cmp':
        d['stream'] = ('pattern-' if case['pattern'] else 'formal-') + case['stream']
        d['objects'] = n_objects(case['ctxs'][0])
        if case['stream'].startswith('routes'):
            d['routes'] = '+'.join(sorted(set(x[2] for x in case['sel'] if x[0] == 'route')))[:60]
    elif case['kind'] == 'pallobj':
        d['objects'] = n_objects(case['ctx'])
        d['structures'] = '+'.join(sorted(set(case['ctx']['ptypes'])))
    elif case['kind'] in ('fromobj', 'pfromobj'):
        d['objects'] = n_objects(case['ctx'])
        d['items'] = min(len(case['items']) // 50 * 50, 500)
    elif case['kind'] == 'setattr':
        d['key'] = ('P.' + P_KEYS[case['key']]) if case['pattern'] else ('F.' + F_KEYS[case['key']])
    return d


def shrink(case):
    out = []
    if case['kind'] == 'cmp':
        for i in range(len(case['sel'])):
            if len(case['sel']) > 1:
                c = dict(case)
                c['sel'] = case['sel'][:i] + case['sel'][i + 1:]
                out.append(c)
        for i, s in enumerate(case['sel']):
            if s[0] == 'lat' and s[4] > 1:
                c = dict(case)
                c['sel'] = [list(x) for x in case['sel']]
                c['sel'][i][4] = s[4] // 2 if s[4] > 2 else s[4] - 1
                out.append(c)
    elif case['kind'] in ('fromobj', 'pfromobj', 'pallobj'):
        items = case['items']
        if len(items) > 1:
            half = len(items) // 2
            for part in (items[:half], items[half:]):
                c = dict(case)
                c['items'] = part
                out.append(c)
            if len(items) <= 8:
                for i in range(len(items)):
                    c = dict(case)
                    c['items'] = items[:i] + items[i + 1:]
                    out.append(c)
    return out

"""C14 — many-valued contexts: extension/intention are conjunctive, closing a non-empty object set
is a closure operator, the concept lattice is exactly the closed sets with their most specific
descriptions ordered by inclusion, binarisation keeps the closure system, both mining paths agree.

A case = a many-valued context (1-3 columns mixing IntervalPS, IntervalNumpyPS, SetPS,
AttributePS) + one operation (see Corr/C14.v).  Interval end points are value/scale."""
import itertools
import re
from harness.core import coq, some, Raw, guarded, canon, zlit, ERR_KINDS
from harness.props import c13

ID = 'C14'
COQ_IMPORTS = ['FCA.Corr.C14']
CASE_TYPE = 'c14_case'
CHECK = 'c14_check'
SHOW = 'c14_show'
SHARD = 100
RULE = ('case = many-valued context (1-3 columns of the four shipped structures, <= 6 rows quick / <= 9 thorough) '
        'x operation: closures of all non-empty object subsets (intention_i + extension_i), extension_i with a '
        'sub-dictionary of descriptions and a base set, by-name extension/intention, binarize, '
        'ConceptLattice.from_context with n_projections_to_binarize in {0, 1000}, close_by_one, '
        'close_by_one_objectwise, PatternConcept.from_objects (all four views), describe_pattern, the two paths compared '
        'through the library itself (lattice ==, concept `in` lattice, set / dict of the concepts of both paths); half of the '
        'multi-column contexts have pattern_types in an order different from attribute_names; a third of the contexts run with the numpy switch fcapy.LIB_INSTALLED off (pure-python branches; no '
        'IntervalNumpyPS column there), a third mutate in place the table / column lists handed to MVContext or the '
        'data setter before querying (input aliasing), interval cells and descriptions may be half-bounded or '
        'unbounded (+-inf encoded as +-2^62); plus a mutate-then-requery stream (context built on a first table and queried, '
        'then one or more columns replaced in place through AbstractPS.data = ... or MVContext.pattern_structures '
        '= ..., then every operation again, judged against the model/spec of the second table); non-trivial = at least 2 rows, some column not constant, and for the lattice '
        'operations at least 3 concepts')
EXHAUSTIVE = {'thorough': 'every context with <= 3 rows and one column over {interval over a 2-value grid, sets over '
                          '1 symbol, booleans} and every 2-row context with two such columns, all operations'}
UNKNOWN = 900


def oname(k):
    return 'g%d' % k


def pname(k):
    return 'p%d' % k


def py_cell(kind, v, s, variant=0):
    if kind in ('interval', 'interval_np'):
        if v[0] == v[1] and variant % 2 == 0:
            return c13.to_float(v[0], s)
        return (c13.to_float(v[0], s), c13.to_float(v[1], s))
    if kind == 'set':
        return set(v)
    return bool(v)


def _preload():
    """Import everything run_impl needs BEFORE an alarm is armed (an alarm firing inside a first
    import under load leaves half-imported modules behind)."""
    import numpy  # noqa
    import fcapy.mvcontext.pattern_structure  # noqa
    import fcapy.mvcontext  # noqa
    import fcapy.lattice  # noqa
    import fcapy.algorithms.concept_construction  # noqa
    import fcapy.algorithms.lattice_construction  # noqa
    try:
        import caspailleur.order  # noqa
        import caspailleur.base_functions  # noqa
    except Exception:
        pass


def attr_order(case):
    m = len(case['cols'])
    o = case.get('attr_order')
    if not o or sorted(o) != list(range(m)):
        return list(range(m))
    return list(o)


def make_context(case, cols=None):
    from fcapy.mvcontext import MVContext, pattern_structure as PS
    cls = {'interval': PS.IntervalPS, 'interval_np': PS.IntervalNumpyPS, 'set': PS.SetPS, 'attr': PS.AttributePS}
    s = case.get('scale', 1)
    n = case['n']
    cols = case['cols'] if cols is None else cols
    # the structures are created in the order of the pattern_types dict (= cols / pnames order);
    # attribute_names (= the order of the data columns) may be any permutation of it
    order = attr_order(case)
    data = [[py_cell(cols[j]['kind'], cols[j]['data'][g], s, g + j) for j in order] for g in range(n)]
    ps_names = [pname(k) for k in case['pnames']]
    ptypes = {nm: cls[c['kind']] for nm, c in zip(ps_names, cols)}
    K = MVContext(data, ptypes, object_names=[oname(k) for k in case['onames']],
                  attribute_names=[ps_names[j] for j in order])
    if case.get('alias'):
        # the caller refills its table afterwards: the context must have copied the cells
        for row in data:
            for cell in row:
                if isinstance(cell, set):
                    cell.clear()
                    cell.add(77)
            c13.scramble(row)
        data.reverse()
        data.append([])
    return K


def col_cells(case, j, col):
    s = case.get('scale', 1)
    return [py_cell(col['kind'], col['data'][g], s, g + j) for g in range(case['n'])]


def warm_up(case, K, pre_ops):
    """First round of a history case: touch everything that could be memoised.  Results and
    exceptions (e.g. the recorded D17 KeyError) are discarded."""
    from fcapy.lattice import ConceptLattice
    from fcapy.algorithms import concept_construction as cca
    n = case['n']
    for what in pre_ops:
        try:
            if what == 'binarize':
                K.binarize()
            elif what == 'n_bin_attrs':
                K.n_bin_attrs
                [ps.n_bin_attrs for ps in K.pattern_structures]
            elif what == 'bin_attr_extents':
                list(K.to_bin_attr_extents())
            elif what == 'closures':
                for A in ([g] for g in range(n)):
                    K.extension_i(K.intention_i(A))
                K.extension_i(K.intention_i(list(range(n))))
                K.intention_i([])
            elif what == 'lattice0':
                list(ConceptLattice.from_context(K, n_projections_to_binarize=0))
            elif what == 'lattice1000':
                L = ConceptLattice.from_context(K, n_projections_to_binarize=1000)
                L.children_dict
            elif what == 'cbo':
                list(cca.close_by_one(K, n_projections_to_binarize=1000))
            elif what == 'hash':
                hash(K), K.hash_fixed(), K.data
        except Exception:
            pass


def history_context(case):
    """Build the context on the BEFORE table, query it, then move it to case['cols'] in place
    through a public setter; every column that differs is replaced."""
    h = case['history']
    before = h['before']
    K = make_context(case, before)
    warm_up(case, K, h.get('pre_ops', []))
    changed = [j for j in range(len(case['cols'])) if before[j]['data'] != case['cols'][j]['data']]
    if h.get('how') == 'ps_setter':
        pss = list(K.pattern_structures)
        for j in changed:
            pss[j] = type(pss[j])(col_cells(case, j, case['cols'][j]), name=pss[j].name)
        K.pattern_structures = pss
    else:       # 'data_setter': AbstractPS.data = ...
        for j in changed:
            handed = col_cells(case, j, case['cols'][j])
            K.pattern_structures[j].data = handed
            if case.get('alias'):
                c13.scramble(handed)
    if h.get('requery_twice'):
        warm_up(case, K, h.get('pre_ops', []))
    return K


def kind_of(case, i):
    return case['cols'][i]['kind']


def descs_from_dict(case, dd):
    s = case.get('scale', 1)
    if sorted(dd.keys()) != list(range(len(case['cols']))):
        raise ValueError('intention keys %r' % (list(dd.keys()),))
    return [c13.desc_from_py(kind_of(case, i), dd[i], s) for i in range(len(case['cols']))]


def concept_out(case, c):
    ext = canon(list(c.extent_i))
    if not all(isinstance(x, int) and not isinstance(x, bool) for x in ext):
        raise ValueError('extent %r' % (ext,))
    return [sorted(ext), descs_from_dict(case, dict(c.intent_i))]


def parse_described(case, text, kinds):
    s = case.get('scale', 1)
    out = []
    if text == '':
        return out
    for part in text.split('; '):
        m = re.fullmatch(r'p(\d+)(?:: (.*))?', part)
        if not m:
            raise ValueError('cannot parse %r' % part)
        k = int(m.group(1))
        kind = kinds[k]
        body = m.group(2)
        if kind == 'attr':
            if body is not None:
                raise ValueError('cannot parse %r' % part)
            out.append([k, True])
        elif kind == 'set':
            out.append([k, [] if body == '∅' else sorted(int(x) for x in body.split(', '))])
        elif body == '∅':
            out.append([k, None])
        else:
            mm = re.fullmatch(r'\((.+), (.+)\)', body)
            out.append([k, [c13._unscale(float(mm.group(1)), s), c13._unscale(float(mm.group(2)), s)]])
    return out


def run_impl(case):
    def go():
        import numpy as np
        from fcapy.lattice import ConceptLattice
        from fcapy.algorithms import concept_construction as cca
        K = history_context(case) if case.get('history') else make_context(case)
        s = case.get('scale', 1)
        op = case['op']
        if op == 0:
            out = []
            for A in case['subsets']:
                dd = K.intention_i(list(A))
                out.append([descs_from_dict(case, dd), canon(K.extension_i(dd))])
            return out
        if op == 1:
            dd = {i: c13.desc_to_py(kind_of(case, i), d, s) for i, d in case['ds']}
            base = case['base']
            if base is not None and case.get('base_as') == 'array' and not case.get('no_numpy'):
                base = np.array(base, dtype=int)
            return canon(K.extension_i(dd, base_objects_i=base))
        if op == 2:
            kinds = {k: c['kind'] for k, c in zip(case['pnames'], case['cols'])}
            dd = {pname(k): c13.desc_to_py(kinds.get(k, case['ds_kinds'][j]), d, s)
                  for j, (k, d) in enumerate(case['ds'])}
            base = None if case['base'] is None else [oname(k) for k in case['base']]
            return [int(x[1:]) for x in K.extension(dd, base_objects=base)]
        if op == 3:
            dd = K.intention([oname(k) for k in case['subsets'][0]])
            kinds = {pname(k): c['kind'] for k, c in zip(case['pnames'], case['cols'])}
            return [[int(nm[1:]), c13.desc_from_py(kinds[nm], d, s)] for nm, d in dd.items()]
        if op == 4:
            Kb = K.binarize()
            rows = canon(list(Kb.data.data))
            return {'table': rows, 'nbin': int(K.n_bin_attrs), 'onames': [int(x[1:]) for x in Kb.object_names],
                    'n_attr_names': len(Kb.attribute_names)}
        if op == 5:
            L = ConceptLattice.from_context(K, n_projections_to_binarize=case['thr'])
            cs = [concept_out(case, c) for c in L]
            cov = []
            for i, chs in L.children_dict.items():
                for ch in chs:
                    cov.append([cs[ch][0], cs[i][0]])
            return {'concepts': cs, 'covers': cov}
        if op == 10:
            L1 = ConceptLattice.from_context(K, n_projections_to_binarize=1000)
            L0 = ConceptLattice.from_context(K, n_projections_to_binarize=0)
            c1, c0 = list(L1), list(L0)
            g1 = list(cca.close_by_one(K, n_projections_to_binarize=1000))
            g0 = list(cca.close_by_one_objectwise(K))
            dd = {c: 1 for c in c1}
            dd.update({c: 0 for c in c0})
            flags = [L1 == L0, L0 == L1, all(c in L0 for c in c1), all(c in L1 for c in c0),
                     all(any(c == e for e in c0) for c in c1), all(any(c == e for e in c1) for c in c0)]
            return {'flags': [bool(canon(x)) for x in flags], 'union': len(set(c1) | set(c0)), 'dict': len(dd),
                    'gen_union': len(set(g1) | set(g0)), 'n1': len(c1), 'n0': len(c0)}
        if op == 8:
            from fcapy.lattice.pattern_concept import PatternConcept
            c = PatternConcept.from_objects(list(case['subsets'][0]), K, is_extent=(case['thr'] == 1))
            ii = descs_from_dict(case, dict(c.intent_i))
            named = []
            for pos, (nm, v) in enumerate(c.intent.items()):
                named.append([int(nm[1:]), c13.desc_from_py(kind_of(case, pos), v, s)])
            return {'ext_i': canon(list(c.extent_i)), 'ext': [int(x[1:]) for x in c.extent], 'int_i': ii,
                    'int': named}
        if op == 9:
            kinds = {k: c['kind'] for k, c in zip(case['pnames'], case['cols'])}
            dd = {pname(k): c13.desc_to_py(kinds.get(k, case['ds_kinds'][j]), d, s)
                  for j, (k, d) in enumerate(case['ds'])}
            return parse_described(case, K.describe_pattern(dd), kinds)
        if op == 6:
            return [concept_out(case, c) for c in cca.close_by_one(K, n_projections_to_binarize=case['thr'])]
        return [concept_out(case, c) for c in cca.close_by_one_objectwise(K)]
    _preload()
    if case.get('no_numpy'):
        # the library's own switch for running without numpy: exercises the pure-python branches
        import fcapy
        saved = fcapy.LIB_INSTALLED['numpy']
        fcapy.LIB_INSTALLED['numpy'] = False
        try:
            r = guarded(go, timeout_s=60)
        finally:
            fcapy.LIB_INSTALLED['numpy'] = saved
    else:
        r = guarded(go, timeout_s=60)
    if r[0] == 'err' and r[1] == 'KeyError':
        m = re.search(r"'p(\d+)'", r[2])
        return ['err', 'KeyError', r[2], int(m.group(1)) if m else -1]
    return list(r)


# ------------------------------------------------------------------ Coq terms

def ctx_term(case):
    cols = coq([c13.col_term(c['kind'], c['data']) for c in case['cols']])
    anames = [case['pnames'][j] for j in attr_order(case)]
    return Raw('(mkMV %d %s %s %s %s)' % (case['n'], cols, coq(case['onames']), coq(case['pnames']), coq(anames)))


def descs_term(case, ds):
    return coq([c13.desc_term(kind_of(case, i), d) for i, d in enumerate(ds)])


def concepts_term(case, cs):
    return coq([Raw('(%s, %s)' % (coq(e), descs_term(case, ds))) for e, ds in cs])


def idx_ok(v):
    return isinstance(v, list) and all(isinstance(x, int) and not isinstance(x, bool) and x >= 0 for x in v)


def impl_term(case, out):
    op = case['op']
    if out[0] != 'ok':
        if out[1] == 'KeyError' and op == 2 and len(out) > 3 and out[3] >= 0:
            return '(OKeyErr %d)' % out[3]
        return '(OErr %d)' % ERR_KINDS.get(out[1], 11)
    v = out[1]
    if op == 0:
        return '(OClosures %s)' % coq([Raw('(%s, %s)' % (descs_term(case, ds), coq(e))) for ds, e in v])
    if op in (1, 2):
        return '(OIdx %s)' % coq(v) if idx_ok(v) else '(OErr 12)'
    if op in (3, 9):
        kinds = {k: c['kind'] for k, c in zip(case['pnames'], case['cols'])}
        return '(ODescs %s)' % coq([Raw('(%d, %s)' % (k, c13.desc_term(kinds[k], d))) for k, d in v])
    if op == 8:
        named = coq([Raw('(%d, %s)' % (k, c13.desc_term(kind_of(case, pos), d))) for pos, (k, d) in enumerate(v['int'])])
        if not (idx_ok(v['ext_i']) and idx_ok(v['ext'])):
            return '(OErr 12)'
        return '(OViews %s %s %s %s)' % (coq(v['ext_i']), coq(v['ext']), descs_term(case, v['int_i']), named)
    if op == 10:
        return '(OAgree %s %d %d %d %d %d)' % (coq([bool(x) for x in v['flags']]), v['union'], v['dict'],
                                              v['gen_union'], v['n1'], v['n0'])
    if op == 4:
        return '(OBin %s %d %s %d)' % (coq(v['table']), v['nbin'], coq(v['onames']), v['n_attr_names'])
    if op == 5:
        return '(OLattice %s %s)' % (concepts_term(case, v['concepts']),
                                    coq([Raw('(%s, %s)' % (coq(a), coq(b))) for a, b in v['covers']]))
    return '(OConcepts %s)' % concepts_term(case, v)


def to_coq(case, out):
    op = case['op']
    if op == 1:
        ds = coq([Raw('(%d, %s)' % (i, c13.desc_term(kind_of(case, i), d))) for i, d in case['ds']])
    elif op in (2, 9):
        kinds = {k: c['kind'] for k, c in zip(case['pnames'], case['cols'])}
        ds = coq([Raw('(%d, %s)' % (k, c13.desc_term(kinds.get(k, case['ds_kinds'][j]), d)))
                  for j, (k, d) in enumerate(case['ds'])])
    else:
        ds = '[]'
    return 'Build_c14_case %s %d %s %s %s %d %s' % (
        ctx_term(case), op, coq([list(a) for a in case.get('subsets', [])]), ds, some(case.get('base')),
        case.get('thr', 0), impl_term(case, out))


# ------------------------------------------------------------------ generators

def random_column(rng, n, kind=None, special=None):
    """special = (scale, grid) from c13.special_grid: every interval column of the context uses it"""
    kind = kind or rng.choice(['interval', 'interval_np', 'set', 'attr'])
    if kind in ('interval', 'interval_np'):
        g = rng.randint(1, 4)
        grid = sorted(rng.sample(range(-4, 9), g))
        if special is not None:
            grid = sorted(rng.sample(special[1], min(len(special[1]), rng.randint(2, 4))))
        style = rng.choice(['mixed', 'mixed', 'points', 'proper', 'nested'])
        data = []
        for i in range(n):
            a, b = rng.choice(grid), rng.choice(grid)
            lo, hi = min(a, b), max(a, b)
            if style == 'points':
                hi = lo
            elif style == 'proper' and lo == hi:
                lo, hi = grid[0], grid[-1]
            elif style == 'nested':
                k = min(i, (len(grid) - 1) // 2)
                lo, hi = grid[k], grid[len(grid) - 1 - k]
            data.append([lo, hi])
        if rng.random() < 0.12:
            i = rng.randrange(n)
            data[i] = rng.choice([[-c13.INF, data[i][1]], [data[i][0], c13.INF], [-c13.INF, c13.INF]])
            grid = sorted(set(grid) | {x for x in data[i] if abs(x) >= c13.INF})
        return {'kind': kind, 'data': data, 'grid': grid}
    if kind == 'set':
        u = rng.randint(1, 3)
        symbols = sorted(rng.sample(range(6), u))
        style = rng.choice(['rand', 'rand', 'single', 'withempty', 'allempty'])
        data = []
        for _ in range(n):
            row = [x for x in symbols if rng.random() < 0.5]
            if style == 'single':
                row = [rng.choice(symbols)]
            elif style == 'withempty' and rng.random() < 0.5:
                row = []
            elif style == 'allempty':
                row = []
            data.append(row)
        return {'kind': kind, 'data': data, 'grid': symbols}
    p = rng.choice([0.0, 0.3, 0.5, 0.7, 1.0])
    return {'kind': 'attr', 'data': [rng.random() < p for _ in range(n)], 'grid': None}


def column_descs(col):
    if col['kind'] in ('interval', 'interval_np'):
        return c13.interval_descs(col['grid'], False)[0]
    if col['kind'] == 'set':
        return c13.set_descs(col['grid'])[0]
    return [False, True]


def base_ctx(rng, n, cols, scale=1):
    m = len(cols)
    order = list(range(m))
    if m >= 2 and rng.random() < 0.5:
        while order == list(range(m)):
            rng.shuffle(order)
    return {'n': n, 'scale': scale, 'cols': [{'kind': c['kind'], 'data': c['data']} for c in cols],
            'grids': [c['grid'] for c in cols], 'attr_order': order,
            'alias': rng.random() < 0.3,
            'no_numpy': (rng.random() < 0.35) and all(c['kind'] != 'interval_np' for c in cols),
            'onames': rng.sample(range(60), n), 'pnames': rng.sample(range(60), m)}


def all_subsets(rng, n, limit=64):
    subs = [list(c) for k in range(1, n + 1) for c in itertools.combinations(range(n), k)]
    if len(subs) > limit:
        keep = [a for a in subs if len(a) in (1, n)]
        rest = [a for a in subs if len(a) not in (1, n)]
        subs = keep + rng.sample(rest, max(0, limit - len(keep)))
    shuffled = []
    for _ in range(3):
        a = list(rng.choice(subs))
        rng.shuffle(a)
        shuffled.append(a)
    return [[]] + subs + shuffled


def cases_for_context(rng, ctx, cols, ops=None, origin='random'):
    n, m = ctx['n'], len(cols)
    out = []

    def mk(op, **kw):
        c = dict(ctx)
        c.update({'op': op, 'subsets': [], 'ds': [], 'base': None, 'thr': 0, 'origin': origin})
        c.update(kw)
        return c
    ops = ops or [0, 1, 1, 2, 3, 4, 5, 5, 6, 6, 7, 8, 8, 9, 10]
    for op in ops:
        if op == 0:
            out.append(mk(0, subsets=all_subsets(rng, n)))
        elif op == 1:
            js = rng.sample(range(m), rng.randint(0, m))
            ds = [[j, rng.choice(column_descs(cols[j]))] for j in js]
            base = c13.random_base(rng, n)
            out.append(mk(1, ds=ds, base=base, base_as=rng.choice(['list', 'array'])))
        elif op == 2:
            js = rng.sample(range(m), rng.randint(0, m))
            ds = [[ctx['pnames'][j], rng.choice(column_descs(cols[j]))] for j in js]
            kinds = [cols[j]['kind'] for j in js]
            if rng.random() < 0.2:
                pos = rng.randint(0, len(ds))
                ds.insert(pos, [UNKNOWN + rng.randrange(3), False])
                kinds.insert(pos, 'attr')
            base = c13.random_base(rng, n)
            if base is not None:
                base = [ctx['onames'][g] for g in base]
                if rng.random() < 0.3:
                    base.insert(rng.randint(0, len(base)), UNKNOWN + 7)
            out.append(mk(2, ds=ds, ds_kinds=kinds, base=base))
        elif op == 3:
            a = [ctx['onames'][g] for g in (c13.random_base(rng, n) or [])]
            if rng.random() < 0.3:
                a.append(UNKNOWN + 5)
            out.append(mk(3, subsets=[a]))
        elif op == 4:
            out.append(mk(4))
        elif op == 8:
            a = c13.random_base(rng, n) or []
            out.append(mk(8, subsets=[a], thr=rng.choice([0, 0, 1])))
        elif op == 9:
            js = rng.sample(range(m), rng.randint(0, m))
            ds, kinds = [], []
            for j in js:
                cands = [d for d in column_descs(cols[j]) if not (cols[j]['kind'] == 'set' and d is None)]
                ds.append([ctx['pnames'][j], rng.choice(cands)])
                kinds.append(cols[j]['kind'])
            if rng.random() < 0.15:
                pos = rng.randint(0, len(ds))
                ds.insert(pos, [UNKNOWN + rng.randrange(3), True])
                kinds.insert(pos, 'attr')
            out.append(mk(9, ds=ds, ds_kinds=kinds))
        elif op in (5, 6):
            pass
        elif op == 7:
            out.append(mk(7))
        elif op == 10:
            out.append(mk(10))
    if 5 in ops:
        out.append(mk(5, thr=0))
        out.append(mk(5, thr=1000))
    if 6 in ops:
        out.append(mk(6, thr=0))
        out.append(mk(6, thr=1000))
    return out


def random_context(rng, max_rows):
    n = rng.randint(1, max_rows)
    m = rng.choice([1, 1, 2, 2, 3])
    shape = rng.choice(['any', 'any', 'tall', 'wide'])
    special = c13.special_grid(rng) if rng.random() < 0.25 else None
    cols = [random_column(rng, n, None, special) for _ in range(m)]
    if shape == 'tall':        # more objects than binary attributes
        n = max(n, min(max_rows, 5))
        cols = [random_column(rng, n, rng.choice(['attr', 'attr', 'set'])) for _ in range(rng.choice([1, 2]))]
        for c in cols:
            if c['kind'] == 'set':
                c['data'] = [[x for x in r if x == c['grid'][0]] for r in c['data']]
                c['grid'] = c['grid'][:1]
    elif shape == 'wide':
        n = min(n, 3)
        cols = [random_column(rng, n, rng.choice(['interval', 'interval_np', 'set']), special) for _ in range(m)]
    scale = special[0] if special is not None else rng.choice([1, 2, 4])
    return base_ctx(rng, n, cols, scale), cols


PRE_OPS = ['binarize', 'n_bin_attrs', 'bin_attr_extents', 'closures', 'lattice0', 'lattice1000', 'cbo', 'hash']


def history_cases(rng, max_rows):
    """mutate-then-requery: same shape and structures, one or more columns replaced in place."""
    n = rng.randint(2, max_rows)
    m = rng.choice([1, 1, 2, 2, 3])
    kinds = [rng.choice(['interval', 'interval_np', 'set', 'attr']) for _ in range(m)]
    special = c13.special_grid(rng) if rng.random() < 0.25 else None
    before = [random_column(rng, n, k, special) for k in kinds]
    after = []
    which = set(rng.sample(range(m), rng.randint(1, m)))
    for j, k in enumerate(kinds):
        if j in which:
            for _ in range(5):
                c = random_column(rng, n, k, special)
                if c['data'] != before[j]['data']:
                    break
            after.append(c)
        else:
            after.append(before[j])
    ctx = base_ctx(rng, n, after, special[0] if special is not None else rng.choice([1, 2, 4]))
    hist = {'before': [{'kind': c['kind'], 'data': c['data']} for c in before],
            'pre_ops': rng.sample(PRE_OPS, rng.randint(1, len(PRE_OPS))),
            'how': rng.choice(['data_setter', 'data_setter', 'ps_setter']),
            'requery_twice': rng.random() < 0.2}
    if rng.random() < 0.5 and 'binarize' not in hist['pre_ops']:
        hist['pre_ops'].insert(0, 'binarize')
    out = cases_for_context(rng, ctx, after, ops=[0, 1, 3, 4, 5, 6, 7, 8, 10], origin='history')
    for c in out:
        c['history'] = hist
    return out


def exhaustive_contexts():
    cells = {'interval': [[0, 0], [0, 2], [2, 2]], 'interval_np': [[0, 0], [0, 2], [2, 2]],
             'set': [[], [1]], 'attr': [False, True]}
    grids = {'interval': [0, 2], 'interval_np': [0, 2], 'set': [1], 'attr': None}
    for kind in ('interval', 'interval_np', 'set', 'attr'):
        for n in (1, 2, 3):
            for col in itertools.product(cells[kind], repeat=n):
                yield n, [{'kind': kind, 'data': [list(v) if isinstance(v, list) else v for v in col],
                           'grid': grids[kind]}]
    kinds = ('interval_np', 'set', 'attr')
    for k1 in kinds:
        for k2 in kinds:
            for c1 in itertools.product(cells[k1], repeat=2):
                for c2 in itertools.product(cells[k2], repeat=2):
                    yield 2, [{'kind': k1, 'data': [list(v) if isinstance(v, list) else v for v in c1], 'grid': grids[k1]},
                              {'kind': k2, 'data': [list(v) if isinstance(v, list) else v for v in c2], 'grid': grids[k2]}]


def generate(rng, tier):
    cases = []
    ex = []
    for n, cols in exhaustive_contexts():
        ctx = base_ctx(rng, n, cols)
        ex += cases_for_context(rng, ctx, cols, ops=[0, 4, 5, 6, 7, 8, 10], origin='exhaustive')
    if tier == 'thorough':
        cases += ex
        n_ctx, n_hist, rows = 2000, 600, 9
    else:
        cases += rng.sample(ex, 300)
        n_ctx, n_hist, rows = 190, 60, 6
    for _ in range(n_ctx):
        ctx, cols = random_context(rng, rows)
        cases += cases_for_context(rng, ctx, cols)
    for _ in range(n_hist):
        cases += history_cases(rng, min(rows, 7))
    return cases


# ------------------------------------------------------------------ statistics, shrinking

def n_concepts_hint(case):
    return None


def nontrivial(case):
    if case['n'] < 2:
        return False
    varied = any(len(set(map(str, c['data']))) > 1 for c in case['cols'])
    return varied


def stats(case):
    kinds = '+'.join(sorted(c['kind'] for c in case['cols']))
    nbin = 0
    for c in case['cols']:
        if c['kind'] in ('interval', 'interval_np'):
            nbin += len(set(v[0] for v in c['data'])) + len(set(v[1] for v in c['data']))
        elif c['kind'] == 'set':
            nbin += 2 ** len(set(x for r in c['data'] for x in r))
        else:
            nbin += 1
    d = {'op': case['op'], 'rows': case['n'], 'columns': len(case['cols']), 'kinds': kinds,
         'origin': case.get('origin', ''), 'shape': 'objects<=bin_attrs' if case['n'] <= nbin else 'objects>bin_attrs'}
    if case['op'] in (5, 6):
        d['path'] = 'objectwise' if case['thr'] < nbin else 'binarise'
    d['grid'] = 'fine 2^-30' if case.get('scale', 1) == 2 ** 30 else (
        'big ints' if any(abs(x) >= 2 ** 24 for c in case['cols'] if c['kind'].startswith('interval')
                          for v in c['data'] for x in v) else 'small')
    d['alias_probe'] = bool(case.get('alias'))
    d['numpy_switch'] = 'off' if case.get('no_numpy') else 'on'
    d['name_order'] = 'same' if attr_order(case) == list(range(len(case['cols']))) else 'permuted'
    if case.get('history'):
        d['history'] = case['history'].get('how', '')
        d['history_pre_ops'] = len(case['history'].get('pre_ops', []))
    return d


def shrink(case):
    out = []
    n = case['n']

    def reidx(lst, k):
        return [x - 1 if x > k else x for x in lst if x != k]
    by_name = case['op'] in (2, 3)
    if n > 1:
        for k in range(n):
            c = dict(case)
            c['n'] = n - 1
            c['cols'] = [{'kind': col['kind'], 'data': [v for i, v in enumerate(col['data']) if i != k]}
                         for col in case['cols']]
            c['onames'] = [v for i, v in enumerate(case['onames']) if i != k]
            if case.get('history'):
                hh = dict(case['history'])
                hh['before'] = [{'kind': col['kind'], 'data': [v for i, v in enumerate(col['data']) if i != k]}
                                for col in case['history']['before']]
                c['history'] = hh
            if not by_name:
                c['subsets'] = [reidx(a, k) for a in case.get('subsets', [])]
                c['base'] = None if case.get('base') is None else reidx(case['base'], k)
            out.append(c)
    m = len(case['cols'])
    if m > 1 and case['op'] not in (1, 2):
        for j in range(m):
            c = dict(case)
            c['cols'] = [col for i, col in enumerate(case['cols']) if i != j]
            c['pnames'] = [v for i, v in enumerate(case['pnames']) if i != j]
            c['attr_order'] = [x - 1 if x > j else x for x in attr_order(case) if x != j]
            if case.get('history'):
                hh = dict(case['history'])
                hh['before'] = [col for i, col in enumerate(case['history']['before']) if i != j]
                c['history'] = hh
            out.append(c)
    for flag in ('alias', 'no_numpy'):
        if case.get(flag):
            c = dict(case)
            c[flag] = False
            out.append(c)
    if attr_order(case) != list(range(m)):
        c = dict(case)
        c['attr_order'] = list(range(m))
        out.append(c)
    if case['op'] == 0 and len(case['subsets']) > 1:
        v = case['subsets']
        half = len(v) // 2
        for part in (v[:half], v[half:]):
            c = dict(case)
            c['subsets'] = part
            out.append(c)
    if case.get('history'):
        c = dict(case)
        c.pop('history')
        out.append(c)                       # does it fail without any history?
        pre = case['history'].get('pre_ops', [])
        for i in range(len(pre)):
            hh = dict(case['history'])
            hh['pre_ops'] = pre[:i] + pre[i + 1:]
            hh['requery_twice'] = False
            c = dict(case)
            c['history'] = hh
            out.append(c)
        return out
    # simplify cell values
    for j, col in enumerate(case['cols']):
        for g, v in enumerate(col['data']):
            simple = {'interval': [0, 0], 'interval_np': [0, 0], 'set': [], 'attr': False}[col['kind']]
            if v != simple and not (col['kind'] != 'attr' and isinstance(v, list) and v == simple):
                c = dict(case)
                cols = [dict(x) for x in case['cols']]
                cols[j]['data'] = [simple if i == g else w for i, w in enumerate(col['data'])]
                c['cols'] = cols
                out.append(c)
    return out

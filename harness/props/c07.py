"""C07 — every serialisation format round-trips contexts, concepts and lattices.

Case kinds
  ctx : a formal context through cxt / csv (real temp file) / json / pandas, on the three back-ends
  mv  : a many-valued context (IntervalPS / IntervalNumpyPS / SetPS / AttributePS columns) through json
  fc  : a FormalConcept through to_dict/from_dict or write_json/read_json
  pc  : a PatternConcept through write_json/read_json (to_dict(json_ready=True))
  lat : a ConceptLattice (formal, monotone, or pattern) through write_json/read_json
The outcome carries what the implementation wrote and what it read back; the Coq check compares the
written thing with the model's (text byte for byte; JSON as parsed values; arcs as a sorted list) and
the read-back value with the model reader's and with the original (the round trip itself).
"""
import json
import os
import random
import tempfile
from fractions import Fraction
from harness.core import coq, Raw, guarded, canon, zlit, ERR_KINDS
from harness import gen

ID = 'C07'
COQ_IMPORTS = ['FCA.Corr.C07']
CASE_TYPE = 'c07_case'
CHECK = 'c07_check'
SHOW = 'c07_show'
SHARD = 100
RULE = ('ctx cases: random structured tables (1x1, rows with no crosses, ...) x {cxt, csv via a real file, json, '
        'pandas} x 3 back-ends, names from the admissible alphabet (unicode, inner spaces, digits, X, ., quotes), duplicate object / attribute '
        'names (legal: contexts are positional) in every format, histories (context built with other names / '
        'description / table, used -- json, hash_fixed, lattice, data, derivations -- then updated through each '
        'public setter, judged against the model of the NEW content) '
        'plus white-space separators (tab, blank: the repaired defect D57) and words with blanks, and a separate '
        'inadmissible stream (newline / separator / empty / leading white space in names, equal words, separator in a word); mv cases: tables mixing IntervalPS, IntervalNumpyPS, SetPS, '
        'AttributePS with point cells, interval cells, infinite end points of either sign on either side '
        '((a, inf), (-inf, b), inf, -inf, (inf, inf), (-inf, -inf): json writes Infinity) and empty sets; fc/pc cases: concepts built by from_objects '
        'with measures (incl. values 0, 0.0, False, None, the empty string), plus non-canonical ones (is_extent with a permuted subset, foreign name orders); lat cases: '
        'lattices of formal contexts (plain and monotone) and of many-valued contexts (numpy path), incl. < 3 '
        'concepts, measures hand-set (zero-like values included) and computed by calc_concepts_measures, histories '
        'before writing (re-adding the top / the bottom / inner concepts, removing and adding inner concepts, merging '
        'a second lattice), the lattice being judged by the order of its concept list; contexts, '
        'concepts and lattices with 11-14 objects / attributes / pattern structures (string keys, sorted orders); '
        'non-trivial = table not constant and at least 2x2 (ctx/mv), >= 4 concepts (lat)')
FMT = {'cxt': 0, 'csv': 1, 'json': 2, 'pandas': 3}
BACKENDS = ['BinTableLists', 'BinTableNumpy', 'BinTableBitarray']
PTYPES = ['IntervalPS', 'SetPS', 'AttributePS', 'IntervalNumpyPS']
PT_COQ = {'IntervalPS': 'PInterval', 'SetPS': 'PSet', 'AttributePS': 'PAttr', 'IntervalNumpyPS': 'PIntervalNp'}
GRID = 1024


# ------------------------------------------------------------------ Coq literals

def nstr(s):
    if not s:
        return '[]'
    return '[' + '; '.join(str(ord(c)) for c in s) + ']%N'


def nstrs(l):
    return '[' + '; '.join(nstr(s) for s in l) + ']'


def ostr(s):
    return 'None' if s is None else '(Some %s)' % nstr(s)


def oz(h):
    return 'None' if h is None else '(Some %s)' % zlit(h)


class Doc:
    """A JSON string whose content is itself JSON text (already parsed)."""
    def __init__(self, v):
        self.v = v


INF = float('inf')


def grid(x):
    """float -> its multiple of 1/1024 as an int, or 'inf' / '-inf'."""
    x = float(x)
    if x == INF:
        return 'inf'
    if x == -INF:
        return '-inf'
    if x != x:
        raise ValueError('NaN is outside the model')
    fr = Fraction(x) * GRID
    if fr.denominator != 1 or abs(fr.numerator) > 10 ** 12:
        import struct
        return ['bits', struct.unpack('<q', struct.pack('<d', x))[0]]   # any other float: its bit pattern
    return int(fr)


def fnum(g):
    """A grid value (int or 'inf' / '-inf') as a Coq fnum."""
    if g == 'inf':
        return 'FPosInf'
    if g == '-inf':
        return 'FNegInf'
    if isinstance(g, list):
        return '(FBits %s)' % zlit(g[1])
    return '(FFin %s)' % zlit(g)


def jv(v):
    if isinstance(v, Doc):
        return '(JDoc %s)' % jv(v.v)
    if v is None:
        return 'JNull'
    if isinstance(v, bool):
        return '(JBool %s)' % ('true' if v else 'false')
    if isinstance(v, int):
        return '(JInt %s)' % zlit(v)
    if isinstance(v, float):
        return '(JFlt %s)' % fnum(grid(v))
    if isinstance(v, str):
        return '(JStr %s)' % nstr(v)
    if isinstance(v, (list, tuple)):
        return '(JArr [%s])' % '; '.join(jv(x) for x in v)
    if isinstance(v, dict) or hasattr(v, 'items'):
        return '(JObj [%s])' % '; '.join('(%s, %s)' % (nstr(str(k)), jv(x)) for k, x in v.items())
    raise TypeError('not a JSON value: %r' % (v,))


def table_term(t):
    return coq([[bool(x) for x in r] for r in t])


def sctx_term(on, an, desc, t):
    return '(mk_sctx %s %s %s %s)' % (nstrs(on), nstrs(an), ostr(desc), table_term(t))


def err_term(ctor, out):
    return '(%s %d)' % (ctor, ERR_KINDS.get(out[1], 11))


# ------------------------------------------------------------------ formal contexts

def make_formal(c):
    from fcapy.context import FormalContext
    return FormalContext(data=[list(r) for r in c['table']], object_names=list(c['onames']),
                         attribute_names=list(c['anames']), description=c.get('desc'),
                         backend=c.get('backend', 'BinTableBitarray'))


def ctx_fields(K):
    return [list(K.object_names), list(K.attribute_names), K.description, canon(K.data.to_list())]


def warm_formal(K, ops):
    from fcapy.lattice import ConceptLattice
    for op in ops:
        if op == 'json':
            K.write_json()
        elif op == 'hash':
            K.hash_fixed()
        elif op == 'cxt':
            K.write_cxt()
        elif op == 'pandas':
            K.to_pandas()
        elif op == 'lattice':
            try:
                ConceptLattice.from_context(K)
            except Exception:  # noqa
                pass
        elif op == 'derive':
            K.intention(list(K.object_names)[:1])
            K.extension(list(K.attribute_names)[:1])


def make_formal_hist(case):
    """The context of the case; with a history: built with the initial names / description, used (so
    that anything cacheable is cached), then brought to the case's names through the public setters."""
    init = case.get('init')
    if not init:
        return make_formal(case)
    c0 = dict(case)
    c0.update(init)
    K = make_formal(c0)
    warm_formal(K, case.get('warm', []))
    if init.get('onames') != case['onames']:
        K.object_names = list(case['onames'])
    if init.get('anames') != case['anames']:
        K.attribute_names = list(case['anames'])
    if init.get('desc') != case.get('desc'):
        K.description = case.get('desc')
    return K


def run_ctx(case):
    from fcapy.context import FormalContext
    K = make_formal_hist(case)
    fmt = case['fmt']

    def write():
        if fmt == 'cxt':
            return ['text', K.write_cxt()]
        if fmt == 'csv':
            kw = dict(sep=case['sep'], word_true=case['wt'], word_false=case['wf'])
            text = K.write_csv(**kw)
            fd, path = tempfile.mkstemp(suffix='.csv')
            os.close(fd)
            try:
                K.write_csv(path, **kw)
                with open(path, 'r', newline='') as f:
                    on_disk = f.read()
            finally:
                os.remove(path)
            if on_disk != text:
                raise RuntimeError('write_csv(path) and write_csv() differ')
            return ['text', text]
        if fmt == 'json':
            text = K.write_json()
            return ['json', json.loads(text), text]
        df = K.to_pandas()
        return ['frame', [[str(x) for x in df.index.tolist()], [str(x) for x in df.columns.tolist()],
                          canon(df.values.tolist())], df]
    w = guarded(write, 20)
    if w[0] != 'ok':
        return {'w': ['err', w[1], w[2]], 'r': ['err', 'Other', 'nothing written']}
    wv = w[1]

    def read():
        if fmt == 'cxt':
            K2 = FormalContext.read_cxt(data=wv[1])
            if '\r' not in wv[1]:
                fd, path = tempfile.mkstemp(suffix='.cxt')
                os.close(fd)
                try:
                    K.write_cxt(path)
                    K3 = FormalContext.read_cxt(path)
                finally:
                    os.remove(path)
                if ctx_fields(K3) != ctx_fields(K2):
                    raise RuntimeError('read_cxt(path) and read_cxt(data) differ')
            return ctx_fields(K2)
        if fmt == 'csv':
            fd, path = tempfile.mkstemp(suffix='.csv')
            os.close(fd)
            try:
                K.write_csv(path, sep=case['sep'], word_true=case['wt'], word_false=case['wf'])
                K2 = FormalContext.read_csv(path, sep=case['sep'], word_true=case['wt'], word_false=case['wf'])
            finally:
                os.remove(path)
            return ctx_fields(K2)
        if fmt == 'json':
            return ctx_fields(FormalContext.read_json(data=wv[2]))
        return ctx_fields(FormalContext.from_pandas(wv[2]))
    r = guarded(read, 20)
    out_w = wv[:2]
    return {'w': out_w, 'r': ['ok', r[1]] if r[0] == 'ok' else ['err', r[1], r[2]]}


def written_term(w):
    if w[0] == 'text':
        return '(WText %s)' % nstr(w[1])
    if w[0] == 'json':
        return '(WJson %s)' % jv(w[1])
    if w[0] == 'frame':
        return '(WFrame (mk_frame %s %s %s))' % (nstrs(w[1][0]), nstrs(w[1][1]), table_term(w[1][2]))
    return err_term('WErr', w)


def ctx_to_coq(case, o):
    r = o['r']
    if r[0] == 'ok':
        on, an, desc, t = r[1]
        ok_shape = (all(isinstance(x, str) for x in on + an) and (desc is None or isinstance(desc, str))
                    and all(isinstance(v, bool) for row in t for v in row))
        rt = '(RCtx %s)' % sctx_term(on, an, desc, t) if ok_shape else '(RCtxErr 12)'
    else:
        rt = err_term('RCtxErr', r)
    sep = case.get('sep', ',')
    return 'CtxCase %d %d%%N %s %s %s %s %s' % (
        FMT[case['fmt']], ord(sep[0]), nstr(case.get('wt', 'True')), nstr(case.get('wf', 'False')),
        sctx_term(case['onames'], case['anames'], case.get('desc'), case['table']), written_term(o['w']), rt)


# ------------------------------------------------------------------ many-valued contexts

def q4(x):
    return INF if x == 'inf' else (-INF if x == '-inf' else x / 4.0)


def g4(x):
    return x if isinstance(x, str) else x * (GRID // 4)


def cell_value(cell):
    tag = cell[0]
    if tag == 'i':
        return (q4(cell[1]), q4(cell[2]))
    if tag == 'n':
        return q4(cell[1])
    if tag == 's':
        return set(cell[1])
    return bool(cell[1])


def make_mv(c):
    from fcapy.mvcontext import MVContext, PS
    ptypes = {n: getattr(PS, t) for n, t in zip(c['anames'], c['ptypes'])}
    data = [[cell_value(x) for x in row] for row in c['data']]
    return MVContext(data=data, pattern_types=ptypes, object_names=list(c['onames']),
                     attribute_names=list(c['anames']), description=c.get('desc'))


def cellv_of(x):
    """A description / data cell of the implementation -> canonical JSON-able form."""
    import numpy as np
    if x is None:
        return ['none']
    if isinstance(x, (bool, np.bool_)):
        return ['b', bool(x)]
    if isinstance(x, (set, frozenset)):
        if not all(isinstance(e, (int, np.integer)) and not isinstance(e, bool) for e in x):
            raise TypeError('set element is not an int')
        return ['s', sorted(int(e) for e in x)]
    if isinstance(x, (tuple, list, np.ndarray)) and len(x) == 2:
        return ['i', grid(x[0]), grid(x[1])]
    raise TypeError('unexpected cell %r' % (x,))


def cellv_term(c):
    if c[0] == 'none':
        return 'CNone'
    if c[0] == 'b':
        return '(CBool %s)' % coq(c[1])
    if c[0] == 's':
        return '(CSet [%s])' % '; '.join(zlit(e) for e in c[1])
    return '(CInterval %s %s)' % (fnum(c[1]), fnum(c[2]))


def mv_fields(K):
    return [list(K.object_names), list(K.attribute_names), K.description,
            [type(ps).__name__ for ps in K.pattern_structures],
            [[cellv_of(x) for x in row] for row in K.data]]


def smv_term(f):
    on, an, desc, pts, rows = f
    return '(mk_smv %s %s %s [%s] [%s])' % (
        nstrs(on), nstrs(an), ostr(desc), '; '.join(PT_COQ[p] for p in pts),
        '; '.join('[' + '; '.join(cellv_term(c) for c in row) + ']' for row in rows))


def mv_docs(v):
    """Mark the nested JSON strings of MVContext.write_json."""
    v = json.loads(json.dumps(v))
    for line in v[1]['Data']:
        line['PValues'] = [Doc(json.loads(s)) for s in line['PValues']]
    return v


def cell_expected(cell):
    tag = cell[0]
    if tag == 'i':
        return ['i', g4(cell[1]), g4(cell[2])]
    if tag == 'n':
        return ['i', g4(cell[1]), g4(cell[1])]
    if tag == 's':
        return ['s', sorted(cell[1])]
    return ['b', bool(cell[1])]


def mv_expected(c):
    """The many-valued context the case describes, computed from the case alone (never read back from
    the implementation's object, whose views may be stale)."""
    return [list(c['onames']), list(c['anames']), c.get('desc'), list(c['ptypes']),
            [[cell_expected(x) for x in row] for row in c['data']]]


def make_mv_hist(case):
    from fcapy.lattice import ConceptLattice
    init = case.get('init')
    if not init:
        return make_mv(case)
    c0 = dict(case)
    c0.update(init)
    K = make_mv(c0)
    for op in case.get('warm', []):
        if op == 'json':
            K.write_json()
        elif op == 'hash':
            K.hash_fixed()
        elif op == 'data':
            K.data
        elif op == 'lattice':
            try:
                ConceptLattice.from_context(K)
            except Exception:  # noqa
                pass
        elif op == 'derive':
            K.extension_i(K.intention_i([0]))
    if c0['data'] != case['data']:
        values = [[cell_value(x) for x in row] for row in case['data']]
        if case.get('via') == 'column':     # correct each changed column in place
            for j in range(len(case['ptypes'])):
                if [r[j] for r in c0['data']] != [r[j] for r in case['data']]:
                    K.pattern_structures[j].data = [row[j] for row in values]
        else:                               # replace the structures through the setter
            K.pattern_structures = K.assemble_pattern_structures(values, K.pattern_types)
    if c0['onames'] != case['onames']:
        K.object_names = list(case['onames'])
    if c0.get('desc') != case.get('desc'):
        K.description = case.get('desc')
    if c0['anames'] != case['anames']:
        K.attribute_names = list(case['anames'])
    return K


def run_mv(case):
    from fcapy.mvcontext import MVContext
    K = make_mv_hist(case)
    inp = mv_expected(case)
    w = guarded(lambda: K.write_json(), 20)
    if w[0] != 'ok':
        return {'in': inp, 'w': ['err', w[1], w[2]], 'r': ['err', 'Other', 'nothing written']}
    text = w[1]
    r = guarded(lambda: mv_fields(MVContext.read_json(json_data=text)), 20)
    return {'in': inp, 'w': ['json', json.loads(text)], 'r': ['ok', r[1]] if r[0] == 'ok' else ['err', r[1], r[2]]}


def mv_to_coq(case, o):
    w = o['w']
    wt = '(WJson %s)' % jv(mv_docs(w[1])) if w[0] == 'json' else err_term('WErr', w)
    r = o['r']
    rt = '(RMv %s)' % smv_term(r[1]) if r[0] == 'ok' else err_term('RMvErr', r)
    return 'MvCase %s %s %s' % (smv_term(o['in']), wt, rt)


# ------------------------------------------------------------------ concepts

def meas_term(m):
    return '[' + '; '.join('(%s, %s)' % (nstr(k), jv(v)) for k, v in m) + ']'


def meas_canon(v):
    """A measure value as a JSON-able value; a tuple is marked, so that (a, b) and [a, b] differ: the
    measures the library itself computes must read back with the same type."""
    if isinstance(v, tuple):
        return {'__tuple__': [meas_canon(x) for x in v]}
    return canon(v)


def fc_fields(c):
    return [canon(list(c.extent_i)), list(c.extent), canon(list(c.intent_i)), list(c.intent),
            [[k, meas_canon(v)] for k, v in c.measures.items()], canon(c.context_hash), bool(c.is_monotone)]


def fcv_term(f):
    ei, en, ii, inn, meas, h, mono = f
    return '(mk_fcv %s %s %s %s %s %s %s)' % (coq(ei), nstrs(en), coq(ii), nstrs(inn), meas_term(meas), oz(h),
                                              coq(mono))


def measure_value(m):
    """[key, n] (float n/1024) or [key, tag, n]: 'f' float n/1024, 'i' int n, 'b' bool, 'n' None, 's' str."""
    if len(m) == 2:
        return float(m[1]) / GRID
    tag, n = m[1], m[2]
    if tag == 'f':
        return float(n) / GRID
    if tag == 'i':
        return int(n)
    if tag == 'b':
        return bool(n)
    if tag == 's':
        return str(n)
    return None


def set_measures(c, ms):
    for m in ms:
        c.measures[m[0]] = measure_value(m)


def build_fc(case):
    from fcapy.lattice.formal_concept import FormalConcept
    K = make_formal(case['ctx'])
    base = FormalConcept.from_objects(list(case['objs']), K, is_extent=case.get('is_extent', False))
    h = {'ctx': base.context_hash, 'none': None}.get(case.get('hash', 'ctx'), case.get('hash'))
    c = FormalConcept(base.extent_i, base.extent, base.intent_i, base.intent,
                      context_hash=h, is_monotone=bool(case.get('mono', False)))
    set_measures(c, case.get('measures', []))
    return K, c


def run_fc(case):
    from fcapy.lattice.formal_concept import FormalConcept
    K, c = build_fc(case)
    objs = list(case['objs_order']) if case.get('objs_order') is not None else list(K.object_names)
    attrs = list(case['attrs_order']) if case.get('attrs_order') is not None else list(K.attribute_names)
    inp = fc_fields(c)
    if case['level'] == 'dict':
        w = guarded(lambda: c.to_dict(objs, attrs), 20)
        if w[0] != 'ok':
            return {'in': inp, 'orders': [objs, attrs], 'w': ['err', w[1], w[2]], 'r': ['err', 'Other', '']}
        d = w[1]
        wv = json.loads(json.dumps(d))
        r = guarded(lambda: fc_fields(FormalConcept.from_dict(dict(d))), 20)
    else:
        w = guarded(lambda: c.write_json(objs, attrs), 20)
        if w[0] != 'ok':
            return {'in': inp, 'orders': [objs, attrs], 'w': ['err', w[1], w[2]], 'r': ['err', 'Other', '']}
        text = w[1]
        wv = json.loads(text)
        r = guarded(lambda: fc_fields(FormalConcept.read_json(json_data=text)), 20)
    return {'in': inp, 'orders': [objs, attrs], 'w': ['json', wv],
            'r': ['ok', r[1]] if r[0] == 'ok' else ['err', r[1], r[2]]}


def fc_to_coq(case, o):
    w = o['w']
    wt = '(WJson %s)' % jv(w[1]) if w[0] == 'json' else err_term('WErr', w)
    r = o['r']
    rt = '(RFc %s)' % fcv_term(r[1]) if r[0] == 'ok' else err_term('RFcErr', r)
    return 'FcCase %s %s %s %s %s' % (nstrs(o['orders'][0]), nstrs(o['orders'][1]), fcv_term(o['in']), wt, rt)


def pc_fields(c):
    n = len(c.intent_i)
    intent = [cellv_of(c.intent_i[j]) for j in range(n)]
    names = list(c._attribute_names)
    if [cellv_of(c.intent[a]) for a in names] != intent:
        raise RuntimeError('intent and intent_i disagree')
    pts = [c.pattern_types[a].__name__ for a in names]
    if list(c.pattern_types.keys()) != names:
        raise RuntimeError('pattern_types keys are not the attribute names in order')
    return [canon(list(c.extent_i)), list(c.extent), intent, pts, names,
            [[k, meas_canon(v)] for k, v in c.measures.items()], canon(c.context_hash)]


def pcv_term(f):
    ei, en, intent, pts, names, meas, h = f
    return '(mk_pcv %s %s [%s] [%s] %s %s %s)' % (
        coq(ei), nstrs(en), '; '.join(cellv_term(c) for c in intent), '; '.join(PT_COQ[p] for p in pts),
        nstrs(names), meas_term(meas), oz(h))


def pc_docs(d):
    """Mark the nested JSON strings of PatternConcept.to_dict(json_ready=True)."""
    d = json.loads(json.dumps(d))
    if isinstance(d.get('Int'), dict):
        for key in ('Inds', 'Names'):
            if isinstance(d['Int'].get(key), dict):
                d['Int'][key] = {k: Doc(json.loads(s)) for k, s in d['Int'][key].items()}
    return d


def run_pc(case):
    from fcapy.lattice.pattern_concept import PatternConcept
    K = make_mv(case['ctx'])
    c = PatternConcept.from_objects(list(case['objs']), K, is_extent=case.get('is_extent', False))
    set_measures(c, case.get('measures', []))
    inp = pc_fields(c)
    w = guarded(lambda: c.write_json(), 20)
    if w[0] != 'ok':
        return {'in': inp, 'w': ['err', w[1], w[2]], 'r': ['err', 'Other', '']}
    text = w[1]
    r = guarded(lambda: pc_fields(PatternConcept.read_json(json_data=text)), 20)
    return {'in': inp, 'w': ['json', json.loads(text)], 'r': ['ok', r[1]] if r[0] == 'ok' else ['err', r[1], r[2]]}


def pc_to_coq(case, o):
    w = o['w']
    wt = '(WJson %s)' % jv(pc_docs(w[1])) if w[0] == 'json' else err_term('WErr', w)
    r = o['r']
    rt = '(RPc %s)' % pcv_term(r[1]) if r[0] == 'ok' else err_term('RPcErr', r)
    return 'PcCase %s %s %s' % (pcv_term(o['in']), wt, rt)


# ------------------------------------------------------------------ lattices

def lat_fields(L):
    from fcapy.lattice.pattern_concept import PatternConcept
    cs = []
    for c in L:
        cs.append(['P', pc_fields(c)] if isinstance(c, PatternConcept) else ['F', fc_fields(c)])
    children = [[int(k), sorted(int(x) for x in v)] for k, v in sorted(L.children_dict.items())]
    return [cs, children, int(L.top), int(L.bottom)]


def order_view(cs, observed):
    """Cover relation, top and bottom that the ORDER of the concepts defines (extent inclusion, reversed
    for monotone concepts), computed from the concept fields alone; where the order has no unique top /
    bottom the observed one is kept."""
    ext = [set(f[0]) for _, f in cs]
    mono = [bool(f[6]) if t == 'F' else False for t, f in cs]
    n = len(cs)

    def leq(i, j):
        return ext[j] <= ext[i] if mono[i] else ext[i] <= ext[j]

    def lt(i, j):
        return leq(i, j) and not leq(j, i)
    children = [[i, [j for j in range(n) if lt(j, i) and not any(lt(j, k) and lt(k, i) for k in range(n))]]
                for i in range(n)]
    tops = [i for i in range(n) if all(leq(j, i) for j in range(n))]
    bottoms = [i for i in range(n) if all(leq(i, j) for j in range(n))]
    return [cs, children, tops[0] if len(tops) == 1 else observed[2], bottoms[0] if len(bottoms) == 1 else observed[3]]


def apply_history(L, K, ops, r0):
    """A history before writing: re-add concepts the lattice already has (top, bottom, inner ones), remove
    inner concepts, add them again (new elements), merge a second lattice of the same context."""
    from fcapy.lattice import ConceptLattice
    for op in ops:
        try:
            n = len(L)
            if op == 'readd_top':
                L.add(L[L.top])
            elif op == 'readd_bottom':
                L.add(L[L.bottom])
            elif op == 'readd_inner':
                L.add(L[r0.randrange(n)])
            elif op == 'remove_inner':
                inner = [i for i in range(n) if i not in (L.top, L.bottom)]
                if inner and n > 3:
                    L.remove(L[r0.choice(inner)])
            elif op == 'remove_add':
                inner = [i for i in range(n) if i not in (L.top, L.bottom)]
                if inner and n > 3:
                    c = L[r0.choice(inner)]
                    L.remove(c)
                    L.add(c)
            elif op == 'merge':
                other = ConceptLattice.from_context(K, is_monotone=True) if getattr(L, 'is_monotone', False) \
                    else ConceptLattice.from_context(K)
                for c in other:
                    L.add(c)
        except (KeyError, AssertionError, ValueError, IndexError):   # poset surgery is C09-C11's business
            pass


def concepts_term(cs):
    return '[' + '; '.join(('(PC %s)' % pcv_term(f)) if t == 'P' else ('(FC %s)' % fcv_term(f)) for t, f in cs) + ']'


def run_lat(case):
    import warnings
    from fcapy.lattice import ConceptLattice
    warnings.simplefilter('ignore')
    K = make_mv(case['ctx']) if 'ptypes' in case['ctx'] else make_formal(case['ctx'])
    try:
        L = ConceptLattice.from_context(K, is_monotone=True) if case.get('mono') else ConceptLattice.from_context(K)
    except Exception:  # noqa  (mining a lattice is C02 / C14's business: D16, D17)
        return {'skip': True}
    if len(L) > case.get('max_concepts', 40):
        return {'skip': True}
    r0 = random.Random(case.get('mseed', 0))
    mm = case.get('measures')
    if mm is True:
        mm = ['hand']
    for mode in (mm or []):
        if mode == 'hand':
            for c in L:
                c.measures['stab'] = r0.randrange(0, GRID + 1) / GRID
                if r0.random() < 0.5:
                    c.measures['lift'] = float(r0.randrange(-5, 6))
        elif mode == 'zeros':       # values that are falsy: 0, 0.0, False, None, '' -- measures all the same
            for c in L:
                for key, val in (('zero', 0), ('fzero', 0.0), ('flag', False), ('nothing', None), ('text', '')):
                    if r0.random() < 0.6:
                        c.measures[key] = val
                if r0.random() < 0.5:
                    c.measures['delta'] = r0.choice([0.0, 0.0, 0.5, -0.25])
        else:                       # computed by the library: stability bounds contain exact zeros
            if mode == 'stability' and K.n_objects > 8:
                continue            # exact stability is exponential in the number of objects
            try:
                L.calc_concepts_measures(mode, K) if mode == 'stability' else L.calc_concepts_measures(mode)
            except Exception:  # noqa  (computing measures is C16's business)
                pass
    apply_history(L, K, case.get('history', []), r0)
    obs = lat_fields(L)
    inp = order_view(obs[0], obs)
    objs, attrs = list(K.object_names), list(K.attribute_names)
    w = guarded(lambda: L.write_json(objs, attrs), 30)
    if w[0] != 'ok':
        return {'in': inp, 'obs': obs, 'orders': [objs, attrs], 'w': ['err', w[1], w[2]], 'r': ['err', 'Other', '']}
    text = w[1]
    r = guarded(lambda: lat_fields(ConceptLattice.read_json(json_data=text)), 30)
    return {'in': inp, 'obs': obs, 'orders': [objs, attrs], 'w': ['json', json.loads(text)],
            'r': ['ok', r[1]] if r[0] == 'ok' else ['err', r[1], r[2]]}


def lat_docs(v, pattern):
    v = json.loads(json.dumps(v))
    if pattern:
        v[1]['Nodes'] = [pc_docs(n) for n in v[1]['Nodes']]
    v[2]['Arcs'] = sorted(v[2]['Arcs'], key=lambda a: (a['S'], a['D']))     # a set in the code
    return v


def children_term(ch):
    return '[' + '; '.join('(%d, %s)' % (k, coq(v)) for k, v in ch) + ']'


def lat_to_coq(case, o):
    if o.get('skip'):
        return 'LatCase [] [] (mk_latv [] [] 0 0) (RLatErr 11) (WErr 6) (RLatErr 11)'
    cs, ch, top, bottom = o['in']
    pattern = bool(cs) and cs[0][0] == 'P'
    w = o['w']
    wt = '(WJson %s)' % jv(lat_docs(w[1], pattern)) if w[0] == 'json' else err_term('WErr', w)
    r = o['r']
    if r[0] == 'ok':
        cs2, ch2, t2, b2 = r[1]
        rt = '(RLat %s %s %d %d)' % (concepts_term(cs2), children_term(ch2), t2, b2)
    else:
        rt = err_term('RLatErr', r)
    ob = o['obs']
    obt = '(RLat [] %s %d %d)' % (children_term(ob[1]), ob[2], ob[3])
    return 'LatCase %s %s (mk_latv %s %s %d %d) %s %s %s' % (
        nstrs(o['orders'][0]), nstrs(o['orders'][1]), concepts_term(cs), children_term(ch), top, bottom, obt, wt, rt)


# ------------------------------------------------------------------ dispatch

RUN = {'ctx': run_ctx, 'mv': run_mv, 'fc': run_fc, 'pc': run_pc, 'lat': run_lat}
TO_COQ = {'ctx': ctx_to_coq, 'mv': mv_to_coq, 'fc': fc_to_coq, 'pc': pc_to_coq, 'lat': lat_to_coq}
FALLBACK = {
    'ctx': lambda case: 'CtxCase %d 44%%N [] [] %s (WErr 11) (RCtxErr 12)' % (
        FMT[case['fmt']], sctx_term(case['onames'], case['anames'], case.get('desc'), case['table'])),
    'mv': lambda case: 'MvCase (mk_smv [] [] None [] []) (WErr 12) (RMvErr 12)',
    'fc': lambda case: 'FcCase [] [] (mk_fcv [] [] [] [] [] None false) (WErr 12) (RFcErr 12)',
    'pc': lambda case: 'PcCase (mk_pcv [] [] [] [] [] [] None) (WErr 12) (RPcErr 12)',
    'lat': lambda case: 'LatCase [] [] (mk_latv [] [] 0 0) (RLatErr 12) (WErr 12) (RLatErr 12)',
}


def run_impl(case):
    r = guarded(lambda: RUN[case['kind']](case), 90)
    return list(r)


def to_coq(case, out):
    if out[0] != 'ok':
        return FALLBACK[case['kind']](case)
    try:
        return TO_COQ[case['kind']](case, out[1])
    except (ValueError, TypeError, KeyError):
        # something the value model cannot express (e.g. a float off the grid): a case no model accepts
        return FALLBACK[case['kind']](case)


# ------------------------------------------------------------------ generators

ALPHA = ['a', 'b', 'c', 'Z', 'x', 'X', '.', '0', '7', '12', ' ', '-', '_', '"', "'", '\\', '/', 'é', 'ж', '漢',
         'ß', '\U0001F600', '#', '%', '(', ']', '{', ':', 'True', 'B']


def adm_name(rng, forbid='', min_len=1):
    """A name from the admissible alphabet: no line break, none of `forbid`, no leading white space."""
    while True:
        k = rng.randint(min_len, 4)
        s = ''.join(rng.choice(ALPHA) for _ in range(k))
        if any(ch in s for ch in forbid) or (s and s[0].isspace()):
            continue
        if len(s) >= min_len:
            return s


def names(rng, n, forbid='', unique=True, min_len=1):
    out = []
    while len(out) < n:
        s = adm_name(rng, forbid, min_len)
        if unique and s in out:
            s = s + str(len(out))
        out.append(s)
    return out


def bad_name(rng, fmt, sep):
    r = rng.random()
    base = adm_name(rng, sep if fmt == 'csv' else '')
    if fmt == 'cxt':
        if r < 0.3:
            return base + '\n' + adm_name(rng)
        if r < 0.45:
            return base + '\n\n' + adm_name(rng)
        if r < 0.6:
            return ''
        if r < 0.8:
            return rng.choice([' ', '\t', ' ', ' ', '\r', '\x0b']) + base
        return rng.choice([' ', '\t \t', '　'])
    if r < 0.5:
        return base + sep + adm_name(rng, sep)
    if r < 0.75:
        return base + '\n' + adm_name(rng, sep)
    return sep


SEPS = [',', ',', ',', ';', '|', 'x', ':', '¦']
WS_SEPS = ['\t', '\t', ' ', '\x0b', ' ']
WORDS = [('True', 'False'), ('True', 'False'), ('1', '0'), ('X', ''), ('yes', 'no'), ('T', 'F'), ('да', 'нет'),
         ('is true', ' no '), ('\t+', '-\t')]


def ctx_case(rng, tier, fmt=None, stream=None):
    dim = 6 if tier == 'quick' else 9
    table, kind = gen.random_table(rng, dim, dim)
    if rng.random() < 0.08:     # 11-14 objects or attributes
        table, kind = wide_formal(rng)['table'], 'wide'
    h, w = len(table), len(table[0])
    fmt = fmt or rng.choice(['cxt', 'csv', 'json', 'pandas'])
    stream = stream or ('adm' if rng.random() < 0.7 else 'inadm')
    case = {'kind': 'ctx', 'fmt': fmt, 'backend': rng.choice(BACKENDS), 'table': table, 'shape': kind,
            'stream': stream, 'desc': None}
    sep = ','
    if fmt == 'csv':
        sep = rng.choice(SEPS)
        wt, wf = rng.choice(WORDS)
        if sep in wt + wf:
            wt, wf = 'True', 'False'
            if sep in wt + wf:
                sep = ','
        case.update(sep=sep, wt=wt, wf=wf)
    forbid = sep if fmt == 'csv' else ''
    min_len = 0 if fmt in ('csv', 'json', 'pandas') and rng.random() < 0.2 else 1
    unique = fmt == 'pandas' or rng.random() < 0.8
    case['onames'] = names(rng, h, forbid, unique, min_len)
    case['anames'] = names(rng, w, forbid, unique, min_len)
    if fmt == 'json' and rng.random() < 0.6:
        case['desc'] = rng.choice(['', 'a description', 'line1\nline2', 'ünï "quoted" \\ text'])
    if stream == 'adm' and rng.random() < 0.22:      # duplicate names are legal (contexts are positional)
        for which in ('onames', 'anames'):
            l = list(case[which])
            if len(l) >= 2 and rng.random() < 0.75:
                for _ in range(rng.randint(1, max(1, len(l) // 2))):
                    i, j = rng.sample(range(len(l)), 2)
                    l[j] = l[i]
                case[which] = l
        case['stream'] = 'adm-dup'
    if stream == 'adm' and rng.random() < 0.25:      # history: names / description assigned after use
        init = {}
        if rng.random() < 0.6:
            init['onames'] = names(rng, h, forbid, True, 1)
        if rng.random() < 0.6:
            init['anames'] = names(rng, w, forbid, True, 1)
        if rng.random() < 0.4:
            init['desc'] = rng.choice([None, 'old description'])
        if init:
            case['init'] = init
            case['warm'] = rng.sample(['json', 'hash', 'cxt', 'pandas', 'lattice', 'derive'], rng.randint(1, 4))
            case['stream'] = case['stream'] + '-hist'
    if stream == 'inadm' and fmt in ('cxt', 'csv'):
        r = rng.random()
        if fmt == 'csv' and r < 0.45:
            case['sep'] = rng.choice(WS_SEPS)      # admissible since bd678e6 (D57): tab / blank separated files
            case['onames'] = names(rng, h, case['sep'] + sep, unique, 1)
            case['anames'] = names(rng, w, case['sep'] + sep, unique, 1)
            if case['sep'] in case['wt'] + case['wf']:
                case['wt'], case['wf'] = 'True', 'False'
            case['stream'] = 'ws-sep'
        elif fmt == 'csv' and r < 0.55:
            case['wt'] = case['wf']
        elif fmt == 'csv' and r < 0.65:
            case['wt'] = case['wt'] + sep
        else:
            which = rng.choice(['onames', 'anames'])
            k = 0 if (fmt == 'cxt' and rng.random() < 0.5) else rng.randrange(len(case[which]))
            case[which] = list(case[which])
            case[which][k] = bad_name(rng, fmt, sep)
    return case


def mv_data(rng, max_h, max_w, interval_only=False, min_h=1):
    h, w = rng.randint(min_h, max(min_h, max_h)), rng.randint(1, max_w)
    choices = ['IntervalPS', 'IntervalNumpyPS'] if interval_only else PTYPES + ['IntervalPS']
    ptypes = [rng.choice(choices) for _ in range(w)]
    span = rng.choice([2, 8, 40])
    p_inf = rng.choice([0, 0, 0.15, 0.4])
    rows = []
    for _ in range(h):
        row = []
        for t in ptypes:
            if t in ('IntervalPS', 'IntervalNumpyPS'):
                a, b = rng.randint(-span, span), rng.randint(-span, span)
                if rng.random() < p_inf:        # infinite end points, either sign on either side
                    row.append(rng.choice([['i', a, 'inf'], ['i', '-inf', b], ['i', '-inf', 'inf'], ['n', 'inf'],
                                           ['n', '-inf'], ['i', 'inf', 'inf'], ['i', '-inf', '-inf']]))
                else:
                    row.append(['n', a] if rng.random() < 0.5 else ['i', min(a, b), max(a, b)])
            elif t == 'SetPS':
                row.append(['s', sorted(rng.sample(range(-2, 5), rng.randint(0, 3)))])
            else:
                row.append(['b', rng.random() < 0.5])
        rows.append(row)
    return {'onames': names(rng, h), 'anames': names(rng, w), 'ptypes': ptypes, 'data': rows, 'desc': None}


def mv_case(rng, tier):
    c = wide_mv(rng) if rng.random() < 0.15 else mv_data(rng, 6 if tier == 'quick' else 9, 5)
    c['kind'] = 'mv'
    if rng.random() < 0.5:
        c['desc'] = rng.choice(['', 'many-valued', 'two\nlines'])
    if rng.random() < 0.45:     # history: the table / names were different while the object was being used
        other = mv_data(rng, 1, 1)
        init = {}
        if rng.random() < 0.8:
            data = [list(row) for row in c['data']]
            h, w = len(data), len(data[0])
            for _ in range(rng.randint(1, 3)):
                i, j = rng.randrange(h), rng.randrange(w)
                t = c['ptypes'][j]
                if t in ('IntervalPS', 'IntervalNumpyPS'):
                    a = rng.randint(-9, 9)
                    data[i][j] = ['n', a] if rng.random() < 0.5 else ['i', a, a + rng.randint(0, 3)]
                elif t == 'SetPS':
                    data[i][j] = ['s', sorted(rng.sample(range(-2, 5), rng.randint(0, 3)))]
                else:
                    data[i][j] = ['b', not data[i][j][1]]
            init['data'] = data
        if rng.random() < 0.4:
            init['onames'] = names(rng, len(c['onames']))
        if rng.random() < 0.3:
            init['desc'] = rng.choice([None, 'before'])
        if rng.random() < 0.25:
            init['anames'] = names(rng, len(c['anames']))
        if init:
            c['init'] = init
            c['via'] = rng.choice(['column', 'replace'])
            c['warm'] = rng.sample(['json', 'hash', 'data', 'lattice', 'derive'], rng.randint(1, 4))
    return c


def measures(rng):
    out = []
    for k in rng.sample(['stab', 'lift', 'Δ', 'my measure', 'Count', 'LStab', 'zero'], rng.randint(0, 4)):
        r = rng.random()
        if r < 0.5:
            out.append([k, rng.randrange(-3 * GRID, 3 * GRID)])
        else:       # values that are falsy are measures like any other
            out.append([k] + rng.choice([['f', 0], ['f', 0], ['i', 0], ['b', 0], ['n', 0], ['s', ''], ['i', 7], ['b', 1]]))
    return out


def small_formal(rng, dim, min_dim=1):
    table, kind = gen.random_table(rng, dim, dim, min_h=min_dim, min_w=min_dim)
    flat = [v for r in table for v in r]
    if min_dim > 1 and (all(flat) or not any(flat)) and rng.random() < 0.8:
        table = [[rng.random() < 0.5 for _ in r] for r in table]
    return {'onames': names(rng, len(table)), 'anames': names(rng, len(table[0])), 'table': table,
            'backend': rng.choice(BACKENDS), 'desc': None}


def wide_formal(rng):
    """11-14 objects or attributes (index -> string keys, 'sorted' orders: '10' < '2'), the other side small."""
    big = rng.randint(11, 14)
    small = rng.randint(1, 3)
    h, w = (big, small) if rng.random() < 0.5 else (small, big)
    p = rng.choice([0.3, 0.5, 0.8])
    table = [[rng.random() < p for _ in range(w)] for _ in range(h)]
    return {'onames': names(rng, h), 'anames': names(rng, w), 'table': table, 'backend': rng.choice(BACKENDS),
            'desc': None}


def wide_mv(rng):
    """11-14 columns of mixed structures, 1-3 rows."""
    c = mv_data(rng, 3, 1)
    h, w = len(c['data']), rng.randint(11, 14)
    wide = mv_data(rng, 1, 1)
    ptypes = [rng.choice(PTYPES) for _ in range(w)]
    rows = []
    for _ in range(h):
        row = []
        for t in ptypes:
            if t in ('IntervalPS', 'IntervalNumpyPS'):
                a = rng.randint(-8, 8)
                row.append(['n', a] if rng.random() < 0.5 else ['i', a, a + rng.randint(0, 5)])
            elif t == 'SetPS':
                row.append(['s', sorted(rng.sample(range(-2, 5), rng.randint(0, 3)))])
            else:
                row.append(['b', rng.random() < 0.5])
        rows.append(row)
    return {'onames': c['onames'], 'anames': names(rng, w), 'ptypes': ptypes, 'data': rows, 'desc': None}


def fc_case(rng, tier):
    K = wide_formal(rng) if rng.random() < 0.15 else small_formal(rng, 6)
    n = len(K['onames'])
    objs = gen.random_subset(rng, n)
    case = {'kind': 'fc', 'level': rng.choice(['dict', 'json']), 'ctx': K, 'objs': objs, 'measures': measures(rng),
            'hash': rng.choice(['ctx', 'ctx', 'none', 12345]), 'mono': rng.random() < 0.25, 'stream': 'adm'}
    r = rng.random()
    if r < 0.12:        # not canonical: the given (permuted) subset is taken as the extent
        rng.shuffle(case['objs'])
        case['is_extent'] = True
        case['stream'] = 'is_extent'
    elif r < 0.2:       # a name order that is not the context's
        order = list(K['onames'])
        rng.shuffle(order)
        case['objs_order'] = order
        case['stream'] = 'foreign-order'
    elif r < 0.26:      # ... or that misses names
        case['attrs_order'] = list(K['anames'])[:-1]
        case['stream'] = 'short-order'
    elif r < 0.32:
        case['measures'] = case['measures'] + [[rng.choice(['Supp', 'Monotone', 'Context_Hash']), GRID]]
        case['stream'] = 'reserved-measure'
    return case


def pc_case(rng, tier):
    K = wide_mv(rng) if rng.random() < 0.25 else mv_data(rng, 6, 4)
    n = len(K['onames'])
    case = {'kind': 'pc', 'ctx': K, 'objs': gen.random_subset(rng, n), 'measures': measures(rng), 'stream': 'adm'}
    if rng.random() < 0.1:
        rng.shuffle(case['objs'])
        case['is_extent'] = True
        case['stream'] = 'is_extent'
    return case


def lat_case(rng, tier):
    r = rng.random()
    if r < 0.55:
        K = small_formal(rng, 5 if tier == 'quick' else 6, min_dim=1 if rng.random() < 0.1 else 2)
        mono = rng.random() < 0.25
    elif r < 0.65:
        K = wide_formal(rng)
        mono = rng.random() < 0.25
    elif r < 0.8:
        K = wide_mv(rng)
        mono = False
    else:
        K = mv_data(rng, 5, 3, min_h=1 if rng.random() < 0.1 else 3)
        mono = False
    modes = rng.sample(['hand', 'zeros', 'zeros', 'stability_bounds', 'log_stability_lbound', 'stability'],
                       rng.randint(0, 3))
    history = []
    if rng.random() < 0.5:
        history = [rng.choice(['readd_top', 'readd_top', 'readd_bottom', 'readd_inner', 'remove_inner', 'remove_add',
                               'merge', 'merge']) for _ in range(rng.randint(1, 4))]
    return {'kind': 'lat', 'ctx': K, 'mono': mono, 'measures': modes, 'history': history, 'mseed': rng.randrange(10 ** 6),
            'max_concepts': 24 if tier == 'quick' else 40}


def generate(rng, tier):
    quick = tier == 'quick'
    cases = []
    for fmt in ('cxt', 'csv', 'json', 'pandas'):
        # small exhaustive-ish edge shapes first: 1x1 both values, a row / a column with no crosses
        for t in ([[False]], [[True]], [[False, False]], [[False], [False]], [[True, False], [False, False]]):
            c = ctx_case(rng, tier, fmt=fmt, stream='adm')
            c.pop('init', None)
            c['stream'] = 'adm-edge'
            c['table'] = t
            c['onames'] = c['onames'][:len(t)] if len(c['onames']) >= len(t) else names(rng, len(t))
            c['anames'] = c['anames'][:len(t[0])] if len(c['anames']) >= len(t[0]) else names(rng, len(t[0]))
            if fmt == 'csv':
                c['onames'] = names(rng, len(t), c['sep'])
                c['anames'] = names(rng, len(t[0]), c['sep'])
            cases.append(c)
    for _ in range(400 if quick else 7000):
        cases.append(ctx_case(rng, tier))
    for _ in range(110 if quick else 1800):
        cases.append(mv_case(rng, tier))
    for _ in range(120 if quick else 2400):
        cases.append(fc_case(rng, tier))
    for _ in range(90 if quick else 1500):
        cases.append(pc_case(rng, tier))
    for _ in range(80 if quick else 1500):
        cases.append(lat_case(rng, tier))
    rng.shuffle(cases)      # spread the expensive lattice cases over the coqc shards
    return cases


# ------------------------------------------------------------------ evidence helpers

def nontrivial(case):
    k = case['kind']
    if k == 'ctx':
        t = case['table']
        flat = [v for r in t for v in r]
        return len(t) >= 2 and len(t[0]) >= 2 and any(flat) and not all(flat) and str(case.get('stream', '')).startswith(('adm', 'ws-sep'))
    if k == 'mv':
        return len(case['data']) >= 2 and len(case['ptypes']) >= 2
    if k in ('fc', 'pc'):
        return len(case['objs']) >= 1
    return len(case['ctx']['onames']) >= 3


def stats(case):
    d = {'kind': case['kind']}
    if case['kind'] == 'ctx':
        d['fmt'] = case['fmt'] + ':' + case.get('stream', '')
        d['backend'] = case['backend']
        d['shape'] = case.get('shape', '')
    elif case['kind'] == 'mv':
        d['ptypes'] = '+'.join(sorted(set(case['ptypes'])))
        d['mv_history'] = (case.get('via', '') + ':' + '+'.join(sorted(case['init']))) if case.get('init') else 'none'
    elif case['kind'] in ('fc', 'pc'):
        d['stream'] = case['kind'] + ':' + case.get('stream', '') + ':' + case.get('level', 'json')
    else:
        d['lattice'] = ('pattern' if 'ptypes' in case['ctx'] else 'formal') + (':monotone' if case.get('mono') else '')
        d['lat_history'] = '+'.join(sorted(set(case.get('history', [])))) or 'none'
    return d


def shrink(case):
    out = []
    k = case['kind']
    if case.get('init'):        # first try without the history; structural shrinking only without it
        c = dict(case)
        c.pop('init')
        out.append(c)
        init = case['init']
        for key in list(init):
            if len(init) > 1:
                c = dict(case)
                c['init'] = {a: b for a, b in init.items() if a != key}
                out.append(c)
        if len(case.get('warm', [])) > 1:
            c = dict(case)
            c['warm'] = case['warm'][:-1]
            out.append(c)
        return out
    if k == 'ctx':
        t = case['table']
        if len(t) > 1:
            for i in range(len(t)):
                c = dict(case)
                c['table'] = t[:i] + t[i + 1:]
                c['onames'] = case['onames'][:i] + case['onames'][i + 1:]
                out.append(c)
        if len(t[0]) > 1:
            for j in range(len(t[0])):
                c = dict(case)
                c['table'] = [r[:j] + r[j + 1:] for r in t]
                c['anames'] = case['anames'][:j] + case['anames'][j + 1:]
                out.append(c)
        for which in ('onames', 'anames'):
            for i, s in enumerate(case[which]):
                if len(s) > 1:
                    for cut in (s[:-1], s[1:]):
                        c = dict(case)
                        c[which] = case[which][:i] + [cut] + case[which][i + 1:]
                        out.append(c)
    elif k == 'mv':
        rows = case['data']
        if len(rows) > 1:
            for i in range(len(rows)):
                c = dict(case)
                c['data'] = rows[:i] + rows[i + 1:]
                c['onames'] = case['onames'][:i] + case['onames'][i + 1:]
                out.append(c)
        if len(case['ptypes']) > 1:
            for j in range(len(case['ptypes'])):
                c = dict(case)
                c['data'] = [r[:j] + r[j + 1:] for r in rows]
                c['ptypes'] = case['ptypes'][:j] + case['ptypes'][j + 1:]
                c['anames'] = case['anames'][:j] + case['anames'][j + 1:]
                out.append(c)
    elif k in ('fc', 'pc'):
        if case.get('measures'):
            c = dict(case)
            c['measures'] = case['measures'][:-1]
            out.append(c)
        for i in range(len(case['objs'])):
            c = dict(case)
            c['objs'] = case['objs'][:i] + case['objs'][i + 1:]
            out.append(c)
    elif k == 'lat':
        K = case['ctx']
        if case.get('history'):
            for i in range(len(case['history'])):
                c = dict(case)
                c['history'] = case['history'][:i] + case['history'][i + 1:]
                out.append(c)
        if case.get('measures'):
            c = dict(case)
            c['measures'] = list(case['measures'])[:-1] if isinstance(case['measures'], list) else []
            out.append(c)
        key = 'data' if 'ptypes' in K else 'table'
        rows = K[key]
        if len(rows) > 1:
            for i in range(len(rows)):
                c = dict(case)
                K2 = dict(K)
                K2[key] = rows[:i] + rows[i + 1:]
                K2['onames'] = K['onames'][:i] + K['onames'][i + 1:]
                c['ctx'] = K2
                out.append(c)
    return out

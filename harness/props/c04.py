"""C04 — the reduced-labelled line diagram is a lossless representation of the context.

One case = one boolean table x back-end x construction algorithm x object/attribute names.  The
implementation builds the lattice; for every concept the four label functions
(get_concept_new_extent(_i), get_concept_new_intent(_i)) and ancestors() are recorded, the default
node label of the visualizer is exercised, and the harness reads the table off labels + order
exactly as the theorem does (g has m iff node(g) lies below or at node(m)), through every order
oracle the API offers: ancestors(), descendants(), leq_elements() and <= on the concept objects.
"""
import random
from harness.core import coq, some, Raw, guarded, canon, ERR_KINDS
from harness import gen
from harness.props import c03 as base

ID = 'C04'
COQ_IMPORTS = ['FCA.Corr.C04']
CASE_TYPE = 'c04_case'
CHECK = 'c04_check'
SHOW = 'c04_show'
SHARD = 40
RULE = ('case = (table, back-end, algorithm in CbO/Lindig/default/Sofia(L_max=1000), shuffled name ids); the four '
        'label functions and ancestors()/descendants()/leq_elements()/<= for every concept (pair), the visualizer '
        'label for every concept, the table rebuilt from labels + order through each of the four order oracles; non-trivial = at least 4 concepts, not a chain, and some node shared by two '
        'objects or two attributes or carrying no label')
EXHAUSTIVE = {'thorough': 'every boolean table of shape <= 3x3 (and 2x4, 4x2) x {CbO, default} (back-end rotating)'}
BACKENDS = base.BACKENDS
ALGOS = base.ALGOS


def expected_label(new_intent, new_extent, flg_i, max_i, flg_e, max_e):
    def short(set_, flg, mx):
        if not set_:
            return ''
        return ('%d: ' % len(set_) if flg else '') + ', '.join(sorted(set_)[:mx])
    return '\n\n'.join([short(new_intent, flg_i, max_i), short(new_extent, flg_e, max_e)])


def run_impl(case):
    def go():
        from fcapy.visualizer.line_visualizers import LineVizNx
        r = random.Random(case['qseed'])
        K, L = base.build_lattice(case)
        n = len(L)
        h, w = len(case['table']), len(case['table'][0])
        out = {'concepts': base.concept_list(L)}
        order = list(range(n))
        r.shuffle(order)
        nei, nii, ne, ni, anc = [None] * n, [None] * n, [None] * n, [None] * n, [None] * n
        label_ok = True
        for i in order:
            a, b = L.get_concept_new_extent_i(i), L.get_concept_new_intent_i(i)
            c, d = L.get_concept_new_extent(i), L.get_concept_new_intent(i)
            nei[i], nii[i] = canon(a), canon(b)
            ne[i] = sorted(int(s[1:]) for s in c)
            ni[i] = sorted(int(s[1:]) for s in d)
            anc[i] = canon(L.ancestors(i))
            f1, f2 = r.random() < 0.5, r.random() < 0.5
            m1, m2 = r.randint(0, 4), r.randint(0, 4)
            if LineVizNx.concept_lattice_label_func(i, L) != expected_label(d, c, True, 2, True, 2):
                label_ok = False
            if LineVizNx.concept_lattice_label_func(i, L, f1, m1, f2, m2) != expected_label(d, c, f1, m1, f2, m2):
                label_ok = False
        desc = [canon(L.descendants(i)) for i in range(n)]
        leq = [[bool(L.leq_elements(a, b)) for b in range(n)] for a in range(n)]
        cle = [[bool(L[a] <= L[b]) for b in range(n)] for a in range(n)]
        out.update({'nei': nei, 'nii': nii, 'ne': ne, 'ni': ni, 'anc': anc, 'desc': desc, 'leq': leq, 'cle': cle,
                    'label_ok': label_ok})
        # read the table off the diagram
        ohome = {g: [i for i in range(n) if g in nei[i]] for g in range(h)}
        ahome = {m: [i for i in range(n) if m in nii[i]] for m in range(w)}
        if all(len(v) == 1 for v in ohome.values()) and all(len(v) == 1 for v in ahome.values()):
            # "the object's concept lies below or at the attribute's concept": through every order
            # oracle the API offers -- ancestors(), descendants(), leq_elements(), <= on the concepts
            oracles = [lambda a, b: a == b or b in anc[a],
                       lambda a, b: a == b or a in desc[b],
                       lambda a, b: leq[a][b],
                       lambda a, b: cle[a][b]]
            out['rebuilt'] = [[[bool(below(ohome[g][0], ahome[m][0])) for m in range(w)] for g in range(h)]
                              for below in oracles]
        else:
            out['rebuilt'] = []
        return out
    return list(guarded(go, timeout_s=60))


def to_coq(case, out):
    t = coq(case['table'])
    algo = base.ALGO_CODE[case['algo']]
    on, an = coq(case['onames']), coq(case['anames'])
    if out[0] != 'ok':
        return 'Build_c04_case %s %d %d [] %s %s [] [] [] [] [] [] [] [] [] false' % (
            t, algo, ERR_KINDS.get(out[1], 11), on, an)
    o = out[1]
    return 'Build_c04_case %s %d 0 %s %s %s %s %s %s %s %s %s %s %s %s %s' % (
        t, algo, base.concepts_term(o['concepts']), on, an, coq(o['nei']), coq(o['nii']),
        coq(o['ne']), coq(o['ni']), coq(o['anc']), coq(o['desc']), coq(o['leq']), coq(o['cle']),
        coq(o['rebuilt']), coq(bool(o['label_ok'])))


def _mk(rng, t, backend, algo, kind=''):
    h, w = len(t), len(t[0])
    return {'table': t, 'backend': backend, 'algo': algo, 'qseed': rng.randrange(10 ** 6), 'kind': kind,
            'onames': rng.sample(range(60), h), 'anames': rng.sample(range(60), w)}


def generate(rng, tier):
    cases = []
    for t, kind in base.forced_tables():
        for algo in ALGOS:
            cases.append(_mk(rng, t, rng.choice(BACKENDS), algo, kind))
    small = list(base.small_tables())
    if tier == 'thorough':
        for k, t in enumerate(small):
            for a, algo in enumerate(['CbO', None]):
                cases.append(_mk(rng, t, BACKENDS[(k + a) % 3], algo, 'exhaustive'))
        n_rand = 4000
    else:
        for t in rng.sample(small, 150):
            cases.append(_mk(rng, t, rng.choice(BACKENDS), rng.choice(ALGOS), 'exhaustive'))
        n_rand = 700
    made = 0
    while made < n_rand:
        t, kind = base.random_table(rng, tier)
        if base.n_concepts(t) > base.MAX_CONCEPTS[tier]:
            continue
        # shared nodes and unlabeled nodes are where a labelling goes wrong: force them often
        r = rng.random()
        h, w = len(t), len(t[0])
        if r < 0.25 and h >= 2:
            i, j = rng.sample(range(h), 2)
            t[j] = list(t[i])
            kind += '+duprow'
        elif r < 0.5 and w >= 2:
            i, j = rng.sample(range(w), 2)
            for row in t:
                row[j] = row[i]
            kind += '+dupcol'
        elif r < 0.6:
            t[rng.randrange(h)] = [False] * w
            kind += '+emptyrow'
        elif r < 0.7:
            j = rng.randrange(w)
            for row in t:
                row[j] = True
            kind += '+fullcol'
        nc = base.n_concepts(t)
        if nc > base.MAX_CONCEPTS[tier] or (nc < 4 and rng.random() < 0.8):
            continue
        cases.append(_mk(rng, t, rng.choice(BACKENDS), rng.choice(ALGOS), kind))
        made += 1
    return cases


def nontrivial(case):
    t = case['table']
    if not base.nontrivial(case):
        return False
    rows = [tuple(r) for r in t]
    cols = [tuple(c) for c in zip(*t)]
    shared = len(set(rows)) < len(rows) or len(set(cols)) < len(cols)
    # a node without a label: more concepts than distinct rows + distinct columns can label
    unlabeled = base.n_concepts(t) > len(set(rows)) + len(set(cols))
    return shared or unlabeled


def stats(case):
    d = base.stats(case)
    return d


def shrink(case):
    out = []
    for c in gen.shrink_table_case(case):
        c = dict(c)
        h, w = len(c['table']), len(c['table'][0])
        c['onames'] = list(range(h))
        c['anames'] = list(range(w))
        out.append(c)
    return out

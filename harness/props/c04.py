"""C04 — the reduced-labelled line diagram is a lossless representation of the context.

One case = one boolean table x back-end x construction algorithm x object/attribute names.  The
implementation builds the lattice; for every concept the four label functions
(get_concept_new_extent(_i), get_concept_new_intent(_i)) and ancestors() are recorded, the default
node label of the visualizer is exercised, and the harness reads the table off labels + order
exactly as the theorem does (g has m iff node(g) lies below or at node(m)), through every order
oracle the API offers: ancestors(), descendants(), leq_elements() and <= on the concept objects.
"""
import random
from harness.core import coq, some, Raw, guarded, canon, ERR_KINDS
from harness import gen
from harness.props import c03 as base

ID = 'C04'
COQ_IMPORTS = ['FCA.Corr.C04']
CASE_TYPE = 'c04_case'
CHECK = 'c04_check'
SHOW = 'c04_show'
SHARD = 40
RULE = ('case = (table, back-end, build path [from_context CbO/Lindig/default/Sofia(L_max=1000), lindig_algorithm '
        'lattice, ConceptLattice(shuffled list), grown by add()], shuffled name ids, recorded warm-up of 0-3 order '
        'queries, label reading order attributes-first/objects-first/mixed, optional history labels -> remove -> '
        '(labels) -> add back -> labels); on the final lattice the four '
        'label functions and ancestors()/descendants()/leq_elements()/<= for every concept (pair), the visualizer '
        'label for every concept, the table rebuilt from labels + order through each of the four order oracles; non-trivial = at least 4 concepts, not a chain, and some node shared by two '
        'objects or two attributes or carrying no label')
EXHAUSTIVE = {'thorough': 'every boolean table of shape <= 3x3 (and 2x4, 4x2) x {CbO, default} (back-end rotating)'}
BACKENDS = base.BACKENDS
ALGOS = base.ALGOS


def expected_label(new_intent, new_extent, flg_i, max_i, flg_e, max_e):
    def short(set_, flg, mx):
        if not set_:
            return ''
        return ('%d: ' % len(set_) if flg else '') + ', '.join(sorted(set_)[:mx])
    return '\n\n'.join([short(new_intent, flg_i, max_i), short(new_extent, flg_e, max_e)])


def read_labels(L, r, label_order, check_viz=True):
    """Read the four label functions of every concept, attributes first / objects first / mixed."""
    from fcapy.visualizer.line_visualizers import LineVizNx
    n = len(L)
    te = [('e', i) for i in range(n)]
    ti = [('i', i) for i in range(n)]
    r.shuffle(te)
    r.shuffle(ti)
    if label_order == 'attrs_first':
        tasks = ti + te
    elif label_order == 'objs_first':
        tasks = te + ti
    else:
        tasks = te + ti
        r.shuffle(tasks)
    nei, nii, ne, ni = [None] * n, [None] * n, [None] * n, [None] * n
    raw_e, raw_i = [None] * n, [None] * n
    for kind, i in tasks:
        if kind == 'e':
            nei[i] = canon(L.get_concept_new_extent_i(i))
            raw_e[i] = L.get_concept_new_extent(i)
            ne[i] = sorted(int(s[1:]) for s in raw_e[i])
        else:
            nii[i] = canon(L.get_concept_new_intent_i(i))
            raw_i[i] = L.get_concept_new_intent(i)
            ni[i] = sorted(int(s[1:]) for s in raw_i[i])
    label_ok = True
    if check_viz:
        for i in range(n):
            f1, f2 = r.random() < 0.5, r.random() < 0.5
            m1 = r.randint(0, 4)
            m2 = r.choice([m for m in range(5) if m != m1])     # DIFFERENT limits for intent and extent
            c, d = raw_e[i], raw_i[i]
            if LineVizNx.concept_lattice_label_func(i, L) != expected_label(d, c, True, 2, True, 2):
                label_ok = False
            if LineVizNx.concept_lattice_label_func(i, L, f1, m1, f2, m2) != expected_label(d, c, f1, m1, f2, m2):
                label_ok = False
    return nei, nii, ne, ni, label_ok


def run_history(L, history, r, label_order):
    """labels -> remove -> (labels) -> add back -> ...; whatever is still removed at the end is added back."""
    removed = []
    for step in history:
        if step == 'labels':
            read_labels(L, r, r.choice(LABEL_ORDERS), check_viz=False)
        elif step[0] == 'rem':
            inner = [i for i in range(len(L)) if i not in (L.top, L.bottom)]
            if not inner:
                continue
            i = inner[step[1] % len(inner)]
            c = L[i]
            if step[2] == 'i':
                del L[i]
            else:
                L.remove(c)
            removed.append(c)
        elif step[0] == 'add' and removed:
            L.add(removed.pop(step[1] % len(removed)), fill_up_cache=bool(step[2]))
    while removed:
        L.add(removed.pop(), fill_up_cache=r.random() < 0.7)


LABEL_ORDERS = ['attrs_first', 'objs_first', 'mixed']


def run_impl(case):
    def go():
        r = random.Random(case['qseed'])
        K, L = base.build_lattice(case)
        if case.get('history'):
            run_history(L, case['history'], r, case.get('label_order', 'mixed'))
        n = len(L)
        h, w = len(case['table']), len(case['table'][0])
        # recorded warm-up: a few order queries before any label is read (partly filled caches)
        for rel, raw in case.get('warm') or []:
            if rel == 'children_top':
                L.children(L.top)
            elif rel == 'parents_bottom':
                L.parents(L.bottom)
            else:
                getattr(L, rel)(raw % n)
        out = {'concepts': base.concept_list(L)}
        # the diagram graph is exported with the caches as the warm-up left them (partly filled on
        # the lazily ordered build paths), BEFORE anything fills the whole relation
        nx_dir = case.get('nx_dir', 0)
        G = L.to_networkx(['down', 'up', None][nx_dir])
        out['nx_nodes'] = sorted(int(v) for v in G.nodes)
        out['nx_adj'] = [sorted(int(v) for v in (G.neighbors(i) if i in G else [])) for i in range(n)]
        nei, nii, ne, ni, label_ok = read_labels(L, r, case.get('label_order', 'mixed'))
        anc = [canon(L.ancestors(i)) for i in range(n)]
        desc = [canon(L.descendants(i)) for i in range(n)]
        leq = [[bool(L.leq_elements(a, b)) for b in range(n)] for a in range(n)]
        cle = [[bool(L[a] <= L[b]) for b in range(n)] for a in range(n)]
        out.update({'nei': nei, 'nii': nii, 'ne': ne, 'ni': ni, 'anc': anc, 'desc': desc, 'leq': leq, 'cle': cle,
                    'label_ok': label_ok})
        # read the table off the diagram
        ohome = {g: [i for i in range(n) if g in nei[i]] for g in range(h)}
        ahome = {m: [i for i in range(n) if m in nii[i]] for m in range(w)}
        if all(len(v) == 1 for v in ohome.values()) and all(len(v) == 1 for v in ahome.values()):
            # "the object's concept lies below or at the attribute's concept": through every order
            # oracle the API offers -- ancestors(), descendants(), leq_elements(), <= on the concepts
            oracles = [lambda a, b: a == b or b in anc[a],
                       lambda a, b: a == b or a in desc[b],
                       lambda a, b: leq[a][b],
                       lambda a, b: cle[a][b]]
            if nx_dir in (0, 1):    # ... and by walking the lines of the exported diagram
                import networkx as nx
                reach = {i: (nx.descendants(G, i) if i in G else set()) for i in range(n)}
                if nx_dir == 0:
                    oracles.append(lambda a, b: a == b or a in reach[b])
                else:
                    oracles.append(lambda a, b: a == b or b in reach[a])
            out['rebuilt'] = [[[bool(below(ohome[g][0], ahome[m][0])) for m in range(w)] for g in range(h)]
                              for below in oracles]
        else:
            out['rebuilt'] = []
        return out
    return list(guarded(go, timeout_s=20))


def to_coq(case, out):
    t = coq(case['table'])
    algo = base.build_code({'algo': case['algo'], 'build': case.get('build', 'ctx'), 'ops': case.get('history')})
    on, an = coq(case['onames']), coq(case['anames'])
    if out[0] != 'ok':
        return 'Build_c04_case %s %d %d [] %s %s [] [] [] [] [] [] [] [] [] 0 [] [] false' % (
            t, algo, ERR_KINDS.get(out[1], 11), on, an)
    o = out[1]
    return 'Build_c04_case %s %d 0 %s %s %s %s %s %s %s %s %s %s %s %s %d %s %s %s' % (
        t, algo, base.concepts_term(o['concepts']), on, an, coq(o['nei']), coq(o['nii']),
        coq(o['ne']), coq(o['ni']), coq(o['anc']), coq(o['desc']), coq(o['leq']), coq(o['cle']),
        coq(o['rebuilt']), case.get('nx_dir', 0), coq(o['nx_nodes']), coq(o['nx_adj']), coq(bool(o['label_ok'])))


WARM = list(base.REL) + ['children_top', 'parents_bottom']


def random_warm(rng):
    return [[rng.choice(WARM), rng.randrange(1000)] for _ in range(rng.choice([0, 1, 1, 2, 2, 3]))]


def random_history(rng):
    k = rng.randint(1, 2)
    hist = ['labels']
    for _ in range(k):
        hist.append(['rem', rng.randrange(1000), rng.choice(['i', 'v'])])
        if rng.random() < 0.6:
            hist.append('labels')
    for _ in range(rng.randint(0, k)):
        hist.append(['add', rng.randrange(1000), rng.random() < 0.7])
        if rng.random() < 0.4:
            hist.append('labels')
    return hist


def _mk(rng, t, backend, algo, kind='', build=None, history=None):
    h, w = len(t), len(t[0])
    if build is None:
        build = rng.choice(['ctx', 'ctx', 'ctx'] + base.BUILDS[1:])
    if build != 'ctx' and algo not in ('CbO', 'Sofia'):
        algo = 'CbO'
    return {'table': t, 'backend': backend, 'algo': algo, 'qseed': rng.randrange(10 ** 6), 'kind': kind,
            'onames': rng.sample(range(60), h), 'anames': rng.sample(range(60), w),
            'build': build, 'bseed': rng.randrange(10 ** 6), 'gseed': rng.choice(base.GSEEDS),
            'warm': random_warm(rng), 'nx_dir': rng.choice([0, 0, 1, 2]),
            'label_order': rng.choice(LABEL_ORDERS), 'history': history or []}


def generate(rng, tier):
    cases = []
    for t, kind in base.forced_tables():
        for algo in ALGOS:
            cases.append(_mk(rng, t, rng.choice(BACKENDS), algo, kind))
    small = list(base.small_tables())
    if tier == 'thorough':
        for k, t in enumerate(small):
            for a, algo in enumerate(['CbO', None]):
                cases.append(_mk(rng, t, BACKENDS[(k + a) % 3], algo, 'exhaustive', build='ctx'))
        n_rand, n_hist = 4000, 1500
    else:
        for t in rng.sample(small, 150):
            cases.append(_mk(rng, t, rng.choice(BACKENDS), rng.choice(ALGOS), 'exhaustive'))
        n_rand, n_hist = 330, 100
    # the history stream: labels -> remove -> (labels) -> add back -> labels -> rebuild
    shapes = list(base.NONGRADED) + [(t, k) for t, k in base.forced_tables() if k in ('duprow', 'dupcol', 'contranominal')]
    for t, kind in shapes:
        for _ in range(2):
            cases.append(_mk(rng, [list(r_) for r_ in t], rng.choice(BACKENDS), rng.choice(ALGOS), kind,
                             history=random_history(rng)))
    made = 0
    while made < n_hist:
        t, kind = base.random_table(rng, 'quick')
        if not 5 <= base.n_concepts(t) <= 26:
            continue
        cases.append(_mk(rng, t, rng.choice(BACKENDS), rng.choice(ALGOS), kind, history=random_history(rng)))
        made += 1
    made = 0
    while made < n_rand:
        t, kind = base.random_table(rng, tier)
        if base.n_concepts(t) > base.MAX_CONCEPTS[tier]:
            continue
        # shared nodes and unlabeled nodes are where a labelling goes wrong: force them often
        r = rng.random()
        h, w = len(t), len(t[0])
        if r < 0.25 and h >= 2:
            i, j = rng.sample(range(h), 2)
            t[j] = list(t[i])
            kind += '+duprow'
        elif r < 0.5 and w >= 2:
            i, j = rng.sample(range(w), 2)
            for row in t:
                row[j] = row[i]
            kind += '+dupcol'
        elif r < 0.6:
            t[rng.randrange(h)] = [False] * w
            kind += '+emptyrow'
        elif r < 0.7:
            j = rng.randrange(w)
            for row in t:
                row[j] = True
            kind += '+fullcol'
        nc = base.n_concepts(t)
        if nc > base.MAX_CONCEPTS[tier] or (nc < 4 and rng.random() < 0.8):
            continue
        cases.append(_mk(rng, t, rng.choice(BACKENDS), rng.choice(ALGOS), kind))
        made += 1
    return cases


def nontrivial(case):
    t = case['table']
    if not base.nontrivial(case):
        return False
    rows = [tuple(r) for r in t]
    cols = [tuple(c) for c in zip(*t)]
    shared = len(set(rows)) < len(rows) or len(set(cols)) < len(cols)
    # a node without a label: more concepts than distinct rows + distinct columns can label
    unlabeled = base.n_concepts(t) > len(set(rows)) + len(set(cols))
    return shared or unlabeled


def stats(case):
    d = base.stats(case)
    d['warm'] = len(case.get('warm') or [])
    d['label_order'] = case.get('label_order', '')
    d['history'] = len(case.get('history') or [])
    return d


def shrink(case):
    out = []
    for key in ('history', 'warm'):
        v = case.get(key) or []
        for i in range(len(v)):
            c = dict(case)
            c[key] = v[:i] + v[i + 1:]
            out.append(c)
    for c in gen.shrink_table_case(case):
        c = dict(c)
        h, w = len(c['table']), len(c['table'][0])
        c['onames'] = list(range(h))
        c['anames'] = list(range(w))
        out.append(c)
    return out

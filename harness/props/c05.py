"""C05 — the three registered binary-table back-ends are observationally interchangeable.

A case is (table, operation, arguments).  run_impl executes the operation on ALL THREE back-ends
of the implementation; the Coq check compares each answer with the model of that back-end and
with the back-end-free spec (three-way differential)."""
import itertools
import re
from harness.core import coq, some, Raw, guarded, canon, ERR_KINDS
from harness import gen

ID = 'C05'
COQ_IMPORTS = ['FCA.Corr.C05']
CASE_TYPE = 'c05_case'
CHECK = 'c05_check'
SHOW = 'c05_show'
SHARD = 1500
RULE = ('cases = (table, operation, arguments), each executed on the three back-ends; operations: shape/height/'
        'width/len, the nine __getitem__ forms (index, slice, list and their pairs), all/any/sum with axis '
        'None/0/1 and optional row/column selections, all_i/any_i, T, & | ~, ==, to_list/to_tuple, '
        'init_bintable conversion, and the FormalContext wrappers; non-trivial = table not constant and at '
        'least one selection is a proper non-empty list that is not a prefix 0..k-1; selections that repeat an '
        'index are included wherever the three back-ends of the unchanged tree agree (established empirically: '
        'all/any with every axis, all_i/any_i, every __getitem__ / FormalContext.__getitem__ form, sum with '
        'repeated rows, sum per column with repeated columns) and excluded only for sum with axis None/1 over '
        'repeated columns (the bitarray back-end counts through a mask); a history stream builds '
        'the table / context in an earlier state, queries it, changes it through the public setters (data, '
        'object_names, attribute_names — each called or not, in either order) and judges the next answer against '
        'the stateless model of the new state; the discarded queries include the asked operation itself and the '
        'read-only observers repr/str/print_data(limits)/hash/len/to_tuple/to_pandas/write_cxt/json/csv/'
        'hash_fixed and to_list()/to_numeric() whose result is overwritten in place (numpy and bitarray only: '
        'BinTableLists.to_list() returns the stored rows themselves on the unchanged tree); that stream also '
        'uses wide (11-14 attributes) and tall (11-14, 21-23 objects) tables, where printing abbreviates; after '
        'every operation every operand is re-observed (shape, to_list, sums) and must be unchanged; '
        'extension_i/intention_i/monotone variants and subscripts are also called with selections held in '
        'tuple/set/frozenset/range/ndarray containers, in the positions where the unchanged tree agrees across '
        'back-ends (see ARG_CONT, BASE_CONT, ROW_CONT, COL_CONT)')
EXHAUSTIVE = {'thorough': 'every table of shape <= 2x2, 2x3, 3x2 with every operation and every duplicate-free '
                          'row/column selection (None, [], all ordered subsets, all slices with start/stop in '
                          'range and step in {1,2,-1,-2}); every 3x3 table with every operation (except all_i/any_i and FormalContext.__getitem__) and the '
                          'selections {None, [], [2,0], [1,2,0]} / slices {::-1, 1:, ::2, 0:0}'}
BACKENDS = ['BinTableLists', 'BinTableNumpy', 'BinTableBitarray']
COQ_BACKEND = {'BinTableLists': 'BLists', 'BinTableNumpy': 'BNumpy', 'BinTableBitarray': 'BBitarray'}
NOARG_OPS = ['shape', 'height', 'width', 'len', 'to_list', 'to_tuple', 'T', 'invert']
BIN_OPS = ['and', 'or', 'eq']
RED_OPS = ['all', 'any', 'sum']
IDX_OPS = ['all_i', 'any_i']


# ------------------------------------------------------------------ items

def as_range(l):
    """The range object that iterates exactly l, or None."""
    if len(l) == 0:
        return range(0)
    if len(l) == 1:
        return range(l[0], l[0] + 1)
    step = l[1] - l[0]
    if step == 0 or any(b - a != step for a, b in zip(l, l[1:])):
        return None
    return range(l[0], l[-1] + (1 if step > 0 else -1), step)


def wrap(tag, l):
    """An index selection in the container named by tag (None stays None)."""
    import numpy as np
    if l is None:
        return None
    if tag in (None, 'list'):
        return list(l)
    if tag == 'tuple':
        return tuple(l)
    if tag == 'set':
        return set(l)
    if tag == 'frozenset':
        return frozenset(l)
    if tag == 'ndarray':
        return np.array(list(l), dtype=int)
    if tag == 'range':
        r = as_range(list(l))
        return list(l) if r is None else r
    raise ValueError(tag)


def denoted(tag, l):
    """The index list the container yields when iterated (sets: Python's iteration order)."""
    return None if l is None else [int(x) for x in wrap(tag, l)]


def py_item(enc):
    """['int', i] | ['slice', a, b, s] | ['list', l (, container)] | ['pair', x, y]  ->  Python subscript."""
    k = enc[0]
    if k == 'int':
        return enc[1]
    if k == 'slice':
        return slice(enc[1], enc[2], enc[3])
    if k == 'list':
        return wrap(enc[2] if len(enc) > 2 else 'list', enc[1])
    return (py_item(enc[1]), py_item(enc[2]))


def sel_indices(enc, n):
    """Index list a list / slice selection denotes on an axis of length n."""
    if enc[0] == 'list':
        return list(enc[1])
    return list(range(*slice(enc[1], enc[2], enc[3]).indices(n)))


def coq_idx(enc, n):
    if enc[0] == 'int':
        return '(XInt %d)' % enc[1]
    return '(XSel %s)' % coq_sel(enc, n)


def coq_sel(enc, n):
    return '(%s %s)' % ('SList' if enc[0] == 'list' else 'SSlice', coq(sel_indices(enc, n)))


def coq_item(enc, h, w):
    if enc[0] == 'int':
        return '(ItInt %d)' % enc[1]
    if enc[0] in ('list', 'slice'):
        return '(ItSel %s)' % coq_sel(enc, h)
    return '(ItPair %s %s)' % (coq_idx(enc[1], h), coq_idx(enc[2], w))


# ------------------------------------------------------------------ running the implementation

def make_table(cls, t):
    import numpy as np
    from bitarray import frozenbitarray as fbarray
    from fcapy.context.bintable import BINTABLE_CLASSES
    if cls == 'BinTableNumpy':
        return BINTABLE_CLASSES[cls](np.array([list(r) for r in t]))
    if cls == 'BinTableBitarray':
        return BINTABLE_CLASSES[cls]([fbarray(list(r)) for r in t])
    return BINTABLE_CLASSES[cls]([list(r) for r in t])


def _is_bool(x):
    import numpy as np
    return isinstance(x, (bool, np.bool_))


def _is_int(x):
    import numpy as np
    return isinstance(x, (int, np.integer)) and not _is_bool(x)


class Bad(Exception):
    pass


def _bools(x):
    import numpy as np
    from bitarray import bitarray
    if isinstance(x, bitarray):
        return [bool(v) for v in x]
    if isinstance(x, np.ndarray):
        if x.ndim != 1 or (x.size and x.dtype != bool):
            raise Bad('not a 1-D boolean array: %r' % (x,))
        return [bool(v) for v in x.tolist()]
    if isinstance(x, (list, tuple)):
        if not all(_is_bool(v) for v in x):
            raise Bad('not booleans: %r' % (x,))
        return [bool(v) for v in x]
    raise Bad('not a boolean sequence: %r' % (x,))


def _nats(x):
    import numpy as np
    if isinstance(x, np.ndarray):
        if x.ndim != 1:
            raise Bad('not 1-D: %r' % (x,))
        x = x.tolist() if x.size == 0 or np.issubdtype(x.dtype, np.integer) else None
        if x is None:
            raise Bad('not an integer array')
        return [int(v) for v in x]
    if isinstance(x, (list, tuple, range)):
        if not all(_is_int(v) and v >= 0 for v in x):
            raise Bad('not naturals: %r' % (x,))
        return [int(v) for v in x]
    raise Bad('not an integer sequence: %r' % (x,))


def _rows(x):
    if not isinstance(x, (list, tuple)):
        raise Bad('to_list() is not a list: %r' % (x,))
    out = []
    for r in x:
        if not isinstance(r, (list, tuple)) or not all(_is_bool(v) for v in r):
            raise Bad('row is not a list of booleans: %r' % (r,))
        out.append([bool(v) for v in r])
    return out


def _table(x):
    h, w = x.shape
    return ['table', int(h), int(w), _rows(x.to_list())]


def _name_id(s):
    m = re.search(r'(\d+)$', s)
    return int(m.group(1))


def _ctx(x):
    h, w = x.data.shape
    return ['ctx', int(h), int(w), _rows(x.data.to_list()), [_name_id(s) for s in x.object_names],
            [_name_id(s) for s in x.attribute_names]]


def _sel(v):
    return None if v is None else list(v)


def raw_data(kind, t):
    """Python data of the representation owned by class `kind`."""
    import numpy as np
    from bitarray import frozenbitarray as fbarray
    if kind == 'BinTableNumpy':
        return np.array([list(r) for r in t])
    if kind == 'BinTableBitarray':
        return [fbarray(list(r)) for r in t]
    return [list(r) for r in t]


OBSERVERS_TABLE = ['hash', 'len', 'repr', 'str', 'to_tuple', 'to_list_mutate']
OBSERVERS_CTX = ['hash', 'len', 'repr', 'str', 'print_data', 'to_pandas', 'write_cxt', 'write_json', 'write_csv',
                 'to_numeric_mutate', 'hash_fixed']


def _scribble(rows):
    """Overwrite a returned list of rows in place (aliasing probe)."""
    for r in rows:
        if isinstance(r, list):
            for k in range(len(r)):
                r[k] = not r[k]
            r.append(True)
    if isinstance(rows, list):
        rows.append([True])


def _observe(cls, obj, w):
    """Read-only calls: they must not change what the object answers afterwards."""
    op = w['op']
    if op == 'hash':
        hash(obj)
    elif op == 'len':
        len(obj)
    elif op == 'repr':
        repr(obj)
    elif op == 'str':
        str(obj)
    elif op == 'to_tuple':
        obj.to_tuple()
    elif op == 'to_list_mutate':
        r = obj.to_list()
        # BinTableLists.to_list() hands out the table's own rows (documented behaviour of the unchanged
        # tree); numpy and bitarray build fresh lists, which the caller may overwrite freely
        if cls != 'BinTableLists':
            _scribble(r)
    elif op == 'to_numeric_mutate':
        r, _ = obj.to_numeric()
        if cls != 'BinTableLists':
            _scribble(r)
    elif op == 'print_data':
        obj.print_data(max_n_objects=w['max_o'], max_n_attributes=w['max_a'])
    elif op == 'hash_fixed':
        obj.hash_fixed()
    elif op in ('to_pandas', 'write_cxt', 'write_json', 'write_csv'):
        getattr(obj, op)()
    else:
        return False
    return True


def _warm(cls, obj, ops):
    """Run operations whose results are discarded (they may fill memoised attributes)."""
    for w in ops:
        try:
            if not _observe(cls, obj, w):
                apply_op(cls, obj, w)
        except Exception:
            pass


def run_one(cls, case):
    """Build the object (optionally through a history: an earlier state, discarded queries, then a
    public-setter mutation into the case's state) and run the case's operation."""
    from fcapy.context import FormalContext
    op = case['op']
    t = case['table']
    hist = case.get('history')
    if op.startswith('ctx_'):
        on = ['g%d' % k for k in case['onames']]
        an = ['m%d' % k for k in case['anames']]
        if hist:
            d1 = hist.get('data1') or t
            K = FormalContext(data=[list(r) for r in d1], object_names=['g%d' % k for k in hist['onames1']],
                              attribute_names=['m%d' % k for k in hist['anames1']], backend=cls)
            _warm(cls, K, hist['warm'])
            if hist.get('data1') is not None:
                K.data.data = raw_data(hist['assign'], t)     # same shape, through the table's setter
            for which in hist.get('setters', ['o', 'a']):      # the name setters, independently
                if which == 'o':
                    K.object_names = on
                else:
                    K.attribute_names = an
        else:
            K = FormalContext(data=[list(r) for r in t], object_names=on, attribute_names=an, backend=cls)
        r = apply_op(cls, K, case)
        unchanged(K.data, t, 'the context')
        if list(K.object_names) != on or list(K.attribute_names) != an:
            raise Bad('the operation changed the names of the context')
        return r
    if hist:
        bt = make_table(cls, hist['data1'])
        _warm(cls, bt, hist['warm'])
        bt.data = raw_data(hist['assign'], t)
    else:
        bt = make_table(cls, t)
    r = apply_op(cls, bt, case)
    unchanged(bt, t, 'the table')
    return r


def unchanged(bt, t, what):
    """Re-observe an input after the operation: operations are pure, every operand must still hold the
    data it was given (shape, content, and the reductions computed from the stored representation)."""
    h, w = len(t), len(t[0]) if t else 0
    try:
        ok = (tuple(int(v) for v in bt.shape) == (h, w) and _rows(bt.to_list()) == [list(r) for r in t]
              and int(bt.sum()) == sum(sum(r) for r in t)
              and _nats(bt.sum(1)) == [sum(r) for r in t])
    except Exception as e:     # noqa
        raise Bad('%s cannot be read any more after the operation: %r' % (what, e))
    if not ok:
        raise Bad('the operation changed %s: %r' % (what, bt.to_list()))


def apply_op(cls, obj, case):
    from fcapy.context.bintable import AbstractBinTable, init_bintable
    from fcapy.context import FormalContext
    op = case['op']
    if op.startswith('ctx_'):
        K = obj
        on = ['g%d' % k for k in case['onames']]
        an = ['m%d' % k for k in case['anames']]
        if op == 'ctx_getitem':
            r = K[py_item(case['item'])]
            if isinstance(r, FormalContext):
                if r.backend != cls:
                    raise Bad('back-end changed to %s' % r.backend)
                return _ctx(r)
            if _is_bool(r):
                return ['bool', bool(r)]
            raise Bad('unexpected %r' % (r,))
        if op == 'ctx_T':
            r = K.T
            return _ctx(r) if r.backend == cls else ['bad', r.backend]
        if op == 'ctx_invert':
            r = ~K
            return _ctx(r) if r.backend == cls else ['bad', r.backend]
        if op == 'ctx_extents':
            return ['ext', [[_name_id(m), _bools(e)] for m, e in K.to_bin_attr_extents()]]
        if op == 'ctx_deriv':
            f = [K.extension_i, K.intention_i, K.extension_monotone_i, K.intention_monotone_i][case['dkind']]
            return ['nats', _nats(f(wrap(case.get('arg_c'), case['arg']), wrap(case.get('base_c'), case['base'])))]
        if op == 'ctx_eq':
            K2 = FormalContext(data=[list(r) for r in case['table2']], object_names=on, attribute_names=an,
                               backend=cls)
            r = (K == K2)
            if not _is_bool(r):
                raise Bad('== is not a bool: %r' % (r,))
            unchanged(K2.data, case['table2'], 'the right operand')
            return ['bool', bool(r)]
        raise ValueError(op)
    bt = obj
    if op == 'shape':
        s = bt.shape
        if not (isinstance(s, tuple) and len(s) == 2 and all(_is_int(v) for v in s)):
            raise Bad('shape %r' % (s,))
        return ['shape', int(s[0]), int(s[1])]
    if op == 'height':
        return ['nat', int(bt.height)]
    if op == 'width':
        return ['nat', int(bt.width)]
    if op == 'len':
        return ['nat', len(bt)]
    if op == 'to_list':
        return _table(bt)
    if op == 'to_tuple':
        v = bt.to_tuple()
        if not (isinstance(v, tuple) and all(isinstance(r, tuple) for r in v)):
            raise Bad('to_tuple %r' % (v,))
        return ['table', int(bt.shape[0]), int(bt.shape[1]), _rows(v)]
    if op == 'T':
        return _table(bt.T)
    if op == 'invert':
        return _table(~bt)
    if op in BIN_OPS:
        bt2 = make_table(cls, case['table2'])
        if op == 'and':
            res = _table(bt & bt2)
        elif op == 'or':
            res = _table(bt | bt2)
        else:
            r = (bt == bt2)
            if not _is_bool(r):
                raise Bad('== is not a bool: %r' % (r,))
            res = ['bool', bool(r)]
        unchanged(bt2, case['table2'], 'the right operand')
        return res
    if op in RED_OPS:
        r = getattr(bt, op)(case['axis'], _sel(case['rows']), _sel(case['cols']))
        if case['axis'] is None:
            if op == 'sum':
                if not _is_int(r):
                    raise Bad('sum is not an int: %r' % (r,))
                return ['nat', int(r)]
            if not _is_bool(r):
                raise Bad('%s is not a bool: %r' % (op, r))
            return ['bool', bool(r)]
        return ['nats', _nats(r)] if op == 'sum' else ['bools', _bools(r)]
    if op in IDX_OPS:
        return ['nats', _nats(getattr(bt, op)(case['axis'], _sel(case['rows']), _sel(case['cols'])))]
    if op == 'getitem':
        r = bt[py_item(case['item'])]
        if isinstance(r, AbstractBinTable):
            if type(r).__name__ != cls:
                raise Bad('class changed to %s' % type(r).__name__)
            return _table(r)
        if _is_bool(r):
            return ['bool', bool(r)]
        return ['bools', _bools(r)]
    if op == 'conv':
        target = case['target'] or 'auto'
        r = init_bintable(bt if case['via'] == 0 else bt.data, target)
        h, w = r.shape
        return ['conv', type(r).__name__, int(h), int(w), _rows(r.to_list())]
    raise ValueError(op)


def run_impl(case):
    outs = []
    for cls in BACKENDS:
        def go(cls=cls):
            try:
                return ['ok', run_one(cls, case)]
            except Bad as e:
                return ['bad', str(e)[:200]]
        r = guarded(go)
        if r[0] == 'err':
            outs.append(['err', r[1], r[2]])
        else:
            outs.append(r[1])
    return outs


# ------------------------------------------------------------------ Coq terms

def val_term(v):
    k = v[0]
    if k == 'bool':
        return '(VBool %s)' % coq(v[1])
    if k == 'nat':
        return '(VNat %d)' % v[1]
    if k == 'bools':
        return '(VBools %s)' % coq(v[1])
    if k == 'nats':
        return '(VNats %s)' % coq(v[1])
    if k == 'shape':
        return '(VShape %d %d)' % (v[1], v[2])
    if k == 'table':
        return '(VTable %d %d %s)' % (v[1], v[2], coq(v[3]))
    if k == 'conv':
        return '(VConv %s %d %d %s)' % (COQ_BACKEND[v[1]], v[2], v[3], coq(v[4]))
    if k == 'ctx':
        return '(VCtx %d %d %s %s %s)' % (v[1], v[2], coq(v[3]), coq(v[4]), coq(v[5]))
    if k == 'ext':
        return '(VExt %s)' % coq([(m, e) for m, e in v[1]])
    raise ValueError(k)


def impl_term(out):
    if out[0] == 'ok':
        try:
            return '(IOk %s)' % val_term(out[1])
        except Exception:
            return '(IErr 12)'
    if out[0] == 'bad':
        return '(IErr 12)'
    kind = out[1] if out[1] in ERR_KINDS else 'Other'
    return '(IErr %d)' % ERR_KINDS[kind]


def op_term(case):
    op = case['op']
    t = case['table']
    h, w = len(t), len(t[0]) if t else 0
    if op in NOARG_OPS:
        return {'shape': 'OShape', 'height': 'OHeight', 'width': 'OWidth', 'len': 'OLen', 'to_list': 'OToList',
                'to_tuple': 'OToTuple', 'T': 'OT', 'invert': 'OInvert'}[op]
    if op in BIN_OPS:
        return '(%s %s)' % ({'and': 'OAnd', 'or': 'OOr', 'eq': 'OEq'}[op], coq(case['table2']))
    if op in RED_OPS:
        return '(%s %s %s %s)' % ({'all': 'OAll', 'any': 'OAny', 'sum': 'OSum'}[op], some(case['axis']),
                                  some(_sel(case['rows'])), some(_sel(case['cols'])))
    if op in IDX_OPS:
        return '(%s %d %s %s)' % ({'all_i': 'OAllI', 'any_i': 'OAnyI'}[op], case['axis'],
                                  some(_sel(case['rows'])), some(_sel(case['cols'])))
    if op == 'getitem':
        return '(OGet %s)' % coq_item(case['item'], h, w)
    if op == 'conv':
        return '(OConv %d %s)' % (case['via'], 'None' if case['target'] is None
                                  else '(Some %s)' % COQ_BACKEND[case['target']])
    if op == 'ctx_getitem':
        return '(OCtxGet %s %s %s)' % (coq(case['onames']), coq(case['anames']), coq_item(case['item'], h, w))
    if op == 'ctx_T':
        return '(OCtxT %s %s)' % (coq(case['onames']), coq(case['anames']))
    if op == 'ctx_invert':
        return '(OCtxInvert %s %s)' % (coq(case['onames']), coq(case['anames']))
    if op == 'ctx_extents':
        return '(OCtxExtents %s)' % coq(case['anames'])
    if op == 'ctx_eq':
        return '(OCtxEq %s)' % coq(case['table2'])
    if op == 'ctx_deriv':
        return '(ODeriv %d %s %s)' % (case['dkind'], coq(denoted(case.get('arg_c'), case['arg'])),
                                      some(denoted(case.get('base_c'), case['base'])))
    raise ValueError(op)


def to_coq(case, outs):
    return 'Build_c05_case %s %s [%s]' % (coq(case['table']), op_term(case),
                                          '; '.join(impl_term(o) for o in outs))


# ------------------------------------------------------------------ statistics

def _selections(case):
    """(selection as index list or None, axis length) for every selection the case carries."""
    t = case['table']
    h, w = len(t), len(t[0]) if t else 0
    out = []
    if case['op'] in RED_OPS + IDX_OPS:
        out += [(_sel(case['rows']), h), (_sel(case['cols']), w)]
    if case['op'] in ('getitem', 'ctx_getitem'):
        it = case['item']
        parts = [(it, h)] if it[0] != 'pair' else [(it[1], h), (it[2], w)]
        for enc, n in parts:
            if enc[0] != 'int':
                out.append((sel_indices(enc, n), n))
    return out


def nontrivial(case):
    flat = [v for r in case['table'] for v in r]
    if not (any(flat) and not all(flat)):
        return False
    for s, n in _selections(case):
        if s is not None and 0 < len(s) < n and s != list(range(len(s))):
            return True
    return False


def _sel_label(s, n):
    if s is None:
        return 'None'
    if not s:
        return 'empty'
    if s == list(range(n)):
        return 'full-sorted'
    if len(s) == n:
        return 'full-permuted'
    return 'sorted-subset' if s == sorted(s) else 'unsorted-subset'


def stats(case):
    t = case['table']
    d = {'shape': '%dx%d' % (len(t), len(t[0]) if t else 0), 'op': case['op'], 'kind': case.get('kind', '')}
    if case['op'] in RED_OPS + IDX_OPS:
        d['axis'] = str(case['axis'])
        d['rows'] = _sel_label(_sel(case['rows']), len(t))
        d['cols'] = _sel_label(_sel(case['cols']), len(t[0]))
    if case['op'] in ('getitem', 'ctx_getitem'):
        it = case['item']
        d['item'] = it[0] if it[0] != 'pair' else '%s,%s' % (it[1][0], it[2][0])
    if case['op'] == 'conv':
        d['conv'] = '%d->%s' % (case['via'], case['target'])
    if case['op'] == 'ctx_deriv':
        d['deriv'] = ['extension_i', 'intention_i', 'extension_monotone_i', 'intention_monotone_i'][case['dkind']]
        d['container'] = '%s/%s' % (case.get('arg_c'), case.get('base_c') if case['base'] is not None else 'None')
    if case['op'] in ('getitem', 'ctx_getitem'):
        it = case['item']
        parts = [it] if it[0] != 'pair' else [it[1], it[2]]
        d['container'] = '/'.join((x[2] if len(x) > 2 else 'list') if x[0] == 'list' else x[0] for x in parts)
    hist = case.get('history')
    if hist:
        d['history'] = ('names:' + ''.join(hist.get('setters', ['o', 'a'])) + ('+data' if hist.get('data1') else '')) if 'onames1' in hist else (
            'data:same-shape' if (len(hist['data1']), len(hist['data1'][0])) == (len(t), len(t[0]))
            else 'data:other-shape')
        d['history_assign'] = str(hist.get('assign'))
        d['history_warm'] = len(hist['warm'])
        d['history_observers'] = sum(1 for x in hist['warm'] if x['op'] in OBSERVERS_CTX + OBSERVERS_TABLE)
    else:
        d['history'] = 'none'
    return d


# ------------------------------------------------------------------ generation

def _case(t, op, kind='', **kw):
    c = {'table': t, 'op': op, 'kind': kind}
    c.update(kw)
    if op.startswith('ctx_'):
        c.setdefault('onames', list(range(len(t))))
        c.setdefault('anames', list(range(len(t[0]))))
    return c


def ordered_subsets(n, max_k=None):
    for k in range(0, (n if max_k is None else min(n, max_k)) + 1):
        for p in itertools.permutations(range(n), k):
            yield list(p)


def all_slices(n):
    """Slice encodings with start/stop in range (or None) and a few steps, one per distinct index list."""
    seen = set()
    vals = [None] + list(range(0, n + 1))
    for step in (None, 2, -1, -2):
        for a in vals:
            for b in vals:
                idx = tuple(range(*slice(a, b, step).indices(n)))
                if (idx, step is None) in seen:
                    continue
                seen.add((idx, step is None))
                yield ['slice', a, b, step]


def selection_family(n, full):
    """Selections (None or list) for the reductions."""
    if full:
        return [None] + list(ordered_subsets(n))
    fam = [None, []]
    if n >= 2:
        fam += [[n - 1, 0], list(range(1, n)) + [0]]
    else:
        fam += [[0]]
    return fam


def index_family(n, full):
    """Non-int index encodings (lists and slices) for __getitem__."""
    if full:
        return [['list', l] for l in ordered_subsets(n)] + list(all_slices(n))
    fam = [['list', l] for l in selection_family(n, False) if l is not None]
    fam += [['slice', None, None, -1], ['slice', 1, None, None], ['slice', None, None, 2], ['slice', 0, 0, None]]
    return fam


def item_family(h, w, full):
    rows, cols = index_family(h, full), index_family(w, full)
    for i in range(h):
        yield ['int', i]
    for r in rows:
        yield r
    for i in range(h):
        for j in range(w):
            yield ['pair', ['int', i], ['int', j]]
        for c in cols:
            yield ['pair', ['int', i], c]
    for r in rows:
        for j in range(w):
            yield ['pair', r, ['int', j]]
    # sub-tables: every row selection with every column selection when full, else a diagonal sample
    if full:
        for r in rows:
            for c in cols:
                yield ['pair', r, c]
    else:
        for k, r in enumerate(rows):
            for c in cols[k % 2::2]:
                yield ['pair', r, c]


def cases_for_table(t, full, others):
    """Every operation on one table.  others: second operands for & | ==."""
    h, w = len(t), len(t[0])
    for op in NOARG_OPS:
        yield _case(t, op, 'exhaustive')
    for u in others:
        for op in BIN_OPS:
            yield _case(t, op, 'exhaustive', table2=u)
        yield _case(t, 'ctx_eq', 'exhaustive', table2=u)
    rows_f, cols_f = selection_family(h, full), selection_family(w, full)
    for rows in rows_f:
        for cols in cols_f:
            for op in RED_OPS:
                for axis in (None, 0, 1):
                    yield _case(t, op, 'exhaustive', axis=axis, rows=rows, cols=cols)
            if full:    # all_i/any_i = flags + index translation: enumerated on the complete shapes (and by C01)
                for op in IDX_OPS:
                    for axis in (0, 1):
                        yield _case(t, op, 'exhaustive', axis=axis, rows=rows, cols=cols)
    for it in item_family(h, w, full):
        yield _case(t, 'getitem', 'exhaustive', item=it)
    if full:    # the context wrapper is enumerated on the completely covered shapes only
        for it in item_family(h, w, False):
            yield _case(t, 'ctx_getitem', 'exhaustive', item=it)
    for via in (0, 1):
        for target in BACKENDS + [None]:
            yield _case(t, 'conv', 'exhaustive', via=via, target=target)
    for op in ('ctx_T', 'ctx_invert', 'ctx_extents'):
        yield _case(t, op, 'exhaustive')
    if full:    # derivation operators with the argument in every admitted container (C01 enumerates lists)
        k = sum(sum(r) for r in t) + h
        for dk in range(4):
            n_arg = w if dk in (0, 2) else h
            for arg in ([], [n_arg - 1], list(range(n_arg - 1, -1, -1))):
                if dk == 2 and len(arg) == w:
                    continue
                k += 1
                yield _case(t, 'ctx_deriv', 'exhaustive', dkind=dk, arg=arg, base=None,
                            arg_c=ARG_CONT[dk][k % len(ARG_CONT[dk])], base_c='list')


def _others(t, k):
    """A few second operands: the table itself, its complement, one-cell changes, a different shape."""
    h, w = len(t), len(t[0])
    out = [[list(r) for r in t], [[not v for v in r] for r in t]]
    i, j = k % h, (k // h) % w
    u = [list(r) for r in t]
    u[i][j] = not u[i][j]
    out.append(u)
    return out


def exhaustive_cases():
    k = 0
    for (h, w) in [(1, 1), (1, 2), (2, 1), (2, 2), (1, 3), (3, 1), (2, 3), (3, 2)]:
        for t in gen.all_tables(h, w):
            k += 1
            yield from cases_for_table(t, True, _others(t, k))
    for t in gen.all_tables(3, 3):
        k += 1
        yield from cases_for_table(t, False, _others(t, k))


def dup_list(rng, n):
    """An in-range index list that repeats at least one index."""
    base = [rng.randrange(n) for _ in range(rng.randint(1, n + 1))]
    base.insert(rng.randint(0, len(base)), rng.choice(base))
    return base


def random_sel(rng, n, dup_ok=True):
    r = rng.random()
    if r < 0.25:
        return None
    if dup_ok and r < 0.37:
        return dup_list(rng, n)
    return gen.random_subset(rng, n)


def random_slice(rng, n):
    def end():
        r = rng.random()
        if r < 0.3:
            return None
        return rng.randint(0, n)
    step = rng.choice([None, None, 1, 2, 3, -1, -1, -2, -3])
    return ['slice', end(), end(), step]


def random_index(rng, n, allow_int=True):
    r = rng.random()
    if allow_int and r < 0.3:
        return ['int', rng.randrange(n)]
    if r < 0.58:
        return ['list', gen.random_subset(rng, n)]
    if r < 0.68:
        return ['list', dup_list(rng, n)]
    return random_slice(rng, n)


def random_item(rng, h, w):
    r = rng.random()
    if r < 0.1:
        return ['int', rng.randrange(h)]
    if r < 0.25:
        return random_index(rng, h, allow_int=False)
    return ['pair', random_index(rng, h), random_index(rng, w)]


# Containers other than list in which a selection may be handed over.  Established empirically on the
# unchanged tree: these are the positions where the three back-ends agree.  NOT included, because
# BinTableNumpy differs there on the unchanged tree (a tuple is a multi-dimensional index for numpy, a set
# is no index at all; the bitarray index translation subscripts the selection): tuple / set / frozenset
# as a row selection or as a base-object set, set / frozenset as a column selection or base-attribute set,
# set / frozenset attributes for extension_monotone_i, a tuple of columns next to an int row.
ROW_CONT = ['ndarray', 'range']
COL_CONT = ['ndarray', 'range', 'tuple']
ARG_CONT = {0: ['tuple', 'set', 'frozenset', 'range', 'ndarray'], 1: ['tuple', 'set', 'frozenset', 'range', 'ndarray'],
            2: ['tuple', 'range', 'ndarray'], 3: ['tuple', 'set', 'frozenset', 'range', 'ndarray']}
BASE_CONT = {0: ['range', 'ndarray'], 1: ['range', 'ndarray', 'tuple'], 2: ['range', 'ndarray'],
             3: ['range', 'ndarray', 'tuple']}


def _tag(rng, enc, tags):
    if enc[0] != 'list':
        return enc
    tags = [t for t in tags if t != 'range' or as_range(enc[1]) is not None]
    return ['list', enc[1], rng.choice(tags)] if tags else enc


def containerise(rng, item, ctx):
    """Hand the index lists of a subscript over in other containers."""
    if item[0] == 'pair':
        a, b = item[1], item[2]
        return ['pair', _tag(rng, a, ROW_CONT),
                _tag(rng, b, [t for t in COL_CONT if t != 'tuple' or a[0] != 'int'])]
    if ctx:     # a bare selection: FormalContext.__getitem__ pairs it with a column slice itself
        return _tag(rng, item, ROW_CONT)
    return item


def random_deriv(rng, t, kind, names):
    h, w = len(t), len(t[0])
    dk = rng.randrange(4)
    n_arg, n_base = (w, h) if dk in (0, 2) else (h, w)
    arg = gen.random_subset(rng, n_arg)
    if dk == 2 and len(arg) == w and rng.random() < 0.9:
        arg = arg[:-1]
    base = None if rng.random() < 0.4 else gen.random_subset(rng, n_base)
    c = _case(t, 'ctx_deriv', kind, dkind=dk, arg=arg, base=base, arg_c='list', base_c='list', **names)
    if rng.random() < 0.75:
        tags = [x for x in ARG_CONT[dk] if x != 'range' or as_range(arg) is not None]
        c['arg_c'] = rng.choice(tags)
    if base is not None and rng.random() < 0.5:
        tags = [x for x in BASE_CONT[dk] if x != 'range' or as_range(base) is not None]
        c['base_c'] = rng.choice(tags)
    return c


FAMILIES = [('noarg', 0.08), ('bin', 0.12), ('red', 0.30), ('get', 0.25), ('conv', 0.05), ('ctxget', 0.08),
            ('ctxmisc', 0.04), ('deriv', 0.08)]


def _pick_family(rng, allowed=None):
    fams = [(f, p) for f, p in FAMILIES if allowed is None or f in allowed]
    r = rng.random() * sum(p for _, p in fams)
    for f, p in fams:
        r -= p
        if r < 0:
            return f
    return fams[-1][0]


def _second_operand(rng, t, same_shape_only):
    h, w = len(t), len(t[0])
    m = rng.random()
    if m < 0.3:
        return [list(x) for x in t]
    if m < 0.6:
        u = [list(x) for x in t]
        for _ in range(rng.randint(1, 2)):
            i, j = rng.randrange(h), rng.randrange(w)
            u[i][j] = not u[i][j]
        return u
    if m < 0.85 or same_shape_only:
        p = rng.choice([0.2, 0.5, 0.8])
        return [[rng.random() < p for _ in range(w)] for _ in range(h)]
    # a different shape: & | are rejected, == is False
    h2, w2 = rng.choice([(h + 1, w), (h, w + 1), (max(1, h - 1), w), (w, h), (h, max(1, w - 1))])
    return [[rng.random() < 0.5 for _ in range(w2)] for _ in range(h2)]


def random_op(rng, t, kind, family=None, names=None, op=None):
    """One operation with random arguments on the table t."""
    h, w = len(t), len(t[0])
    family = family or _pick_family(rng)
    if names is None:
        names = {'onames': rng.sample(range(60), h), 'anames': rng.sample(range(60), w)}
    if family == 'noarg':
        return _case(t, op or rng.choice(NOARG_OPS), kind)
    if family == 'bin':
        op = op or rng.choice(BIN_OPS + ['ctx_eq'])
        extra = dict(names) if op == 'ctx_eq' else {}
        return _case(t, op, kind, table2=_second_operand(rng, t, op == 'ctx_eq'), **extra)
    if family == 'red':
        op = op or rng.choice(RED_OPS + RED_OPS + IDX_OPS)
        axis = rng.choice([0, 1] if op in IDX_OPS else [None, 0, 1])
        if rng.random() < 0.01:
            axis = 2    # rejected by every back-end
        # sum over a column selection with repeats is outside the property for axis None / 1 (the bitarray
        # back-end counts through a mask, i.e. treats the selection as a set)
        return _case(t, op, kind, axis=axis, rows=random_sel(rng, h),
                     cols=random_sel(rng, w, dup_ok=not (op == 'sum' and axis != 0)))
    if family == 'deriv':
        return random_deriv(rng, t, kind, names)
    if family == 'get':
        it = random_item(rng, h, w)
        return _case(t, 'getitem', kind, item=containerise(rng, it, False) if rng.random() < 0.3 else it)
    if family == 'conv':
        return _case(t, 'conv', kind, via=rng.choice([0, 1]), target=rng.choice(BACKENDS + [None]))
    if family == 'ctxget':
        it = random_item(rng, h, w)
        return _case(t, 'ctx_getitem', kind, item=containerise(rng, it, True) if rng.random() < 0.3 else it, **names)
    return _case(t, op or rng.choice(['ctx_T', 'ctx_invert', 'ctx_extents']), kind, **names)


def family_of(op):
    if op in NOARG_OPS:
        return 'noarg'
    if op in BIN_OPS or op == 'ctx_eq':
        return 'bin'
    if op in RED_OPS + IDX_OPS:
        return 'red'
    return {'getitem': 'get', 'conv': 'conv', 'ctx_getitem': 'ctxget', 'ctx_deriv': 'deriv'}.get(op, 'ctxmisc')


def random_case(rng, max_dim):
    t, kind = gen.random_table(rng, max_dim, max_dim)
    return random_op(rng, t, kind)


def history_case(rng, max_dim):
    """Mutate-then-requery: the object is built in an earlier state (data D1 / old names), queried
    (results discarded), changed through a public setter into the case's state (table / names), and
    only then asked the case's operation.  The model is stateless: the answer must be that of the
    final state."""
    t, kind = gen.random_table(rng, max_dim, max_dim)
    on_ctx = rng.random() < 0.45
    shape = rng.random()
    if shape < 0.3:     # wide / tall: printing abbreviates beyond 10 attributes / 20 objects
        p = rng.choice([0.2, 0.5, 0.8])
        if rng.random() < 0.6:
            h, w = rng.randint(1, 4), rng.randint(11, 14)
        elif rng.random() < 0.7:
            h, w = rng.randint(11, 14), rng.randint(1, 4)
        else:
            h, w = rng.randint(21, 23), rng.randint(1, 3)
        t, kind = [[rng.random() < p for _ in range(w)] for _ in range(h)], 'wide' if w > h else 'tall'
    h, w = len(t), len(t[0])
    if on_ctx:
        fam = rng.choice(['ctxget', 'ctxmisc', 'ctxmisc', 'bin', 'deriv'])
        case = random_op(rng, t, kind, family=fam, op='ctx_eq' if fam == 'bin' else None)
        names1 = {'onames': rng.sample(range(60, 120), h), 'anames': rng.sample(range(60, 120), w)}
        setters = rng.choice([[], ['o'], ['a'], ['a'], ['o', 'a'], ['a', 'o']])
        if 'o' not in setters:
            names1['onames'] = list(case['onames'])
        if 'a' not in setters:
            names1['anames'] = list(case['anames'])
        hist = {'onames1': names1['onames'], 'anames1': names1['anames'], 'data1': None, 'assign': None,
                'setters': setters}
        d1 = t
        if rng.random() < 0.35:      # the table behind the context is replaced as well (same shape)
            p = rng.choice([0.2, 0.5, 0.8])
            d1 = [[rng.random() < p for _ in range(w)] for _ in range(h)]
            hist['data1'] = d1
            hist['assign'] = rng.choice(BACKENDS)
        warm = [random_op(rng, d1, 'warm', family=family_of(case['op']), names=names1,
                          op=case['op'] if case['op'] != 'ctx_getitem' else None)]
        for _ in range(rng.randint(0, 2)):
            fam2 = rng.choice(['ctxget', 'ctxmisc', 'bin', 'deriv'])
            warm.append(random_op(rng, d1, 'warm', family=fam2, names=names1, op='ctx_eq' if fam2 == 'bin' else None))
        for _ in range(rng.randint(0, 3)):
            ob = rng.choice(OBSERVERS_CTX + ['repr', 'print_data', 'print_data'])
            warm.append({'op': ob, 'max_o': rng.choice([2, 4, 10, 20]), 'max_a': rng.choice([2, 4, 6, 10])})
    else:
        fam = _pick_family(rng, ('noarg', 'noarg', 'bin', 'red', 'get', 'conv'))
        if rng.random() < 0.25:
            fam = 'noarg'
        case = random_op(rng, t, kind, family=fam, op=rng.choice(BIN_OPS) if fam == 'bin' else
                         (rng.choice(['T', 'T', 'to_list', 'shape', 'invert', 'to_tuple', 'len', 'width'])
                          if fam == 'noarg' else None))
        m = rng.random()
        if m < 0.4:
            h1, w1 = h, w
        elif m < 0.6:
            h1, w1 = w, h
        else:
            h1, w1 = rng.randint(1, max_dim), rng.randint(1, max_dim)
        p = rng.choice([0.2, 0.5, 0.8])
        d1 = [[rng.random() < p for _ in range(w1)] for _ in range(h1)]
        hist = {'data1': d1, 'assign': rng.choice(BACKENDS)}
        # the same kind of query before the change (a memoised answer would survive it), then others
        warm = [random_op(rng, d1, 'warm', family=fam, op=case['op'] if fam in ('noarg', 'bin', 'red') else None)]
        for _ in range(rng.randint(0, 3)):
            f2 = _pick_family(rng, ('noarg', 'bin', 'red', 'get'))
            warm.append(random_op(rng, d1, 'warm', family=f2, op=rng.choice(BIN_OPS) if f2 == 'bin' else None))
        for _ in range(rng.randint(0, 2)):
            warm.append({'op': rng.choice(OBSERVERS_TABLE)})
    rng.shuffle(warm)
    hist['warm'] = [{k: v for k, v in x.items() if k not in ('table', 'kind')} for x in warm]
    case['history'] = hist
    case['kind'] = 'history'
    return case


def generate(rng, tier):
    cases = []
    if tier == 'thorough':
        cases += list(exhaustive_cases())
        n_rand, dim, n_hist = 12000, 12, 15000
    else:
        # a sample of the exhaustive scope: every operation on randomly drawn small tables
        k = 0
        for (h, w), n in [((2, 2), 1), ((2, 3), 1), ((3, 2), 1), ((3, 3), 4)]:
            for _ in range(n):
                t = [[rng.random() < 0.5 for _ in range(w)] for _ in range(h)]
                k += 1
                cases += list(cases_for_table(t, (h, w) != (3, 3), _others(t, k)))
        n_rand, dim, n_hist = 6500, 8, 2500
    for _ in range(n_rand):
        cases.append(random_case(rng, dim))
    for _ in range(n_hist):
        cases.append(history_case(rng, min(dim, 6)))
    return cases


# ------------------------------------------------------------------ shrinking

def _reindex_item(enc, k, n_after):
    """Drop index k from a selection / index encoding (None = cannot)."""
    if enc[0] == 'int':
        if enc[1] == k:
            return None
        return ['int', enc[1] - 1 if enc[1] > k else enc[1]]
    if enc[0] == 'list':
        return ['list', [x - 1 if x > k else x for x in enc[1] if x != k]]
    return enc      # a slice adapts to the new length by itself


def shrink(case):
    out = []
    t = case['table']
    h, w = len(t), len(t[0])
    op = case['op']

    def with_table(t2, drop_row=None, drop_col=None):
        c = dict(case)
        c['table'] = t2
        if 'table2' in case:
            u = case['table2']
            if drop_row is not None and len(u) == h:
                u = [r for k, r in enumerate(u) if k != drop_row]
            if drop_col is not None and u and len(u[0]) == w:
                u = [[v for k, v in enumerate(r) if k != drop_col] for r in u]
            c['table2'] = u
        for key, k in (('rows', drop_row), ('cols', drop_col)):
            if key in case and k is not None and case[key] is not None:
                c[key] = [x - 1 if x > k else x for x in case[key] if x != k]
        if 'item' in case:
            it = case['item']
            if it[0] == 'pair':
                a = it[1] if drop_row is None else _reindex_item(it[1], drop_row, h - 1)
                b = it[2] if drop_col is None else _reindex_item(it[2], drop_col, w - 1)
                if a is None or b is None:
                    return None
                c['item'] = ['pair', a, b]
            elif drop_row is not None:
                a = _reindex_item(it, drop_row, h - 1)
                if a is None:
                    return None
                c['item'] = a
        if op.startswith('ctx_'):
            if drop_row is not None:
                c['onames'] = [x for k, x in enumerate(case['onames']) if k != drop_row]
            if drop_col is not None:
                c['anames'] = [x for k, x in enumerate(case['anames']) if k != drop_col]
            if case.get('history') or op == 'ctx_deriv':   # too entangled to re-index
                return None
        return c
    hist = case.get('history')
    if hist:
        c = dict(case)
        del c['history']
        out.append(c)
        for k in range(len(hist['warm'])):
            c = dict(case)
            c['history'] = dict(hist, warm=hist['warm'][:k] + hist['warm'][k + 1:])
            out.append(c)
        d1 = hist.get('data1')
        if d1 and not op.startswith('ctx_'):
            if len(d1) > 1:
                c = dict(case)
                c['history'] = dict(hist, data1=d1[:-1], warm=[])
                out.append(c)
            if len(d1[0]) > 1:
                c = dict(case)
                c['history'] = dict(hist, data1=[r[:-1] for r in d1], warm=[])
                out.append(c)
    if h > 1:
        for i in range(h):
            c = with_table([r for k, r in enumerate(t) if k != i], drop_row=i)
            if c is not None:
                out.append(c)
    if w > 1:
        for j in range(w):
            c = with_table([[v for k, v in enumerate(r) if k != j] for r in t], drop_col=j)
            if c is not None:
                out.append(c)
    if op == 'ctx_deriv':
        for key in ('arg', 'base'):
            v = case.get(key)
            if v:
                for i in range(len(v)):
                    c = dict(case)
                    c[key] = v[:i] + v[i + 1:]
                    out.append(c)
        if case.get('arg_c') != 'list' or case.get('base_c') != 'list':
            out.append(dict(case, arg_c='list', base_c='list'))
    for key in ('rows', 'cols'):
        v = case.get(key)
        if v:
            for i in range(len(v)):
                c = dict(case)
                c[key] = v[:i] + v[i + 1:]
                out.append(c)
            c = dict(case)
            c[key] = None
            out.append(c)
    for i in range(h):
        for j in range(w):
            if t[i][j]:
                c = dict(case)
                c['table'] = [[(False if (a == i and b == j) else v) for b, v in enumerate(r)]
                              for a, r in enumerate(t)]
                out.append(c)
    if 'table2' in case:
        u = case['table2']
        for i in range(len(u)):
            for j in range(len(u[0])):
                if u[i][j]:
                    c = dict(case)
                    c['table2'] = [[(False if (a == i and b == j) else v) for b, v in enumerate(r)]
                                   for a, r in enumerate(u)]
                    out.append(c)
    return out

"""C09 — poset answers never depend on the history of queries and mutations."""
import itertools
from harness.core import coq, Raw, guarded
from harness import posetlib as PL

ID = 'C09'
COQ_IMPORTS = ['FCA.Corr.C09Any']
CASE_TYPE = 'c09_any'
COQ_HEADER = 'Set Printing Width 1000000.\n'   # Coq wraps long result lists; core's pair regex does not survive a wrap
CHECK = 'c09_any_check'
SHOW = 'c09_any_show'
SHARD = 200
EMPTY_RAW = '(Build_raw_caches [] [] [] [] [])'
RULE = ('POSet histories and histories on UpperSemiLattice / LowerSemiLattice / Lattice objects (judged as in C11, '
        'refusals predicted from the cache-free meaning).  case = (relation matrix of a generated partial order on <= 8 carriers, initial element list, '
        'cache flag, optional true children_dict, history of public POSet calls); after every call the '
        'output is compared with the model and with the cache-free spec, then every query on the final '
        'state and the element list; non-trivial = at least one mutation with an order query before and '
        'after it')
EXHAUSTIVE = {'thorough': 'over the 5-carrier universe {{},{0},{1},{0,1}} + one incomparable carrier: cache on - all '
                          'histories of length <= 3 over {parents, children, ancestors, descendants of every index; add '
                          'of every absent carrier with and without cache filling; delete of every index} from 4 initial '
                          'lists and all of length 4 over {parents, children, add, delete} from 1; cache off - all of '
                          'length <= 2 (full alphabet, 4 lists) and of length 3 (reduced alphabet, 2 lists); constructed '
                          'with the true children_dict - all of length <= 3 (full alphabet, 2 lists); all of length <= 2 '
                          'over the alphabet extended by the four *_dict properties and trace_element of every carrier '
                          'in both directions (4 lists)'}


# ------------------------------------------------------------------ implementation
def run_impl(case):
    if case.get('sl'):            # a history on an UpperSemiLattice / LowerSemiLattice / Lattice object
        from harness.props import c11
        return c11.run_impl(case)

    def go():
        from fcapy.poset import POSet
        m = case['matrix']
        leq = lambda a, b: m[a][b]   # noqa
        init = list(case['init'])
        cd = PL.true_children(m, init) if case.get('cd') and case['cache'] else None
        sib = ''
        if case.get('alias') and cd is not None:
            # aliasing probe: ONE dictionary object, taken from another poset's public children_dict
            # property (its values are frozensets), is handed to three constructors; the history
            # runs on the first, a sibling exists before it, another is built after it
            d = POSet(init, leq).children_dict
            p = POSet(init, leq, use_cache=True, children_dict=d)
            sib1 = POSet(init, leq, use_cache=True, children_dict=d)
        else:
            p = POSet(PL.as_iterable(init, case.get('ctor')) if cd is None else init, leq,
                      use_cache=case['cache'], children_dict=cd)
        outs = [_call(p, o, leq, POSet, case) for o in case['ops']]
        raw = PL.raw_caches_term(p)          # read-only peek, before the final queries fill everything
        if case.get('alias') and cd is not None:
            sib2 = POSet(init, leq, use_cache=True, children_dict=d)
            for k in list(d):                 # the caller goes on using (and changing) its dictionary
                d[k] = frozenset(range(len(init)))
            d[len(init) + 5] = frozenset({0})
            sib = (PL.outs_term(PL.run_final(sib1, leq, POSet))[1:-1] + '; ' +
                   PL.outs_term(PL.run_final(sib2, leq, POSet))[1:-1])
        # kept as compact strings (Coq terms): thousands of small lists per case are
        # too heavy for the volumes of the thorough tier
        return [PL.xouts_term(outs), raw, PL.outs_term(PL.run_final(p, leq, POSet)), '[' + sib + ']']
    r = guarded(go, timeout_s=20)
    return list(r)


def _call(p, o, leq, POSet, case):
    if o[0] != 'eq2':
        return PL.apply_op(p, o, leq, POSet)
    # == against a poset over ANOTHER comparison (its own function object), in either direction
    try:
        m2 = case['alts'][o[3]]
        other = POSet(list(o[1]), (lambda a, b: m2[a][b]), use_cache=bool(o[2]))
        return ['b', bool(other == p) if o[4] else bool(p == other)]
    except Exception as e:  # noqa
        return PL._x(e)


def _xops_term(case):
    out = []
    for o in case['ops']:
        if o[0] == 'eq2':
            out.append('(XEq2 %s %s (mleq %s) %s)' % (coq(list(o[1])), PL.b(o[2]), coq(case['alts'][o[3]]), PL.b(o[4])))
        else:
            out.append(PL.xop_term(o))
    return '[' + '; '.join(out) + ']'


def to_coq(case, out):
    if case.get('sl'):
        from harness.props import c11
        return '(SCase (%s))' % c11.to_coq(case, out)
    return '(PCase (%s))' % _to_coq_poset(case, out)


def _to_coq_poset(case, out):
    m = case['matrix']
    cd = None
    if case.get('cd'):
        cd = sorted(PL.true_children(m, case['init']).items())
    if out[0] == 'ok':
        steps, raw, fin, sib = out[1]
    else:
        steps, raw, fin, sib = PL.xouts_term([['x', PL.ERR_KINDS.get(out[1], 11)]]), EMPTY_RAW, '[]', '[]'
    # the model's caching discipline is exact as long as CPython lists sets of indexes in
    # ascending order, i.e. for indexes < 8
    exact = len(m) <= 8
    n_sib = 2 if (case.get('alias') and case.get('cd') and case['cache']) else 0
    return 'Build_c09_case %s %s %s %s %s %s %s %s %s %d %s' % (
        coq(m), coq(list(case['init'])), PL.b(case['cache']), PL.cache_term(cd),
        _xops_term(case), steps, raw, PL.b(exact), fin, n_sib, sib)


# ------------------------------------------------------------------ generation
def random_case(rng, max_ops, kmax=8):
    big = rng.random() < 0.04       # >= 10 elements with children_dict: the leq table is not pre-filled
    if big:
        m, kind = PL.random_order(rng, k=rng.randint(10, 11))
    else:
        m, kind = PL.random_order(rng, kmax=kmax)
    k = len(m)
    big = big and k >= 10
    n0 = rng.choice([0, 1, 2, k // 2, k // 2, k - 1, k - 1, k])
    init = rng.sample(range(k), min(n0, k))
    cache = rng.random() < 0.85
    cd = cache and rng.random() < 0.2
    if big:
        init, cache, cd = rng.sample(range(k), rng.choice([10, k])), True, True
        max_ops = min(max_ops, 8)
    ops = PL.random_history(rng, init, k, rng.randint(3, max_ops), cache, ext=True)
    case = {'matrix': m, 'init': init, 'cache': cache, 'cd': cd, 'ops': ops, 'kind': kind,
            'ctor': rng.choice(['list', 'list', 'tuple', 'gen', 'map', 'iter'])}
    if rng.random() < 0.3:
        add_eq2(rng, case)
    if cd and len(init) > 0:
        case['alias'] = rng.random() < 0.6      # siblings built from one shared children_dict object
    return case


def add_eq2(rng, case):
    """Insert == against posets over the same / permuted / sub / super element lists ordered by
    ANOTHER relation (equal copy, sub-relation, super-relation, unrelated), in both directions."""
    m, k = case['matrix'], len(case['matrix'])
    case['alts'] = PL.alt_orders(rng, m)
    cur, ops = list(case['init']), []
    for o in case['ops']:
        ops.append(o)
        if o[0] == 'add' and o[1] not in cur:
            cur.append(o[1])
        elif o[0] == 'del' and o[1] < len(cur):
            cur.pop(o[1])
        elif o[0] == 'rm' and o[1] in cur:
            cur.remove(o[1])
        if rng.random() < 0.3:
            ops += _eq2_ops(rng, cur, k)
    ops += _eq2_ops(rng, cur, k)
    case['ops'] = ops


def _eq2_ops(rng, cur, k):
    els = list(cur)
    rng.shuffle(els)
    v = rng.random()
    absent = [x for x in range(k) if x not in cur]
    if v < 0.12 and els:
        els = els[:-1]
    elif v < 0.24 and absent:
        els.append(rng.choice(absent))
    alt, oc = rng.randrange(4), rng.random() < 0.7
    if rng.random() < 0.6:                       # the same pair asked in both directions
        return [['eq2', els, oc, alt, False], ['eq2', els, oc, alt, True]]
    return [['eq2', els, oc, alt, rng.random() < 0.5]]


U5 = PL.closure(5, [(0, 1), (0, 2), (1, 3), (2, 3)])     # {},{0},{1},{0,1} and an incomparable 4


def _alphabet(cur, full, ext=False):
    n = len(cur)
    a = []
    for i in range(n):
        a += [['cv', True, i], ['cv', False, i]]
        if full:
            a += [['cl', True, i], ['cl', False, i]]
    for e in range(5):
        if e not in cur:
            a += [['add', e, True], ['add', e, False]]
    for i in range(n):
        a.append(['del', i])
    if ext:
        a += [['dict', cv, up] for cv in (True, False) for up in (True, False)]
        a += [['trace', e, up] for e in range(5) for up in (True, False)]
    return a


def _apply(cur, o):
    if o[0] == 'add':
        return cur + [o[1]]
    if o[0] == 'del':
        return cur[:o[1]] + cur[o[1] + 1:]
    return cur


def _histories(cur, length, full, ext=False):
    if length == 0:
        yield []
        return
    for o in _alphabet(cur, full, ext):
        for rest in _histories(_apply(cur, o), length - 1, full, ext):
            yield [o] + rest


def _mk(init, h, cache=True, cd=False):
    return {'matrix': U5, 'init': init, 'cache': cache, 'cd': cd, 'ops': h, 'kind': 'exhaustive'}


def exhaustive_cases():
    inits3 = [[0, 1, 2, 3], [3, 1, 0], [1, 2, 4], [0, 3, 4, 1]]
    for init in inits3:                                   # cache on
        for ln in (1, 2, 3):
            for h in _histories(init, ln, True):
                yield _mk(init, h)
    for init in [[3, 2, 4, 0]]:
        for h in _histories(init, 4, False):
            yield _mk(init, h)
    for init in inits3:                                   # cache off
        for ln in (1, 2):
            for h in _histories(init, ln, True):
                yield _mk(init, h, cache=False)
    for init in [[0, 1, 3], [3, 2, 4, 0]]:
        for h in _histories(init, 3, False):
            yield _mk(init, h, cache=False)
    for init in [[0, 1, 2, 3], [3, 1, 0]]:                # constructed with the true children_dict
        for ln in (1, 2, 3):
            for h in _histories(init, ln, True):
                yield _mk(init, h, cd=True)
    for init in inits3:                                   # with trace_element and the *_dict properties
        for ln in (1, 2):
            for h in _histories(init, ln, True, ext=True):
                if any(o[0] in ('dict', 'trace') for o in h):
                    yield _mk(init, h)


def sample_exhaustive(rng, count):
    """Random members of the exhaustive scope (quick tier)."""
    out = []
    inits = [[0, 1, 2, 3], [3, 1, 0], [1, 2, 4], [0, 3, 4, 1], [0, 1, 3], [3, 2, 4, 0]]
    for _ in range(count):
        cur = list(rng.choice(inits))
        init = list(cur)
        h = []
        for _ in range(rng.randint(2, 4)):
            o = rng.choice(_alphabet(cur, True, ext=rng.random() < 0.3))
            h.append(o)
            cur = _apply(cur, o)
        out.append({'matrix': U5, 'init': init, 'cache': rng.random() < 0.9, 'cd': rng.random() < 0.2,
                    'ops': h, 'kind': 'exhaustive-sample'})
    return out


def sl_case(rng, max_ops):
    """A history on a semilattice-class object (they are poset objects too): top / bottom anywhere
    in the listing, re-adds of present elements including the current top / bottom, inserts that
    create a new top / bottom, lazy and eager adds, deletes by index and removes by value, the
    refusals the classes promise; judged by the model with the cached top / bottom index
    (Model/PosetLattice.v) and by the cache-free meaning (refusals predicted from the spec)."""
    from harness.props import c11
    kind = rng.choice(['U', 'L', 'B', 'B'])
    for _ in range(100):
        m, okind = PL.order_bounded(rng, rng.randint(3, 8)) if rng.random() < 0.7 else PL.random_order(rng)
        k = len(m)
        init = rng.sample(range(k), rng.randint(1, k))
        if okind == 'bounded':
            init = [x for x in init if x > 1]
            for e in (0, 1):                       # least / greatest carrier, anywhere in the listing
                if rng.random() < 0.6:
                    init.insert(rng.randint(0, len(init)), e)
        if c11.ctor_ok(m, kind, init):
            break
    else:
        m, okind, init = [[True]], 'chain', [0]
    k = len(m)
    cache = rng.random() < 0.8
    cur, ops = list(init), []

    def do(o):
        nonlocal cur
        ops.append(o)
        cur = list(c11.sim(m, kind, cur, o)[0])
    n_ops = rng.randint(3, max_ops)
    while len(ops) < n_ops:
        ext = [cur[c11.extremes(m, cur, up)[0]] for up in (True, False) if c11.has_ext(kind, up)]
        absent = [x for x in range(k) if x not in cur]
        beyond = [e for e in absent if any((m[t][e] or m[e][t]) and not c11.sim(m, kind, cur, ['add', e, True])[1]
                                           and c11.extremes(m, cur + [e], True) + c11.extremes(m, cur + [e], False)
                                           != c11.extremes(m, cur, True) + c11.extremes(m, cur, False) for t in ext)]
        r = rng.random()
        fill = rng.random() < 0.6
        if r < 0.15:
            do(['add', rng.choice(ext), fill])                     # re-add of the current top / bottom
        elif r < 0.22:
            do(['add', rng.choice(cur), fill])                     # re-add of any present element
        elif r < 0.42 and beyond:
            do(['add', rng.choice(beyond), fill])                  # becomes the new top / bottom
        elif r < 0.60 and absent:
            do(['add', rng.choice(absent), fill])                  # accepted or refused, as the order says
        elif r < 0.75:
            do(['del', rng.randrange(len(cur))])                   # any index: the extremes are refused
        elif r < 0.93:
            do(['rm', rng.choice(cur)])
        elif absent:
            do(['rm', rng.choice(absent)])
        ops.extend(c11.sl_queries(rng, kind, len(cur), cur, k)[:rng.randint(0, 2)])
        if rng.random() < 0.5:
            ops.append(rng.choice([['top']] * c11.has_ext(kind, True) + [['bot']] * c11.has_ext(kind, False) +
                                  [['ex', True], ['ex', False]]))
    return {'matrix': m, 'kind': kind, 'init': init, 'cache': cache, 'cd': cache and rng.random() < 0.15,
            'ops': ops, 'level': 'poset', 'okind': okind, 'sl': True}


def generate(rng, tier):
    cases = []
    if tier == 'thorough':
        cases += list(exhaustive_cases())
        n_rand, max_ops, n_sl = 20000, 30, 12000
    else:
        cases += sample_exhaustive(rng, 400)
        n_rand, max_ops, n_sl = 1800, 12, 600
    for _ in range(n_rand):
        cases.append(random_case(rng, max_ops))
    for _ in range(n_sl):
        cases.append(sl_case(rng, max_ops))
    return cases


# ------------------------------------------------------------------ evidence
def nontrivial(case):
    if case.get('sl'):
        from harness.props import c11
        return c11.nontrivial(case)
    return PL.history_nontrivial(case['ops'])


def stats(case):
    if case.get('sl'):
        from harness.props import c11
        d = c11.stats(case)
        d['class'] = {'U': 'UpperSemiLattice', 'L': 'LowerSemiLattice', 'B': 'Lattice'}[case['kind']]
        return d
    ops = case['ops']
    return {'class': 'POSet', 'elements_given_as': case.get('ctor', 'list'), 'order': case.get('kind', ''), 'carriers': len(case['matrix']), 'init': len(case['init']),
            'cache': case['cache'], 'children_dict': bool(case.get('cd')), 'shared_dict_siblings': bool(case.get('alias')),
            'ops': min(len(ops), 31) // 4 * 4,
            'mutations': sum(1 for o in ops if PL.is_mutation(o)),
            'has_nofill_add': any(o[0] == 'add' and not o[2] for o in ops),
            'has_present_add': _has_present_add(case),
            'has_del': any(o[0] == 'del' for o in ops), 'has_rm': any(o[0] == 'rm' for o in ops),
            'has_join_meet': any(o[0] == 'bd' for o in ops), 'has_fill': any(o[0] == 'fill' for o in ops),
            'has_eq': any(o[0] == 'eq' for o in ops), 'has_eq_other_order': any(o[0] == 'eq2' for o in ops),
            'has_trace': any(o[0] == 'trace' for o in ops), 'has_dict': any(o[0] == 'dict' for o in ops),
            'has_sup_inf': any(o[0] == 'sup' for o in ops)}


def _has_present_add(case):
    cur = list(case['init'])
    for o in case['ops']:
        if o[0] == 'add':
            if o[1] in cur:
                return True
            cur.append(o[1])
        elif o[0] == 'del' and o[1] < len(cur):
            cur.pop(o[1])
        elif o[0] == 'rm' and o[1] in cur:
            cur.remove(o[1])
    return False


def shrink(case):
    if case.get('sl'):
        from harness.props import c11
        return c11.shrink(case)
    out = [c for c in PL.shrink_history(case) if PL.history_valid(c['init'], c['ops'], len(c['matrix']))]
    if case.get('cd'):
        c = dict(case)
        c['cd'] = False
        out.append(c)
    return out

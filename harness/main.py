import argparse
import importlib
import os
import sys

sys.setrecursionlimit(10000)


def main():
    ap = argparse.ArgumentParser()
    ap.add_argument('property')
    ap.add_argument('--tier', default=os.environ.get('VERIF_TIER') or 'quick', choices=['quick', 'thorough'])
    ap.add_argument('--seed', type=int, default=int(os.environ.get('VERIF_SEED') or 0))
    ap.add_argument('--replay')
    a = ap.parse_args()
    from harness import core
    prop = importlib.import_module('harness.props.' + a.property.lower())
    sys.exit(core.run_property(prop, a.tier, a.seed, a.replay))


if __name__ == '__main__':
    main()

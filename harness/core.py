"""Shared machinery of the FCApy verification checks.

One run of a property =
  (1) proof step      : build the Coq development, recompile Props/<id>.v, read Print Assumptions
  (2) correspondence  : run generated cases through /repo's implementation and through the
                        Coq model + spec (vm_compute inside coqc), compare
  (3) decision        : VIOLATION / KNOWN-FINDING / ok, replay files, evidence file
See DESIGN.md sections 4 and 5.
"""
import fcntl
import glob
import hashlib
import json
import os
import random
import re
import signal
import subprocess
import sys
import time
import traceback
from concurrent.futures import ProcessPoolExecutor
import multiprocessing

VERIF = os.path.dirname(os.path.dirname(os.path.abspath(__file__)))
COQ = os.path.join(VERIF, 'coq')
WORK = os.path.join(VERIF, '.work')
EVID = os.path.join(VERIF, 'evidence')
REPLAYS = os.path.join(VERIF, 'replays')
KNOWN = os.path.join(VERIF, 'known_findings.json')
REPO = os.environ.get('FCAPY_REPO', '/repo')

ALLOWED_AXIOMS = {
    # standard-library axioms that the brief allows when named in the trusted base (none is
    # used at present; a theorem depending on anything else is not counted as discharged)
    'functional_extensionality_dep', 'proof_irrelevance', 'classic', 'JMeq_eq', 'eq_rect_eq',
}
FORBIDDEN = re.compile(
    r'\b(Admitted|admit|Axiom|Axioms|Parameter|Parameters|Conjecture|Admit Obligations|'
    r'bypass_check|Unset Guard Checking|Unset Positivity Checking|Unset Universe Checking|'
    r'type-in-type|impredicative-set)\b')

TRUSTED_BASE = [
    'Coq 8.16.1 kernel (coqc; vm_compute used for case evaluation, examples and refutation witnesses; no native_compute)',
    'no axioms declared by the development; Print Assumptions output recorded under coverage.axioms',
    'hand-written Gallina model of the anchored Python functions (listed per property in DESIGN.md section 6)',
    'correspondence harness (generators, canonicalisation, exception enum, Coq-literal printer) in /verif/harness',
    'CPython, numpy, bitarray and the other third-party libraries are outside the model',
]


# ------------------------------------------------------------------ Coq literals

class Raw(str):
    """A string that is already a Coq term."""


def coq(v):
    """Python value -> Coq term (nat scope).  bool/int/list/tuple/None; Raw passes through."""
    if isinstance(v, Raw):
        return str(v)
    if v is None:
        return 'None'
    if isinstance(v, bool):
        return 'true' if v else 'false'
    if isinstance(v, int):
        if v < 0:
            raise ValueError('negative nat %r' % v)
        return str(v)
    if isinstance(v, (list,)):
        return '[' + '; '.join(coq(x) for x in v) + ']'
    if isinstance(v, tuple):
        return '(' + ', '.join(coq(x) for x in v) + ')'
    raise TypeError('cannot print %r as a Coq term' % (v,))


def some(v):
    return Raw('None') if v is None else Raw('(Some %s)' % coq(v))


def zlit(n):
    return Raw('(%d)%%Z' % n)


def qlit(fr):
    """fractions.Fraction -> Coq Q literal."""
    return Raw('(Qmake (%d)%%Z %d%%positive)' % (fr.numerator, fr.denominator))


# ------------------------------------------------------------------ implementation outcome enum

ERR_KINDS = {
    'KeyError': 1, 'ValueError': 2, 'UnmatchedContextError': 3, 'UnmatchedMonotonicityError': 4,
    'AttributeError': 5, 'AssertionError': 6, 'TypeError': 7, 'IndexError': 8,
    'NotImplementedError': 9, 'Timeout': 10, 'Other': 11,
}


class CaseTimeout(Exception):
    pass


def _alarm(signum, frame):
    raise CaseTimeout()


def classify_exception(e):
    name = type(e).__name__
    if isinstance(e, CaseTimeout):
        name = 'Timeout'
    for cls in type(e).__mro__:
        if cls.__name__ in ERR_KINDS:
            return cls.__name__
    return 'Other' if name not in ERR_KINDS else name


_TIMEOUTS = [0]


def guarded(fn, timeout_s=10):
    """Run fn() under an alarm; return ('ok', value) or ('err', kind, message).
    After 5 time-outs in one process the allowance drops to 1 s so that a non-terminating
    implementation cannot stall a whole run."""
    old = signal.signal(signal.SIGALRM, _alarm)
    if _TIMEOUTS[0] >= 5:
        timeout_s = 1
    signal.alarm(timeout_s)
    try:
        return ('ok', fn())
    except BaseException as e:  # noqa
        if isinstance(e, (KeyboardInterrupt, SystemExit)):
            raise
        if isinstance(e, CaseTimeout):
            _TIMEOUTS[0] += 1
        return ('err', classify_exception(e), str(e)[:200])
    finally:
        signal.alarm(0)
        signal.signal(signal.SIGALRM, old)


def canon(v):
    """numpy scalars/arrays, bitarrays, tuples, sets -> plain JSON-able Python values."""
    import numpy as np
    try:
        from bitarray import bitarray, frozenbitarray
        bit_types = (bitarray, frozenbitarray)
    except Exception:  # pragma: no cover
        bit_types = ()
    if isinstance(v, (bool, np.bool_)):
        return bool(v)
    if isinstance(v, (int, np.integer)):
        return int(v)
    if isinstance(v, (float, np.floating)):
        return float(v)
    if isinstance(v, bit_types):
        return [bool(x) for x in v]
    if isinstance(v, np.ndarray):
        return [canon(x) for x in v.tolist()]
    if isinstance(v, (list, tuple, range)):
        return [canon(x) for x in v]
    if isinstance(v, (set, frozenset)):
        return sorted(canon(x) for x in v)
    if isinstance(v, dict):
        return {str(k): canon(x) for k, x in v.items()}
    return v


# ------------------------------------------------------------------ building / proofs

def _lock():
    os.makedirs(WORK, exist_ok=True)
    f = open(os.path.join(WORK, 'build.lock'), 'w')
    fcntl.flock(f, fcntl.LOCK_EX)
    return f


def write_coqproject():
    files = []
    for d in ('Base', 'Spec', 'Model', 'Lemmas', 'Corr', 'Props'):
        files += sorted(glob.glob(os.path.join(COQ, d, '*.v')))
    txt = '-Q . FCA\n' + '\n'.join(os.path.relpath(f, COQ) for f in files) + '\n'
    p = os.path.join(COQ, '_CoqProject')
    if not os.path.exists(p) or open(p).read() != txt:
        open(p, 'w').write(txt)
        return True
    return False


def build(clean=False, timeout=1500):
    """Full .vo build of the development (no -vos).  Returns (ok, log)."""
    lock = _lock()
    try:
        changed = write_coqproject()
        mk = os.path.join(COQ, 'Makefile')
        if changed or not os.path.exists(mk):
            r = subprocess.run(['coq_makefile', '-f', '_CoqProject', '-o', 'Makefile'], cwd=COQ,
                               capture_output=True, text=True)
            if r.returncode != 0:
                return False, r.stdout + r.stderr
        if clean:
            subprocess.run(['make', 'clean'], cwd=COQ, capture_output=True, text=True)
        try:
            r = subprocess.run(['make', '-j16', '-k'], cwd=COQ, capture_output=True, text=True,
                               timeout=timeout)
        except subprocess.TimeoutExpired:
            return False, 'make timed out'
        return r.returncode == 0, (r.stdout + r.stderr)[-4000:]
    finally:
        lock.close()


def forbidden_words():
    hits = []
    for f in glob.glob(os.path.join(COQ, '**', '*.v'), recursive=True):
        if os.sep + '.work' + os.sep in f or os.sep + 'wip_' in f:
            continue
        for n, line in enumerate(open(f), 1):
            code = re.sub(r'\(\*.*?\*\)', '', line)
            if FORBIDDEN.search(code):
                hits.append('%s:%d: %s' % (os.path.relpath(f, COQ), n, line.strip()))
    return hits


def prove(pid, timeout=600):
    """Recompile Props/<pid>.v, parse Print Assumptions.  Returns dict."""
    src = os.path.join(COQ, 'Props', pid + '.v')
    out = {'file': 'coq/Props/%s.v' % pid, 'theorems': [], 'discharged': [], 'axioms': {},
           'ok': False, 'log': ''}
    if not os.path.exists(src):
        out['log'] = 'missing ' + src
        return out
    text = re.sub(r'\(\*.*?\*\)', '', open(src).read(), flags=re.S)
    thms = re.findall(r'^\s*(?:Theorem|Lemma|Corollary)\s+(\w+)', text, flags=re.M)
    printed = re.findall(r'^\s*Print Assumptions\s+(\w+)\s*\.', text, flags=re.M)
    out['theorems'] = thms
    lock = _lock()
    try:
        try:
            r = subprocess.run(['coqc', '-Q', '.', 'FCA', 'Props/%s.v' % pid], cwd=COQ,
                               capture_output=True, text=True, timeout=timeout)
        except subprocess.TimeoutExpired:
            out['log'] = 'coqc timed out on Props/%s.v' % pid
            return out
    finally:
        lock.close()
    out['log'] = (r.stdout + r.stderr)[-3000:]
    if r.returncode != 0:
        return out
    # split the output into one block per Print Assumptions
    blocks = re.split(r'(?=^Closed under the global context|^Axioms:)', r.stdout, flags=re.M)
    blocks = [b for b in blocks if b.startswith('Closed') or b.startswith('Axioms:')]
    if len(blocks) != len(printed):
        out['log'] += '\nPrint Assumptions blocks %d != commands %d' % (len(blocks), len(printed))
        return out
    for name, blk in zip(printed, blocks):
        if blk.startswith('Closed'):
            out['axioms'][name] = 'Closed under the global context'
            out['discharged'].append(name)
        else:
            axs = re.findall(r'^(\S+)\s*:', blk[len('Axioms:'):], flags=re.M)
            out['axioms'][name] = blk.strip()
            if axs and all(a.split('.')[-1] in ALLOWED_AXIOMS for a in axs):
                out['discharged'].append(name)
    missing = [t for t in thms if t not in printed]
    if missing:
        out['log'] += '\ntheorems without Print Assumptions: %s' % missing
    out['ok'] = (not missing) and set(out['discharged']) == set(thms) and len(thms) > 0
    return out


# ------------------------------------------------------------------ evaluating cases in Coq

def _coq_shard(args):
    idx, header, check, case_type, terms, workdir = args
    name = 'cases_%d' % idx
    path = os.path.join(workdir, name + '.v')
    with open(path, 'w') as f:
        f.write(header)
        f.write('Definition cases : list %s := [\n' % case_type)
        f.write(';\n'.join(terms))
        f.write('\n].\n')
        f.write('Set Printing Width 1000000.\n')
        f.write('Eval vm_compute in (bad_codes %s cases).\n' % check)
    try:
        r = subprocess.run('ulimit -s unlimited 2>/dev/null; coqc -Q %s FCA -Q . W %s.v' % (COQ, name),
                           shell=True, cwd=workdir, capture_output=True, text=True, timeout=900)
    except subprocess.TimeoutExpired:
        return idx, None, 'coqc timed out on shard %d' % idx
    if r.returncode != 0:
        return idx, None, (r.stdout + r.stderr)[-2000:]
    m = re.search(r'=\s*(\[.*?\])\s*:\s*list', r.stdout, flags=re.S)
    if not m:
        return idx, None, 'cannot parse: ' + r.stdout[-500:]
    # Coq wraps long lists at the printing width, possibly right after an opening parenthesis
    body = m.group(1)
    pairs = [(int(a), int(b)) for a, b in re.findall(r'\(\s*(\d+)\s*,\s*(\d+)\s*\)', body)]
    if len(pairs) != body.count('('):
        return idx, None, 'cannot parse every pair of: ' + body[:400]
    return idx, pairs, ''


def coq_eval(prop, terms, shard=300, jobs=16, tag='run'):
    """Evaluate prop.CHECK on every case term.  Returns list of codes (same order)."""
    workdir = os.path.join(WORK, '%s_%s_%d' % (prop.ID, tag, os.getpid()))
    os.makedirs(workdir, exist_ok=True)
    header = ''.join('From FCA Require Import %s.\n' % i.replace('FCA.', '') for i in prop.COQ_IMPORTS)
    header += getattr(prop, 'COQ_HEADER', '')
    shards = [terms[i:i + shard] for i in range(0, len(terms), shard)]
    args = [(k, header, prop.CHECK, prop.CASE_TYPE, s, workdir) for k, s in enumerate(shards)]
    codes = [0] * len(terms)
    errors = []
    if not args:
        return codes, errors
    with ProcessPoolExecutor(max_workers=min(jobs, len(args)),
                             mp_context=multiprocessing.get_context('fork')) as ex:
        for idx, pairs, err in ex.map(_coq_shard, args):
            if pairs is None:
                errors.append(err)
                continue
            for i, c in pairs:
                codes[idx * shard + i] = c
    if not errors:
        subprocess.run(['rm', '-rf', workdir])
    return codes, errors


def coq_show(prop, term):
    """Raw text of what the model and the spec say about one case (for replay files)."""
    show = getattr(prop, 'SHOW', None)
    if not show:
        return ''
    workdir = os.path.join(WORK, '%s_show_%d' % (prop.ID, os.getpid()))
    os.makedirs(workdir, exist_ok=True)
    header = ''.join('From FCA Require Import %s.\n' % i.replace('FCA.', '') for i in prop.COQ_IMPORTS)
    header += getattr(prop, 'COQ_HEADER', '')
    with open(os.path.join(workdir, 'show.v'), 'w') as f:
        f.write(header + 'Eval vm_compute in (%s (%s)).\n' % (show, term))
    try:
        r = subprocess.run(['coqc', '-Q', COQ, 'FCA', '-Q', '.', 'W', 'show.v'], cwd=workdir,
                           capture_output=True, text=True, timeout=120)
        txt = re.sub(r'\s+', ' ', r.stdout + r.stderr).strip()[:3000]
    except subprocess.TimeoutExpired:
        txt = 'timeout'
    subprocess.run(['rm', '-rf', workdir])
    return txt


# ------------------------------------------------------------------ running the implementation

_PROP = None


def _safe_impl(prop, c):
    # an exception escaping run_impl (outside its own guarded calls) is recorded as an error outcome,
    # so that a mutated implementation cannot crash the whole check instead of being reported
    try:
        return prop.run_impl(c)
    except BaseException as e:  # noqa
        if isinstance(e, (KeyboardInterrupt, SystemExit)):
            raise
        return ['err', 'Other', 'escaped run_impl: %s: %s' % (type(e).__name__, str(e)[:200])]


def _impl_chunk(cases):
    return [_safe_impl(_PROP, c) for c in cases]


def run_impl_all(prop, cases, jobs=12, chunk=100):
    global _PROP
    _PROP = prop
    if len(cases) < 2 * chunk or getattr(prop, 'SERIAL', False):
        return [_safe_impl(prop, c) for c in cases]
    chunks = [cases[i:i + chunk] for i in range(0, len(cases), chunk)]
    out = []
    with ProcessPoolExecutor(max_workers=jobs, mp_context=multiprocessing.get_context('fork')) as ex:
        for res in ex.map(_impl_chunk, chunks):
            out.extend(res)
    return out


# ------------------------------------------------------------------ source drift

def source_fingerprints(repo):
    """sha1 of the normalised AST (no comments, no docstrings, no formatting) of every
    fcapy/**/*.py, per top-level function / method, so that drift can be named."""
    import ast
    out = {}
    for f in sorted(glob.glob(os.path.join(repo, 'fcapy', '**', '*.py'), recursive=True)):
        rel = os.path.relpath(f, repo)
        try:
            tree = ast.parse(open(f).read())
        except Exception as e:  # a file that does not parse is certainly a drift
            out[rel] = 'unparsable: %s' % type(e).__name__
            continue
        for node in ast.walk(tree):
            if isinstance(node, (ast.FunctionDef, ast.AsyncFunctionDef, ast.ClassDef, ast.Module)):
                b = node.body
                if b and isinstance(b[0], ast.Expr) and isinstance(getattr(b[0], 'value', None), ast.Constant) \
                        and isinstance(b[0].value.value, str):
                    node.body = b[1:] or [ast.Pass()]
        def visit(node, prefix):
            for ch in getattr(node, 'body', []):
                if isinstance(ch, (ast.FunctionDef, ast.AsyncFunctionDef)):
                    out['%s:%s%s' % (rel, prefix, ch.name)] = hashlib.sha1(ast.dump(ch).encode()).hexdigest()[:16]
                elif isinstance(ch, ast.ClassDef):
                    visit(ch, prefix + ch.name + '.')
        visit(tree, '')
        out[rel] = hashlib.sha1(ast.dump(tree).encode()).hexdigest()[:16]
    return out


def source_drift():
    """Functions of /repo's working tree whose fingerprint differs from the committed baseline."""
    base_p = os.path.join(VERIF, 'harness', 'source_baseline.json')
    if not os.path.exists(base_p):
        return None
    base = json.load(open(base_p))
    cur = source_fingerprints(REPO)
    changed = sorted(k for k in set(base) | set(cur) if base.get(k) != cur.get(k))
    return changed


# ------------------------------------------------------------------ known findings

def load_known(pid):
    if not os.path.exists(KNOWN):
        return []
    data = json.load(open(KNOWN))
    return [f for f in data.get('findings', []) if f.get('property') == pid]


# ------------------------------------------------------------------ the run

PHASES = {}


def evaluate(prop, cases, tag='run'):
    """impl + Coq on a list of cases -> (impl_outs, terms, codes, errors)."""
    t0 = time.time()
    outs = run_impl_all(prop, cases)
    t1 = time.time()
    # an implementation outcome that cannot even be written as a term of the case type (negative
    # index, wrong shape, ...) is itself a failing case: it differs from the model and cannot
    # satisfy the spec (code 3); it is not sent to Coq
    terms, unprintable = [], {}
    for i, (c, o) in enumerate(zip(cases, outs)):
        try:
            terms.append(prop.to_coq(c, o))
        except Exception as e:  # noqa
            unprintable[i] = '%s: %s' % (type(e).__name__, str(e)[:200])
            terms.append(None)
    t2 = time.time()
    sent = [t for t in terms if t is not None]
    sent_codes, errors = coq_eval(prop, sent, shard=getattr(prop, 'SHARD', 300), tag=tag)
    codes, k = [], 0
    for i, t in enumerate(terms):
        if t is None:
            codes.append(3)
            terms[i] = '(* unprintable implementation outcome: %s *)' % unprintable[i]
        else:
            codes.append(sent_codes[k])
            k += 1
    PHASES['impl_s'] = PHASES.get('impl_s', 0) + round(t1 - t0, 2)
    PHASES['print_s'] = PHASES.get('print_s', 0) + round(t2 - t1, 2)
    PHASES['coq_eval_s'] = PHASES.get('coq_eval_s', 0) + round(time.time() - t2, 2)
    return outs, terms, codes, errors


def shrink(prop, case, want, rounds=40):
    """Greedy delta debugging: keep a smaller case while its code class stays in `want`."""
    if not hasattr(prop, 'shrink'):
        return case
    cur = case
    for _ in range(rounds):
        cands = prop.shrink(cur)
        if not cands:
            break
        cands = cands[:60]
        try:
            _, _, codes, errs = evaluate(prop, cands, tag='shrink')
        except Exception:
            break
        if errs:
            break
        nxt = None
        for c, code in zip(cands, codes):
            if code % 10 in want:
                nxt = c
                break
        if nxt is None:
            break
        cur = nxt
    return cur


def write_replay(pid, seed, n, payload):
    os.makedirs(REPLAYS, exist_ok=True)
    path = os.path.join(REPLAYS, '%s_%d_%d.json' % (pid, seed, n))
    json.dump(payload, open(path, 'w'), indent=1, default=str)
    return path


def load_corpus(prop):
    d = os.path.join(VERIF, 'corpus', prop.ID)
    cases = []
    for f in sorted(glob.glob(os.path.join(d, '*.json'))):
        obj = json.load(open(f))
        for c in (obj if isinstance(obj, list) else [obj]):
            cases.append(c.get('case', c))
    return cases


def key_of(case):
    return hashlib.sha1(json.dumps(case, sort_keys=True, default=str).encode()).hexdigest()


def preload():
    """Import the library (and the heavy third-party modules it pulls in) once, in the parent
    process and before any alarm is armed: an alarm firing in the middle of a first import
    leaves half-initialised modules behind, and forked workers inherit what is loaded here."""
    import importlib
    for m in ('numpy', 'bitarray', 'fcapy', 'fcapy.context', 'fcapy.lattice', 'fcapy.poset',
              'fcapy.mvcontext', 'fcapy.algorithms.concept_construction',
              'fcapy.algorithms.lattice_construction', 'fcapy.lattice.concept_measures',
              'fcapy.visualizer', 'fcapy.ml.decision_lattice'):
        try:
            importlib.import_module(m)
        except Exception:  # a broken import is reported by the cases themselves
            pass


def run_property(prop, tier='quick', seed=0, replay=None):
    t0 = time.time()
    preload()
    pid = prop.ID
    lines = []          # VIOLATION / KNOWN-FINDING lines
    violations = 0
    notes = []
    replay_n = [0]

    def violation(payload, nofail=False):
        nonlocal violations
        violations += 1
        replay_n[0] += 1
        path = write_replay(pid, seed, replay_n[0], payload)
        line = 'VIOLATION property=%s replay=%s' % (pid, path)
        if nofail:
            line += ' no-failing-input-found'
        print(line, flush=True)
        lines.append(line)

    # ---- replay mode: one case
    if replay:
        payload = json.load(open(replay))
        case = payload.get('case')
        if case is None:
            print('replay file names a proof/correspondence obligation, not a case: %s' %
                  payload.get('obligation'))
            pr = prove(pid)
            print('proofs ok' if pr['ok'] else 'proofs broken:\n' + pr['log'])
            return 0 if pr['ok'] else 1
        outs, terms, codes, errs = evaluate(prop, [case], tag='replay')
        print('implementation:', json.dumps(outs[0], default=str)[:1000])
        print('model/spec    :', coq_show(prop, terms[0]))
        print('code          :', codes[0], errs)
        known_g = {f.get('guard_index') for f in load_known(pid) if f.get('status', 'open') == 'open'}
        if codes[0] % 10 == 2 and codes[0] // 10 in known_g:
            print('KNOWN-FINDING: property=%s the replayed case is outside guard %d of a recorded open finding '
                  'and the implementation answers as the faithful model does' % (pid, codes[0] // 10))
            return 0
        if codes[0] % 10 in (1, 2, 3) or errs:
            print('VIOLATION property=%s replay=%s%s' % (
                pid, replay, ' no-failing-input-found' if codes[0] % 10 == 1 else ''))
            return 1
        return 0

    for old in glob.glob(os.path.join(REPLAYS, '%s_%d_*.json' % (pid, seed))):
        os.remove(old)

    # ---- (1) proofs
    ok_build, build_log = build()
    PHASES['build_s'] = round(time.time() - t0, 2)
    words = forbidden_words()
    # make -k may fail on a file that belongs to another property; what matters here is that
    # Props/<pid>.v recompiles against freshly built dependencies (coqc checks their consistency)
    pr = prove(pid)
    if not pr['ok'] and not ok_build:
        pr['log'] = (pr['log'] + '\n--- make ---\n' + build_log)[-3000:]
    proof_broken = (not pr['ok']) or bool(words)
    PHASES['proof_s'] = round(time.time() - t0 - PHASES['build_s'], 2)

    # ---- (2) correspondence
    rng = random.Random(seed)
    corpus = load_corpus(prop)
    tg = time.time()
    gen = list(prop.generate(rng, tier))
    PHASES['generate_s'] = round(time.time() - tg, 2)
    cases = corpus + gen
    impl_t0 = time.time()
    outs, terms, codes, errors = evaluate(prop, cases)
    # source drift: when the anchored code differs from the fingerprinted baseline and nothing has
    # been found yet, the quick tier spends its remaining budget on further batches (other seeds)
    drift = source_drift()
    extra_batches = 0
    budget = float(os.environ.get('VERIF_DRIFT_BUDGET_S', '75'))
    while (drift and tier == 'quick' and not errors and all(c % 10 == 0 or c % 10 == 2 and c // 10 > 0 for c in codes)
           and time.time() - t0 < budget * 0.6 and extra_batches < 6):
        extra_batches += 1
        more = list(prop.generate(random.Random(seed * 1000003 + 7919 * extra_batches), tier))
        o2, t2, c2, e2 = evaluate(prop, more, tag='drift%d' % extra_batches)
        cases += more
        outs += o2
        terms += t2
        codes += c2
        errors += e2
    corr_wall = time.time() - impl_t0

    known = load_known(pid)
    known_by_guard = {f.get('guard_index'): f for f in known if f.get('status', 'open') == 'open'}
    known_hit = {}
    not_reproduced = 0
    broken_corr = []
    failing = []
    for i, code in enumerate(codes):
        base, g = code % 10, code // 10
        if base == 0:
            continue
        if base == 2 and g in known_by_guard:
            known_hit.setdefault(g, []).append(i)
        elif base == 1 and g in known_by_guard:
            not_reproduced += 1
        elif base in (2, 3):
            failing.append(i)
        else:
            broken_corr.append(i)

    if errors:
        violation({'property': pid, 'kind': 'broken-correspondence',
                   'obligation': 'coqc failed while evaluating generated cases', 'log': errors[:2]},
                  nofail=True)

    def search_failing(budget_s):
        """Look for an input on which the property itself fails (spec not ok)."""
        t1 = time.time()
        k = 0
        while time.time() - t1 < budget_s and k < 6:
            k += 1
            r2 = random.Random((seed + 1) * 7919 + k)
            more = list(prop.generate(r2, 'thorough' if k > 1 else tier))[:4000]
            o2, t2, c2, e2 = evaluate(prop, more, tag='search')
            for j, code in enumerate(c2):
                if code % 10 in (2, 3) and not (code % 10 == 2 and code // 10 in known_by_guard):
                    return more[j]
        return None

    reported = set()
    for i in failing[:5]:
        small = shrink(prop, cases[i], want=(2, 3))
        k = key_of(small)
        if k in reported:
            continue
        reported.add(k)
        o, tms, cds, _ = evaluate(prop, [small], tag='final')
        violation({'property': pid, 'kind': 'counterexample', 'case': small, 'seed': seed,
                   'implementation': o[0], 'model_and_spec': coq_show(prop, tms[0]), 'code': cds[0],
                   'original_case': cases[i]})
    if failing and len(failing) > 5:
        notes.append('%d further failing cases not shrunk' % (len(failing) - 5))

    if broken_corr and not failing:
        i = broken_corr[0]
        small = shrink(prop, cases[i], want=(1,))
        found = search_failing(60 if tier == 'quick' else 300)
        o, tms, cds, _ = evaluate(prop, [small], tag='final')
        if found is not None:
            found = shrink(prop, found, want=(2, 3))
            o2, t2, c2, _ = evaluate(prop, [found], tag='final')
            violation({'property': pid, 'kind': 'counterexample', 'case': found, 'seed': seed,
                       'implementation': o2[0], 'model_and_spec': coq_show(prop, t2[0]), 'code': c2[0],
                       'found_by': 'search after broken correspondence'})
        else:
            violation({'property': pid, 'kind': 'broken-correspondence',
                       'obligation': 'correspondence %s: implementation output differs from the model '
                                     'although it satisfies the executable spec' % prop.CHECK,
                       'disagreeing_case': small, 'implementation': o[0],
                       'model_and_spec': coq_show(prop, tms[0]),
                       'n_disagreements': len(broken_corr)}, nofail=True)

    if proof_broken:
        found = None if failing else search_failing(30 if tier == 'quick' else 120)
        if found is not None:
            o2, t2, c2, _ = evaluate(prop, [found], tag='final')
            violation({'property': pid, 'kind': 'counterexample', 'case': found, 'seed': seed,
                       'implementation': o2[0], 'model_and_spec': coq_show(prop, t2[0]), 'code': c2[0],
                       'found_by': 'search after broken proof'})
        elif not failing:
            violation({'property': pid, 'kind': 'broken-proof',
                       'obligation': 'coq/Props/%s.v: %s' % (
                           pid, 'forbidden words: %s' % words if words else
                           'theorems not closed: %s' % sorted(set(pr['theorems']) - set(pr['discharged']))
                           if pr['theorems'] else 'Props file did not compile'),
                       'log': pr['log'][-1500:]}, nofail=True)

    # known findings: print one line per listed open finding that was hit (or whose witness fails)
    for f in known:
        if f.get('status', 'open') != 'open':
            continue
        hit = known_hit.get(f.get('guard_index'), [])
        wit_fails = False
        if f.get('witness') is not None:
            o, tms, cds, _ = evaluate(prop, [f['witness']], tag='witness')
            wit_fails = cds[0] % 10 == 2
        if hit or wit_fails:
            print('KNOWN-FINDING: property=%s %s %s (cases hit in this run: %d)' %
                  (pid, f.get('id'), f.get('what'), len(hit)), flush=True)

    # ---- (3) evidence
    nontrivial = set()
    dist = {}
    for c in cases:
        if prop.nontrivial(c):
            nontrivial.add(key_of(c))
        for k, v in (prop.stats(c) if hasattr(prop, 'stats') else {}).items():
            d = dist.setdefault(k, {})
            d[str(v)] = d.get(str(v), 0) + 1
    err_kinds = {}
    for o in outs:
        if isinstance(o, (list, tuple)) and len(o) >= 2 and o[0] == 'err':
            err_kinds[o[1]] = err_kinds.get(o[1], 0) + 1
    samples = []
    for c, o in list(zip(cases, outs))[len(corpus):len(corpus) + 3]:
        samples.append({'case': c, 'implementation': o})
    if not samples and cases:
        samples.append({'case': cases[0], 'implementation': outs[0]})
    ev = {
        'property_id': pid, 'tier': tier, 'seed': seed, 'level': 'proof',
        'coverage': {
            'obligations': len(pr['theorems']),
            'discharged': len(pr['discharged']),
            'checker_cmd': 'cd /verif/coq && make -j16 && coqc -Q . FCA Props/%s.v' % pid,
            'trusted_base': TRUSTED_BASE + list(getattr(prop, 'TRUSTED_EXTRA', [])),
            'theorems': pr['theorems'],
            'axioms': pr['axioms'],
            'forbidden_words_found': words,
            'evaluations': len(cases),
            'traces_validated_against_impl': 0 if errors else len(cases),
            'distinct_nontrivial': len(nontrivial),
            'rule': prop.RULE,
            'samples': samples,
            'exhaustive': bool(getattr(prop, 'EXHAUSTIVE', {}).get(tier)),
            'exhaustive_scope': getattr(prop, 'EXHAUSTIVE', {}).get(tier) or '',
            'corpus_cases': len(corpus),
            'distribution': dist,
            'implementation_errors': err_kinds,
            'codes': {str(k): codes.count(k) for k in sorted(set(codes))},
            'known_findings_hit': {str(k): len(v) for k, v in known_hit.items()},
            'findings_not_reproduced': not_reproduced,
            'correspondence_wall_s': round(corr_wall, 2),
            'phases_s': dict(PHASES),
            'source_drift': drift if drift is not None else 'no baseline',
            'drift_extra_batches': extra_batches,
            'extra': (prop.extra_evidence(cases, outs) if hasattr(prop, 'extra_evidence') else {}),
            'notes': notes,
        },
        'assumptions': list(getattr(prop, 'ASSUMPTIONS', [])),
        'wall_s': round(time.time() - t0, 2),
        'violations': violations,
    }
    os.makedirs(EVID, exist_ok=True)
    json.dump(ev, open(os.path.join(EVID, pid + '.json'), 'w'), indent=1, default=str)
    print('%s %s: theorems %d/%d closed, %d cases (%d distinct non-trivial), codes %s, %d violation(s), %.1fs'
          % (pid, tier, len(pr['discharged']), len(pr['theorems']), len(cases), len(nontrivial),
             ev['coverage']['codes'], violations, time.time() - t0), flush=True)
    return 1 if violations else 0

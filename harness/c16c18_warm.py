"""Context-level warm-up shared by the C16 and C18 harnesses: questions put to a FormalContext OBJECT
through its public API with non-default parameters, results discarded.  The models are stateless, so
whatever the context object remembers from these calls must not change any later answer."""
import itertools
import random


def warm_context(K, t, seed, focus=None):
    """`t` is the boolean table of K; `focus` an optional list of object tuples to insist on (e.g. the
    extents whose stability is computed next).  Every call is wrapped: an exception here is not the
    subject of the check that uses the warm-up."""
    rng = random.Random(seed)
    h, w = len(t), len(t[0])
    attrs = list(range(w))
    objs = list(range(h))

    def quiet(fn):
        try:
            return fn()
        except Exception:  # noqa
            return None

    def sub(lst, lo=0):
        k = rng.randint(lo, len(lst)) if lst else 0
        return sorted(rng.sample(lst, k))

    # extents of the table (closures of a few attribute sets) and their sub-tuples, as stability enumerates them
    tuples = set()
    for B in [[]] + [[m] for m in attrs] + [sub(attrs) for _ in range(4)]:
        e = tuple(g for g in objs if all(t[g][m] for m in B))
        tuples.add(e)
    for e in list(focus or []):
        tuples.add(tuple(e))
    subs = set()
    for e in tuples:
        subs.add(e)
        for k in range(0, min(len(e), 3) + 1):
            for c in itertools.islice(itertools.combinations(e, k), 12):
                subs.add(c)
        if len(e) > 3:
            for _ in range(6):
                subs.add(tuple(sub(list(e))))
    subs = sorted(subs, key=lambda x: (len(x), x))
    rng.shuffle(subs)
    for gs in subs[:60]:
        P = sub(attrs)
        quiet(lambda: K.intention_i(gs, base_attrs_i=P))                 # same object tuple, projected attributes
        if rng.random() < 0.3:
            quiet(lambda: K.intention_i(list(gs), P))
        if rng.random() < 0.3:
            quiet(lambda: K.intention_monotone_i(list(gs), base_attrs_i=P))
    for _ in range(12):
        B, base = sub(attrs), sub(objs)
        quiet(lambda: K.extension_i(B, base_objects_i=base))
        quiet(lambda: K.extension_i(tuple(B), base))
        if rng.random() < 0.4:
            quiet(lambda: K.extension_monotone_i(B, base_objects_i=base))
    an, on = list(K.attribute_names), list(K.object_names)
    for _ in range(4):
        B, base, A = sub(attrs), sub(objs), sub(objs)
        quiet(lambda: K.extension([an[m] for m in B], [on[g] for g in base]))
        quiet(lambda: K.intention([on[g] for g in A]))
        quiet(lambda: K.get_minimal_generators(sub(attrs), base_generator=sub(attrs)[:1], base_objects=sub(objs),
                                               use_indexes=True))
    quiet(lambda: K.T.intention_i(sub(attrs)))
    quiet(lambda: K.T.extension_i(sub(objs), base_objects_i=sub(attrs)))
    quiet(lambda: K[sub(objs, 1)].intention_i([0]))
    quiet(lambda: K[:, sub(attrs, 1)].extension_i([0]))
    quiet(lambda: K[sub(objs, 1), sub(attrs, 1)])
    quiet(lambda: K.hash_fixed())
    quiet(lambda: list(K.to_bin_attr_extents()))
    quiet(lambda: (~K).intention_i(sub(objs)))
    quiet(lambda: K.n_bin_attrs)

"""Shared generators: boolean tables with forced shapes, subsets, selections."""
import itertools


def random_table(rng, max_h=8, max_w=8, min_h=1, min_w=1):
    """A boolean table with a structured shape drawn from one PRNG."""
    h = rng.randint(min_h, max_h)
    w = rng.randint(min_w, max_w)
    kind = rng.choice(['dens', 'dens', 'dens', 'dens', 'true', 'false', 'duprow', 'dupcol', 'emptyrow',
                       'fullcol', 'nominal', 'ordinal', 'contranominal', 'chain', 'tall', 'wide', 'one_row',
                       'one_col'])
    if kind == 'tall':
        h, w = max(h, min(max_h, w + 2)), min(w, max(min_w, max_w // 2))
    if kind == 'wide':
        w, h = max(w, min(max_w, h + 2)), min(h, max(min_h, max_h // 2))
    if kind == 'one_row':
        h = 1
    if kind == 'one_col':
        w = 1
    p = rng.choice([0.1, 0.3, 0.5, 0.7, 0.9])
    t = [[rng.random() < p for _ in range(w)] for _ in range(h)]
    if kind == 'true':
        t = [[True] * w for _ in range(h)]
    elif kind == 'false':
        t = [[False] * w for _ in range(h)]
    elif kind == 'duprow' and h >= 2:
        i, j = rng.sample(range(h), 2)
        t[j] = list(t[i])
    elif kind == 'dupcol' and w >= 2:
        i, j = rng.sample(range(w), 2)
        for r in t:
            r[j] = r[i]
    elif kind == 'emptyrow':
        t[rng.randrange(h)] = [False] * w
    elif kind == 'fullcol':
        j = rng.randrange(w)
        for r in t:
            r[j] = True
    elif kind == 'nominal':
        t = [[i % w == j for j in range(w)] for i in range(h)]
    elif kind == 'ordinal':
        t = [[j <= i for j in range(w)] for i in range(h)]
    elif kind == 'contranominal':
        n = min(h, w)
        t = [[i != j for j in range(n)] for i in range(n)]
    elif kind == 'chain':
        t = [[j < (i * (w + 1)) // max(h, 1) for j in range(w)] for i in range(h)]
    return t, kind


def random_subset(rng, n, allow_empty=True, allow_full=True):
    """Duplicate-free, unsorted subset of range(n)."""
    mode = rng.choice(['rand', 'rand', 'rand', 'empty', 'full', 'single'])
    if mode == 'empty' and allow_empty:
        return []
    if mode == 'full' and allow_full:
        s = list(range(n))
    elif mode == 'single' and n:
        s = [rng.randrange(n)]
    else:
        lo = 0 if allow_empty else 1
        hi = n if allow_full else max(n - 1, lo)
        k = rng.randint(lo, max(lo, hi)) if n else 0
        s = rng.sample(range(n), min(k, n))
    if rng.random() < 0.5:
        rng.shuffle(s)
    else:
        s.sort()
    return s


def all_tables(h, w):
    for bits in itertools.product([False, True], repeat=h * w):
        yield [list(bits[i * w:(i + 1) * w]) for i in range(h)]


def all_subsets(n):
    for k in range(n + 1):
        for c in itertools.combinations(range(n), k):
            yield list(c)


def shrink_table_case(case, table_key='table', row_keys=(), col_keys=()):
    """Generic candidates: drop a row / a column (re-indexing the listed index fields), clear a cell."""
    out = []
    t = case[table_key]
    h, w = len(t), len(t[0]) if t else 0

    def reindex(lst, k):
        if lst is None:
            return None
        return [x - 1 if x > k else x for x in lst if x != k]
    if h > 1:
        for i in range(h):
            c = dict(case)
            c[table_key] = [r for k, r in enumerate(t) if k != i]
            for rk in row_keys:
                c[rk] = reindex(case.get(rk), i)
            out.append(c)
    if w > 1:
        for j in range(w):
            c = dict(case)
            c[table_key] = [[v for k, v in enumerate(r) if k != j] for r in t]
            for ck in col_keys:
                c[ck] = reindex(case.get(ck), j)
            out.append(c)
    for i in range(h):
        for j in range(w):
            if t[i][j]:
                c = dict(case)
                c[table_key] = [[(False if (a == i and b == j) else v) for b, v in enumerate(r)]
                                for a, r in enumerate(t)]
                out.append(c)
    return out

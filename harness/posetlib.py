"""Shared helpers of the poset cluster (C09, C10, C11): generated partial orders on <= 8 carriers,
the operation vocabulary of a poset history, running it on FCApy's POSet / semilattice classes,
and printing operations and outputs as Coq terms (types of Spec/PosetSpec.v).

A carrier is a small int; the comparison is a lookup in the relation matrix of the case, so the
elements the implementation sees are plain hashable ints and `leq_func` is one shared closure.
Operations (JSON lists):
  ['leq',a,b] ['cl',up,i] ['cv',up,i] ['ex',up] ['bd',up,[..]] ['idx',e] ['in',e] ['len']
  ['eq',[elements],other_cache] ['fill',k] ['add',e,fill] ['del',i] ['rm',e] ['top'] ['bot']
Outputs (JSON lists):
  ['none'] ['b',bool] ['s',sorted ints] ['l',ints] ['o',int|None] ['n',int] ['e',elements] ['x',kind]
"""
import itertools
from harness.core import coq, Raw, ERR_KINDS

EFUEL = 13


# ------------------------------------------------------------------ orders
def closure(k, edges):
    m = [[i == j for j in range(k)] for i in range(k)]
    for a, b in edges:
        m[a][b] = True
    for x in range(k):
        for a in range(k):
            if m[a][x]:
                for b in range(k):
                    if m[x][b]:
                        m[a][b] = True
    return m


def order_subsets(rng, k):
    base = rng.choice([2, 3, 3, 3, 4])
    allsub = list(range(2 ** base))
    subs = rng.sample(allsub, min(k, len(allsub)))
    return [[(a & b) == a for b in subs] for a in subs], 'subsets'


def order_divis(rng, k):
    nums = rng.sample(range(1, 25), k)
    return [[b % a == 0 for b in nums] for a in nums], 'divisibility'


def order_chain(rng, k):
    perm = list(range(k))
    rng.shuffle(perm)
    return [[perm[a] <= perm[b] for b in range(k)] for a in range(k)], 'chain'


def order_antichain(rng, k):
    return [[a == b for b in range(k)] for a in range(k)], 'antichain'


def order_dag(rng, k):
    perm = list(range(k))
    rng.shuffle(perm)
    p = rng.choice([0.15, 0.3, 0.5])
    edges = [(perm[i], perm[j]) for i in range(k) for j in range(i + 1, k) if rng.random() < p]
    return closure(k, edges), 'dag'


def order_bounded(rng, k):
    """random DAG closure with a least carrier 0 and a greatest carrier 1 (for semilattices)."""
    if k < 2:
        return [[True]], 'bounded'
    inner = list(range(2, k))
    rng.shuffle(inner)
    p = rng.choice([0.15, 0.3, 0.5])
    edges = [(inner[i], inner[j]) for i in range(len(inner)) for j in range(i + 1, len(inner))
             if rng.random() < p]
    edges += [(0, x) for x in range(1, k)] + [(x, 1) for x in range(k) if x != 1]
    return closure(k, edges), 'bounded'


def order_layers(rng, k):
    """ranked order: every element of a layer below a random part of the next layer."""
    layers, rest = [], list(range(k))
    rng.shuffle(rest)
    while rest:
        w = rng.randint(1, 3)
        layers.append(rest[:w])
        rest = rest[w:]
    edges = []
    for lo, hi in zip(layers, layers[1:]):
        for a in lo:
            for b in hi:
                if rng.random() < 0.6:
                    edges.append((a, b))
    return closure(k, edges), 'layers'


ORDERS = [order_subsets, order_subsets, order_divis, order_dag, order_dag, order_layers, order_layers,
          order_chain, order_antichain, order_bounded]


def random_order(rng, k=None, kmax=8):
    k = k or rng.randint(2, kmax)
    return rng.choice(ORDERS)(rng, k)


def as_iterable(els, how):
    """The element collection handed to a constructor: a list, a tuple, or a ONE-SHOT iterable
    (generator, map object, list iterator) — the resulting poset must be the same."""
    els = list(els)
    if how == 'tuple':
        return tuple(els)
    if how == 'gen':
        return (x for x in els)
    if how == 'map':
        return map(int, els)
    if how == 'iter':
        return iter(els)
    return els


def covers_of(m):
    k = len(m)
    return [(a, b) for a in range(k) for b in range(k) if a != b and m[a][b] and
            not any(c not in (a, b) and m[a][c] and m[c][b] for c in range(k))]


def alt_orders(rng, m):
    """Other partial orders on the same carriers: [equal copy (a different object), a proper
    sub-relation, a super-relation, an unrelated order]; entries may coincide with m for tiny m."""
    k = len(m)
    cov = covers_of(m)
    sub = closure(k, [e for e in cov if rng.random() < 0.6])
    topo = sorted(range(k), key=lambda x: (sum(m[y][x] for y in range(k)), rng.random()))
    extra = [(topo[i], topo[j]) for i in range(k) for j in range(i + 1, k) if rng.random() < 0.3]
    sup = closure(k, cov + extra)
    perm = list(range(k))
    rng.shuffle(perm)
    other = [[m[perm[a]][perm[b]] for b in range(k)] for a in range(k)]
    return [[list(r) for r in m], sub, sup, other]


def is_partial_order(m):
    k = len(m)
    for a in range(k):
        if not m[a][a]:
            return False
        for b in range(k):
            if a != b and m[a][b] and m[b][a]:
                return False
            for c in range(k):
                if m[a][b] and m[b][c] and not m[a][c]:
                    return False
    return True


def true_children(m, els):
    """children_dict of the element list `els` under matrix m (values are frozensets)."""
    n = len(els)
    out = {}
    for i in range(n):
        below = [j for j in range(n) if j != i and m[els[j]][els[i]]]
        out[i] = frozenset(j for j in below
                           if not any(k != j and m[els[j]][els[k]] for k in below))
    return out


# ------------------------------------------------------------------ running operations
def _x(e):
    from harness.core import classify_exception
    return ['x', ERR_KINDS.get(classify_exception(e), 11)]


def apply_op(p, op, leq, POSet, enc=None, dec=None, mk_other=None):
    """One public call on poset p; returns the encoded output.  enc/dec translate a carrier id
    to the element object the implementation stores and back (identity by default)."""
    enc = enc or (lambda e: e)
    dec = dec or int
    try:
        k = op[0]
        if k == 'leq':
            return ['b', bool(p.leq_elements(op[1], op[2]))]
        if k == 'cl':
            r = p.ancestors(op[2]) if op[1] else p.descendants(op[2])
            return ['s', sorted(int(x) for x in r)]
        if k == 'cv':
            r = p.parents(op[2]) if op[1] else p.children(op[2])
            return ['s', sorted(int(x) for x in r)]
        if k == 'ex':
            r = p.tops if op[1] else p.bottoms
            return ['l', [int(x) for x in r]]
        if k == 'bd':
            r = p.join(list(op[2])) if op[1] else p.meet(list(op[2]))
            return ['o', None if r is None else int(r)]
        if k == 'idx':
            return ['n', int(p.index(enc(op[1])))]
        if k == 'in':
            return ['b', bool(enc(op[1]) in p)]
        if k == 'len':
            return ['n', len(p)]
        if k == 'eq':
            if mk_other is not None:
                other = mk_other([enc(e) for e in op[1]], bool(op[2]))
            else:
                other = POSet([enc(e) for e in op[1]], leq, use_cache=bool(op[2]))
            return ['b', bool(p == other)]
        if k == 'fill':
            [p.fill_up_leq_cache, p.fill_up_descendants_cache, p.fill_up_ancestors_cache,
             p.fill_up_children_cache, p.fill_up_parents_cache, p.fill_up_caches][op[1]]()
            return ['none']
        if k == 'add':
            p.add(enc(op[1]), fill_up_cache=bool(op[2]))
            return ['e', [dec(x) for x in p.elements]]
        if k == 'del':
            del p[op[1]]
            return ['e', [dec(x) for x in p.elements]]
        if k == 'rm':
            p.remove(enc(op[1]))
            return ['e', [dec(x) for x in p.elements]]
        if k == 'trace':                     # public trace_element(element, 'up'/'down')
            fin, tr = p.trace_element(enc(op[1]), 'up' if op[2] else 'down')
            return ['two', sorted(int(x) for x in fin), sorted(int(x) for x in tr)]
        if k == 'dict':                      # parents_dict/children_dict (cover) or ancestors_dict/descendants_dict
            d = ((p.parents_dict if op[2] else p.children_dict) if op[1] else
                 (p.ancestors_dict if op[2] else p.descendants_dict))
            if sorted(d) != list(range(len(p))):
                return ['x', 14]
            return ['map', [sorted(int(x) for x in d[i]) for i in range(len(p))]]
        if k == 'sup':                       # supremum / infimum (aliases of join / meet)
            r = p.supremum(list(op[2])) if op[1] else p.infimum(list(op[2]))
            return ['o', None if r is None else int(r)]
        if k == 'top':
            return ['n', int(p.top)]
        if k == 'bot':
            return ['n', int(p.bottom)]
        raise ValueError('unknown op %r' % (op,))
    except Exception as e:  # noqa
        return _x(e)


def final_queries(n):
    """Mirror of Corr/C09.v final_queries: same queries, same order."""
    qs = [['leq', i, j] for i in range(n) for j in range(n)]
    for i in range(n):
        qs += [['cl', True, i], ['cl', False, i]]
    for i in range(n):
        qs += [['cv', True, i], ['cv', False, i]]
    qs += [['ex', True], ['ex', False], ['bd', True, []], ['bd', False, []]]
    for i in range(n):
        for j in range(n):
            if i < j:
                qs += [['bd', True, [i, j]], ['bd', False, [i, j]]]
    qs.append(['len'])
    return qs


def run_final(p, leq, POSet, extra=(), enc=None, dec=None):
    outs = [apply_op(p, q, leq, POSet, enc, dec) for q in final_queries(len(p)) + list(extra)]
    outs.append(['e', [(dec or int)(x) for x in p.elements]])
    return outs


def snapshot(p):
    """Everything observable about a poset object, for 'unchanged' comparisons (read-only)."""
    d = {'elements': list(p._elements), 'map': sorted(p._elements_to_index_map.items())}
    if getattr(p, '_use_cache', False):
        for name in ('_cache_leq', '_cache_descendants', '_cache_ancestors', '_cache_children',
                     '_cache_parents'):
            c = getattr(p, name)
            d[name] = sorted((k, (sorted(v) if not isinstance(v, bool) else v)) for k, v in c.items())
    for name in ('_cache_top', '_cache_bottom'):
        if hasattr(p, name):
            d[name] = getattr(p, name)
    return d


# ------------------------------------------------------------------ Coq printing
def b(v):
    return 'true' if v else 'false'


def op_term(op):
    k = op[0]
    if k == 'leq':
        return '(QLeq %d %d)' % (op[1], op[2])
    if k == 'cl':
        return '(QClosed %s %d)' % (b(op[1]), op[2])
    if k == 'cv':
        return '(QCover %s %d)' % (b(op[1]), op[2])
    if k == 'ex':
        return '(QExtremes %s)' % b(op[1])
    if k == 'bd':
        return '(QBound %s %s)' % (b(op[1]), coq(list(op[2])))
    if k == 'idx':
        return '(QIndex %d)' % op[1]
    if k == 'in':
        return '(QContains %d)' % op[1]
    if k == 'len':
        return 'QLen'
    if k == 'eq':
        return '(QEq %s %s)' % (coq(list(op[1])), b(op[2]))
    if k == 'fill':
        return '(OFill %d)' % op[1]
    if k == 'add':
        return '(OAdd %d %s)' % (op[1], b(op[2]))
    if k == 'del':
        return '(ODel %d)' % op[1]
    if k == 'rm':
        return '(ORemove %d)' % op[1]
    raise ValueError(op)


def xop_term(op):
    k = op[0]
    if k == 'trace':
        return '(XTrace %d %s)' % (op[1], b(op[2]))
    if k == 'dict':
        return '(XDict %s %s)' % (b(op[1]), b(op[2]))
    if k == 'sup':
        return '(XSup %s %s)' % (b(op[1]), coq(list(op[2])))
    return '(XB %s)' % op_term(op)


def xops_term(ops):
    return '[' + '; '.join(xop_term(o) for o in ops) + ']'


def xout_term(o):
    try:
        if o[0] == 'two' and _nats(o[1]) and _nats(o[2]):
            return '(XTwo %s %s)' % (coq(o[1]), coq(o[2]))
        if o[0] == 'map' and all(_nats(v) for v in o[1]):
            return '(XMap %s)' % coq(o[1])
    except Exception:  # noqa
        pass
    return '(XO %s)' % out_term(o)


def xouts_term(outs):
    return '[' + '; '.join(xout_term(o) for o in outs) + ']'


def raw_caches_term(p):
    """The five raw cache dictionaries of a POSet as a Coq record (all empty when uncached).
    Anything that is not a dictionary of the expected shape becomes an entry that no sound
    cache can contain (key 999)."""
    def rel(name):
        c = getattr(p, name, None) if getattr(p, '_use_cache', False) else {}
        items = []
        try:
            for k, v in c.items():
                items.append('(%d, %s)' % (int(k), coq(sorted(int(x) for x in v))))
        except Exception:  # noqa
            items = ['(999, [])']
        return '[' + '; '.join(items) + ']'
    lq = getattr(p, '_cache_leq', None) if getattr(p, '_use_cache', False) else {}
    items = []
    try:
        for (a, c), v in lq.items():
            if not isinstance(v, bool):
                raise TypeError
            items.append('((%d, %d), %s)' % (int(a), int(c), b(v)))
    except Exception:  # noqa
        items = ['((999, 999), true)']
    return '(Build_raw_caches [%s] %s %s %s %s)' % (
        '; '.join(items), rel('_cache_descendants'), rel('_cache_ancestors'),
        rel('_cache_children'), rel('_cache_parents'))


def sl_op_term(op):
    if op[0] == 'top':
        return '(SExt true)'
    if op[0] == 'bot':
        return '(SExt false)'
    return '(SP %s)' % op_term(op)


def sl_ops_term(ops):
    return '[' + '; '.join(sl_op_term(o) for o in ops) + ']'



def ops_term(ops):
    return '[' + '; '.join(op_term(o) for o in ops) + ']'


def _nats(v):
    return isinstance(v, list) and all(isinstance(x, int) and not isinstance(x, bool) and x >= 0 for x in v)


def out_term(o):
    try:
        k = o[0]
        if k == 'none':
            return 'ONone'
        if k == 'b' and isinstance(o[1], bool):
            return '(OBool %s)' % b(o[1])
        if k == 's' and _nats(o[1]):
            return '(OSet %s)' % coq(o[1])
        if k == 'l' and _nats(o[1]):
            return '(OList %s)' % coq(o[1])
        if k == 'o' and (o[1] is None or (isinstance(o[1], int) and o[1] >= 0)):
            return '(OOpt %s)' % ('None' if o[1] is None else '(Some %d)' % o[1])
        if k == 'n' and isinstance(o[1], int) and o[1] >= 0:
            return '(ONat %d)' % o[1]
        if k == 'e' and _nats(o[1]):
            return '(OEls %s)' % coq(o[1])
        if k == 'x':
            return '(OErr %d)' % o[1]
    except Exception:  # noqa
        pass
    return '(OErr 14)'     # not a value of the expected shape


def outs_term(outs):
    return '[' + '; '.join(out_term(o) for o in outs) + ']'


def cache_term(cd):
    if cd is None:
        return 'None'
    return '(Some [' + '; '.join('(%d, %s)' % (k, coq(sorted(v))) for k, v in cd) + '])'


# ------------------------------------------------------------------ history generation
def _some_indices(rng, n, lo=1, hi=3):
    if n == 0:
        return []
    return [rng.randrange(n) for _ in range(rng.randint(lo, hi))]


def random_queries(rng, n, cur, k_all, focus=None):
    """1-3 queries concentrated on a few indices (keeps the caches PARTIALLY filled)."""
    out = []
    if n == 0:
        return [rng.choice([['len'], ['ex', True], ['ex', False], ['bd', True, []], ['in', rng.randrange(k_all)]])]
    idx = focus if focus else _some_indices(rng, n)
    for i in idx:
        r = rng.random()
        if r < 0.30:
            out.append(['cv', rng.random() < 0.5, i])
        elif r < 0.55:
            out.append(['cl', rng.random() < 0.5, i])
        elif r < 0.75:
            j = rng.randrange(n) if rng.random() < 0.8 else i
            out.append(['leq', i, j] if rng.random() < 0.5 else ['leq', j, i])
        elif r < 0.82:
            out.append(['ex', rng.random() < 0.5])
        elif r < 0.90:
            l = [] if rng.random() < 0.3 else [rng.randrange(n) for _ in range(rng.randint(1, 3))]
            out.append(['bd', rng.random() < 0.5, l])
        elif r < 0.94:
            e = rng.randrange(k_all)
            out.append(['idx', e] if rng.random() < 0.5 else ['in', e])
        elif r < 0.97:
            perm = list(cur)
            rng.shuffle(perm)
            absent = [x for x in range(k_all) if x not in cur]
            v = rng.random()
            if v < 0.15 and perm:                      # one element replaced
                perm = perm[:-1] + absent[:1]
            elif v < 0.30 and perm:                    # a proper subset
                perm = perm[:-1]
            elif v < 0.45 and absent:                  # a proper superset
                perm.insert(rng.randint(0, len(perm)), rng.choice(absent))
            out.append(['eq', perm, rng.random() < 0.7])
        else:
            out.append(['len'])
    return out


def random_xqueries(rng, n, cur, k_all):
    """The rest of the public surface: trace_element, the *_dict properties, supremum / infimum."""
    r = rng.random()
    if r < 0.45:
        return [['trace', rng.randrange(k_all), rng.random() < 0.5]]
    if r < 0.75:
        return [['dict', rng.random() < 0.5, rng.random() < 0.5]]
    l = [] if (n == 0 or rng.random() < 0.3) else [rng.randrange(n) for _ in range(rng.randint(1, 3))]
    return [['sup', rng.random() < 0.5, l]]


def random_mutation(rng, cur, k_all, fill_weight=0.7):
    """One mutation valid on the current element list `cur`; returns (op, new list)."""
    n = len(cur)
    absent = [x for x in range(k_all) if x not in cur]
    r = rng.random()
    if (r < 0.45 and absent) or n == 0:
        if not absent:
            return ['len'], cur
        e = rng.choice(absent)
        return ['add', e, rng.random() < fill_weight], cur + [e]
    if r < 0.50 and n:                       # add of a present element: no-op
        return ['add', rng.choice(cur), rng.random() < 0.5], cur
    if r < 0.80 and n:                       # delete first / last / middle
        i = rng.choice([0, n - 1, n // 2, rng.randrange(n)])
        return ['del', i], cur[:i] + cur[i + 1:]
    if r < 0.95 and n:
        e = rng.choice(cur)
        i = cur.index(e)
        return ['rm', e], cur[:i] + cur[i + 1:]
    if absent:                               # remove of an absent element: KeyError, unchanged
        return ['rm', rng.choice(absent)], cur
    return ['len'], cur


def random_history(rng, init, k_all, max_ops, use_cache=True, ext=False):
    ops, cur = [], list(init)
    if rng.random() < 0.08 and use_cache:
        ops.append(['fill', rng.randrange(6)])
    while len(ops) < max_ops:
        ops += random_queries(rng, len(cur), cur, k_all)
        if ext and rng.random() < 0.4:
            ops += random_xqueries(rng, len(cur), cur, k_all)
        if len(ops) >= max_ops:
            break
        for _ in range(rng.choice([1, 1, 1, 2])):
            m, cur = random_mutation(rng, cur, k_all)
            ops.append(m)
        if rng.random() < 0.05:
            ops.append(['fill', rng.randrange(6)])
    return ops[:max_ops]


def is_mutation(op):
    return op[0] in ('add', 'del', 'rm')


def history_nontrivial(ops):
    """>= 1 mutation with >= 1 query before and after it."""
    muts = [i for i, o in enumerate(ops) if is_mutation(o)]
    if not muts:
        return False
    qs = [i for i, o in enumerate(ops) if o[0] in ('leq', 'cl', 'cv', 'ex', 'bd', 'trace', 'dict', 'sup')]
    return any(q < muts[0] for q in qs) and any(q > muts[0] for q in qs)


def shrink_history(case, ops_key='ops'):
    """Candidates with one operation dropped (indices of later ops are NOT re-mapped: a candidate
    whose operation becomes out of range is discarded)."""
    out = []
    ops = case[ops_key]
    for i in range(len(ops)):
        cand = ops[:i] + ops[i + 1:]
        c = dict(case)
        c[ops_key] = cand
        out.append(c)
    return out


def history_valid(init, ops, k_all):
    cur = list(init)
    for o in ops:
        n = len(cur)
        k = o[0]
        if k == 'leq' and not (o[1] < n and o[2] < n):
            return False
        if k in ('cl', 'cv') and not o[2] < n:
            return False
        if k in ('bd', 'sup') and not all(i < n for i in o[2]):
            return False
        if k == 'del':
            if not o[1] < n:
                return False
            cur = cur[:o[1]] + cur[o[1] + 1:]
        if k == 'add' and o[1] not in cur:
            cur = cur + [o[1]]
        if k == 'rm' and o[1] in cur:
            cur.remove(o[1])
    return True

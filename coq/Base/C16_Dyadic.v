(* Base/C16_Dyadic.v — exact dyadic numbers for the stability measures (C16): powers of two as
   [positive] denominators, finite sums and maxima of rationals, counting.  Definitions only;
   the lemmas are in Lemmas/C16_Dyadic.v. *)
From FCA Require Export Base.ListSet.
From Coq Require Import ZArith QArith.
Local Open Scope nat_scope.

(* 2^k as a positive number: the denominator of Python's  2 ** (-k)  and of  x / 2 ** len(extent) *)
Fixpoint pow2p (k : nat) : positive :=
  match k with 0 => 1%positive | S k' => xO (pow2p k') end.

(* 2 ** (-k) *)
Definition inv_pow2 (k : nat) : Q := Qmake 1 (pow2p k).

(* sum(l) *)
Fixpoint qsum (l : list Q) : Q :=
  match l with [] => 0%Q | x :: l' => Qplus x (qsum l') end.

(* max(l): the first maximal element; 0 on the empty list (never reached) *)
Definition qmax (a b : Q) : Q := if Qle_bool a b then b else a.
Definition qmax_list (l : list Q) : Q :=
  match l with [] => 0%Q | x :: l' => fold_left qmax l' x end.

(* min(l) over natural numbers, None on the empty list *)
Definition nmin_list (l : list nat) : option nat :=
  match l with [] => None | x :: l' => Some (fold_left Nat.min l' x) end.

Definition count_if {A} (p : A -> bool) (l : list A) : nat := length (filter p l).

Definition qeqb (a b : Q) : bool := Qeq_bool a b.
Definition qleb (a b : Q) : bool := Qle_bool a b.

(* Base/C07_Str.v — Python strings as lists of code points (binary [N], so that any unicode
   character is a small literal), with the str methods the cxt / csv converters use:
   split on one character, split on "\n\n", join, strip, decimal rendering / int().
   Lemmas: split/join inverses under "the separator does not occur". *)
From Coq Require Import Decimal DecimalNat.
From Coq Require Export List NArith Bool Lia PeanoNat.
Export ListNotations.

Definition str := list N.
Definition NL : N := 10%N.

Definition str_eqb (a b : str) : bool :=
  (fix go (a b : str) : bool :=
     match a, b with
     | [], [] => true
     | x :: a', y :: b' => N.eqb x y && go a' b'
     | _, _ => false
     end) a b.

Lemma str_eqb_eq a b : str_eqb a b = true <-> a = b.
Proof.
  revert b. induction a as [|x a IH]; intros [|y b]; simpl; split; intros H;
    try reflexivity; try discriminate.
  - apply andb_true_iff in H. destruct H as [H1 H2]. apply N.eqb_eq in H1. apply IH in H2.
    subst. reflexivity.
  - inversion H; subst. apply andb_true_iff. split; [apply N.eqb_refl | apply IH; reflexivity].
Qed.

(* ---------------------------------------------------------------- s.split(c), one character *)

Fixpoint split_go (c : N) (s : str) (cur : str) : list str :=    (* cur is reversed *)
  match s with
  | [] => [rev cur]
  | x :: s' => if N.eqb x c then rev cur :: split_go c s' [] else split_go c s' (x :: cur)
  end.
Definition split_char (c : N) (s : str) : list str := split_go c s [].

(* c.join(parts) *)
Fixpoint join_char (c : N) (parts : list str) : str :=
  match parts with
  | [] => []
  | [p] => p
  | p :: ps => p ++ c :: join_char c ps
  end.

Lemma split_go_no_sep c p cur rest :
  ~ In c p -> split_go c (p ++ rest) cur = split_go c rest (rev p ++ cur).
Proof.
  revert cur. induction p as [|x p IH]; intros cur Hn; simpl; [reflexivity|].
  destruct (N.eqb_spec x c) as [E|NE]; [exfalso; apply Hn; left; exact E|].
  rewrite IH by (intros H; apply Hn; right; exact H). rewrite <- app_assoc. reflexivity.
Qed.

Lemma split_go_part c p cur : ~ In c p -> split_go c p cur = [rev cur ++ p].
Proof.
  intros Hn. rewrite <- (app_nil_r p) at 1. rewrite split_go_no_sep by exact Hn.
  simpl. rewrite rev_app_distr, rev_involutive. reflexivity.
Qed.

Lemma split_go_join c parts cur :
  parts <> [] -> Forall (fun p => ~ In c p) parts ->
  split_go c (join_char c parts) cur
  = match parts with [] => [] | p :: ps => (rev cur ++ p) :: ps end.
Proof.
  revert cur. induction parts as [|p ps IH]; intros cur Hne Hf; [contradiction|].
  inversion Hf as [|? ? Hp Hps]; subst.
  destruct ps as [|q ps].
  - simpl. apply split_go_part. exact Hp.
  - change (join_char c (p :: q :: ps)) with (p ++ c :: join_char c (q :: ps)).
    rewrite split_go_no_sep by exact Hp. simpl split_go at 1. rewrite N.eqb_refl.
    rewrite IH by (try discriminate; exact Hps). simpl.
    rewrite rev_app_distr, rev_involutive. reflexivity.
Qed.

Theorem split_join_char c parts :
  parts <> [] -> Forall (fun p => ~ In c p) parts -> split_char c (join_char c parts) = parts.
Proof.
  intros Hne Hf. unfold split_char. rewrite split_go_join by assumption.
  destruct parts; [contradiction | reflexivity].
Qed.

(* the same with text after the joined block: "a,b,c" ++ "\n..." is not needed; instead the
   converters append one separator and split again, or strip first.  Useful variant: *)
Lemma split_char_app_sep c p rest :
  ~ In c p -> split_char c (p ++ c :: rest) = p :: split_char c rest.
Proof.
  intros Hn. unfold split_char. rewrite split_go_no_sep by exact Hn. simpl.
  rewrite N.eqb_refl, app_nil_r, rev_involutive. reflexivity.
Qed.

(* ---------------------------------------------------------------- s.split('\n\n')
   left-to-right, non-overlapping, exactly as str.split with a two-character separator *)

Fixpoint split_nn_go (s : str) (cur : str) : list str :=
  match s with
  | [] => [rev cur]
  | x :: s' =>
      match s' with
      | y :: s'' => if N.eqb x NL && N.eqb y NL then rev cur :: split_nn_go s'' []
                    else split_nn_go s' (x :: cur)
      | [] => [rev (x :: cur)]
      end
  end.
Definition split_nn (s : str) : list str := split_nn_go s [].

(* no two adjacent newlines *)
Fixpoint no_nn (s : str) : Prop :=
  match s with
  | [] => True
  | x :: s' => match s' with
               | y :: _ => ~ (x = NL /\ y = NL) /\ no_nn s'
               | [] => True
               end
  end.

Definition not_ends_nl (s : str) : Prop := last s 0%N <> NL.

Lemma split_nn_go_last s cur : no_nn s -> split_nn_go s cur = [rev cur ++ s].
Proof.
  revert cur. induction s as [|x s IH]; intros cur Hn.
  - simpl. rewrite app_nil_r. reflexivity.
  - destruct s as [|y s].
    + simpl. reflexivity.
    + simpl in Hn. destruct Hn as [Hxy Hn].
      change (split_nn_go (x :: y :: s) cur)
        with (if N.eqb x NL && N.eqb y NL then rev cur :: split_nn_go s []
              else split_nn_go (y :: s) (x :: cur)).
      assert (X : N.eqb x NL && N.eqb y NL = false).
      { destruct (N.eqb_spec x NL); destruct (N.eqb_spec y NL); simpl; try reflexivity.
        exfalso. apply Hxy. split; assumption. }
      rewrite X. rewrite IH by exact Hn. simpl. rewrite <- app_assoc. reflexivity.
Qed.

(* a part that has no "\n\n" and does not end in "\n", followed by "\n\n", is split off whole *)
Lemma split_nn_go_part a rest cur :
  no_nn a -> not_ends_nl a -> a <> [] ->
  split_nn_go (a ++ NL :: NL :: rest) cur = (rev cur ++ a) :: split_nn_go rest [].
Proof.
  revert cur. induction a as [|x a IH]; intros cur Hn He Hne; [contradiction|].
  destruct a as [|y a].
  - (* a = [x], x <> NL *)
    unfold not_ends_nl in He. simpl in He.
    change (split_nn_go ([x] ++ NL :: NL :: rest) cur)
      with (if N.eqb x NL && N.eqb NL NL then rev cur :: split_nn_go (NL :: rest) []
            else split_nn_go (NL :: NL :: rest) (x :: cur)).
    destruct (N.eqb_spec x NL) as [Ex|Nx]; [contradiction|]. simpl andb. cbv iota.
    change (split_nn_go (NL :: NL :: rest) (x :: cur))
      with (if N.eqb NL NL && N.eqb NL NL then rev (x :: cur) :: split_nn_go rest []
            else split_nn_go (NL :: rest) (NL :: x :: cur)).
    rewrite N.eqb_refl. simpl. reflexivity.
  - simpl in Hn. destruct Hn as [Hxy Hn].
    change (split_nn_go ((x :: y :: a) ++ NL :: NL :: rest) cur)
      with (if N.eqb x NL && N.eqb y NL then rev cur :: split_nn_go (a ++ NL :: NL :: rest) []
            else split_nn_go ((y :: a) ++ NL :: NL :: rest) (x :: cur)).
    assert (X : N.eqb x NL && N.eqb y NL = false).
    { destruct (N.eqb_spec x NL); destruct (N.eqb_spec y NL); simpl; try reflexivity.
      exfalso. apply Hxy. split; assumption. }
    rewrite X. rewrite IH; [| exact Hn | | discriminate].
    + simpl. rewrite <- app_assoc. reflexivity.
    + unfold not_ends_nl in *. simpl in He. simpl. exact He.
Qed.

(* ---------------------------------------------------------------- s.strip() *)

(* the characters for which str.isspace() holds (CPython 3, whole BMP and beyond) *)
Definition is_space (c : N) : bool :=
  existsb (N.eqb c)
    [9; 10; 11; 12; 13; 28; 29; 30; 31; 32; 133; 160; 5760; 8192; 8193; 8194; 8195; 8196; 8197;
     8198; 8199; 8200; 8201; 8202; 8232; 8233; 8239; 8287; 12288]%N.

Fixpoint lstrip (s : str) : str :=
  match s with
  | [] => []
  | x :: s' => if is_space x then lstrip s' else s
  end.
Definition rstrip (s : str) : str := rev (lstrip (rev s)).
Definition strip (s : str) : str := rstrip (lstrip s).

Lemma lstrip_nonspace x s : is_space x = false -> lstrip (x :: s) = x :: s.
Proof. intros H. simpl. rewrite H. reflexivity. Qed.

Lemma rstrip_app_nonspace s x : is_space x = false -> rstrip (s ++ [x]) = s ++ [x].
Proof.
  intros H. unfold rstrip. rewrite rev_app_distr. simpl. rewrite H. simpl.
  rewrite rev_involutive. reflexivity.
Qed.

Lemma rstrip_app_space s x : is_space x = true -> rstrip (s ++ [x]) = rstrip s.
Proof. intros H. unfold rstrip. rewrite rev_app_distr. simpl. rewrite H. reflexivity. Qed.

(* s.strip(c) for a one-character argument (read_csv strips '\n' only) *)
Fixpoint lstrip_c (c : N) (s : str) : str :=
  match s with
  | [] => []
  | x :: s' => if N.eqb x c then lstrip_c c s' else s
  end.
Definition rstrip_c (c : N) (s : str) : str := rev (lstrip_c c (rev s)).
Definition strip_c (c : N) (s : str) : str := rstrip_c c (lstrip_c c s).

Lemma lstrip_c_other c x s : x <> c -> lstrip_c c (x :: s) = x :: s.
Proof. intros H. simpl. destruct (N.eqb_spec x c); [contradiction | reflexivity]. Qed.

Lemma rstrip_c_app_other c s x : x <> c -> rstrip_c c (s ++ [x]) = s ++ [x].
Proof.
  intros H. unfold rstrip_c. rewrite rev_app_distr. simpl.
  destruct (N.eqb_spec x c); [contradiction|]. simpl. rewrite rev_involutive. reflexivity.
Qed.

Lemma rstrip_c_app_same c s : rstrip_c c (s ++ [c]) = rstrip_c c s.
Proof. unfold rstrip_c. rewrite rev_app_distr. simpl. rewrite N.eqb_refl. reflexivity. Qed.

(* ---------------------------------------------------------------- str(n) and int(s) *)

Fixpoint uint_str (u : uint) : str :=
  match u with
  | Nil => []
  | D0 u' => 48%N :: uint_str u' | D1 u' => 49%N :: uint_str u' | D2 u' => 50%N :: uint_str u'
  | D3 u' => 51%N :: uint_str u' | D4 u' => 52%N :: uint_str u' | D5 u' => 53%N :: uint_str u'
  | D6 u' => 54%N :: uint_str u' | D7 u' => 55%N :: uint_str u' | D8 u' => 56%N :: uint_str u'
  | D9 u' => 57%N :: uint_str u'
  end.
Definition nat_str (n : nat) : str := uint_str (Nat.to_uint n).

(* int(s) for a non-empty string of ASCII digits; anything else is rejected (CPython's int()
   accepts more — surrounding white space, underscores, a sign — which no written file contains) *)
Fixpoint str_uint (s : str) : option uint :=
  match s with
  | [] => Some Nil
  | c :: s' =>
      match str_uint s' with
      | None => None
      | Some u =>
          if N.eqb c 48 then Some (D0 u) else if N.eqb c 49 then Some (D1 u)
          else if N.eqb c 50 then Some (D2 u) else if N.eqb c 51 then Some (D3 u)
          else if N.eqb c 52 then Some (D4 u) else if N.eqb c 53 then Some (D5 u)
          else if N.eqb c 54 then Some (D6 u) else if N.eqb c 55 then Some (D7 u)
          else if N.eqb c 56 then Some (D8 u) else if N.eqb c 57 then Some (D9 u)
          else None
      end
  end.
Definition parse_nat (s : str) : option nat :=
  match s with
  | [] => None
  | _ => match str_uint s with Some u => Some (Nat.of_uint u) | None => None end
  end.

Lemma str_uint_str u : str_uint (uint_str u) = Some u.
Proof. induction u; simpl; try rewrite IHu; reflexivity. Qed.

Lemma uint_str_nonempty n : nat_str n <> [].
Proof.
  unfold nat_str. intros E.
  assert (X : Nat.to_uint n = Nil) by (destruct (Nat.to_uint n); simpl in E; try discriminate; reflexivity).
  pose proof (Unsigned.to_of (Nat.to_uint n)) as Y. rewrite Unsigned.of_to in Y.
  rewrite X in Y. simpl in Y. discriminate Y.
Qed.

Theorem parse_nat_str n : parse_nat (nat_str n) = Some n.
Proof.
  unfold parse_nat. pose proof (uint_str_nonempty n) as Hne.
  destruct (nat_str n) eqn:E; [contradiction|]. rewrite <- E. unfold nat_str.
  rewrite str_uint_str. rewrite Unsigned.of_to. reflexivity.
Qed.

Lemma uint_str_digits u c : In c (uint_str u) -> (48 <= c <= 57)%N.
Proof. induction u; simpl; intros H; try contradiction; destruct H as [H|H]; try (subst; lia); auto. Qed.

Lemma nat_str_no_nl n : ~ In NL (nat_str n).
Proof. intros H. apply uint_str_digits in H. unfold NL in H. lia. Qed.

Lemma last_in {A} (l : list A) d : l <> [] -> In (last l d) l.
Proof.
  induction l as [|x l IH]; intros H; [contradiction|].
  destruct l as [|y l]; [left; reflexivity|]. right. apply IH. discriminate.
Qed.

(* Base/ListSet.v — list-as-set helpers shared by every model and spec.
   Stdlib only; no axioms. *)
From Coq Require Export List Arith Bool Lia PeanoNat.
Export ListNotations.

Definition mem (x : nat) (l : list nat) : bool := existsb (Nat.eqb x) l.
Definition subsetb (a b : list nat) : bool := forallb (fun x => mem x b) a.
Definition inter (a b : list nat) : list nat := filter (fun x => mem x b) a.
Definition diff (a b : list nat) : list nat := filter (fun x => negb (mem x b)) a.
Definition same_set (a b : list nat) : Prop := forall x, In x a <-> In x b.
Definition same_setb (a b : list nat) : bool := subsetb a b && subsetb b a.
Definition default {A} (d : A) (o : option A) : A := match o with Some x => x | None => d end.

Fixpoint list_eqb {A} (eqb : A -> A -> bool) (a b : list A) : bool :=
  match a, b with
  | [], [] => true
  | x :: a', y :: b' => eqb x y && list_eqb eqb a' b'
  | _, _ => false
  end.

Definition nat_list_eqb := list_eqb Nat.eqb.
Definition bool_list_eqb := list_eqb Bool.eqb.

(* select: numpy's arr[flags] / [i for i, f in zip(idx, flags) if f] *)
Fixpoint select {A} (idx : list A) (flags : list bool) : list A :=
  match idx, flags with
  | i :: idx', f :: flags' => if f then i :: select idx' flags' else select idx' flags'
  | _, _ => []
  end.

(* indices of true flags: bitarray.search(1) *)
Fixpoint search1_from (k : nat) (flags : list bool) : list nat :=
  match flags with
  | [] => []
  | f :: fs => if f then k :: search1_from (S k) fs else search1_from (S k) fs
  end.
Definition search1 := search1_from 0.

Fixpoint map2 {A B C} (f : A -> B -> C) (a : list A) (b : list B) : list C :=
  match a, b with
  | x :: a', y :: b' => f x y :: map2 f a' b'
  | _, _ => []
  end.

Lemma mem_In x l : mem x l = true <-> In x l.
Proof.
  unfold mem. rewrite existsb_exists. split.
  - intros [y [Hy He]]. apply Nat.eqb_eq in He. subst. exact Hy.
  - intros H. exists x. split; [exact H | apply Nat.eqb_refl].
Qed.

Lemma mem_false_iff x l : mem x l = false <-> ~ In x l.
Proof.
  rewrite <- mem_In. destruct (mem x l); split; intros H; try congruence; try tauto.
Qed.

Lemma subsetb_incl a b : subsetb a b = true <-> incl a b.
Proof.
  unfold subsetb, incl. rewrite forallb_forall. split; intros H x Hx.
  - apply mem_In. apply H. exact Hx.
  - apply mem_In. apply H. exact Hx.
Qed.

Lemma same_setb_spec a b : same_setb a b = true <-> same_set a b.
Proof.
  unfold same_setb, same_set. rewrite andb_true_iff, !subsetb_incl. unfold incl.
  split.
  - intros [H1 H2] x. split; auto.
  - intros H. split; intros x Hx; apply H; exact Hx.
Qed.

Lemma inter_In x a b : In x (inter a b) <-> In x a /\ In x b.
Proof. unfold inter. rewrite filter_In, mem_In. tauto. Qed.

Lemma diff_In x a b : In x (diff a b) <-> In x a /\ ~ In x b.
Proof.
  unfold diff. rewrite filter_In, negb_true_iff, mem_false_iff. tauto.
Qed.

Lemma list_eqb_eq {A} (eqb : A -> A -> bool)
      (Heqb : forall x y, eqb x y = true <-> x = y) a b :
  list_eqb eqb a b = true <-> a = b.
Proof.
  revert b. induction a as [|x a IH]; intros [|y b]; simpl; split; intros H;
    try reflexivity; try discriminate.
  - apply andb_true_iff in H. destruct H as [H1 H2].
    apply Heqb in H1. apply IH in H2. subst. reflexivity.
  - inversion H; subst. apply andb_true_iff. split; [apply Heqb; reflexivity | apply IH; reflexivity].
Qed.

Lemma nat_list_eqb_eq a b : nat_list_eqb a b = true <-> a = b.
Proof. apply list_eqb_eq. intros. apply Nat.eqb_eq. Qed.

Lemma bool_list_eqb_eq a b : bool_list_eqb a b = true <-> a = b.
Proof. apply list_eqb_eq. intros x y. destruct x, y; simpl; split; congruence. Qed.

Lemma select_map_filter {A} (f : A -> bool) (l : list A) :
  select l (map f l) = filter f l.
Proof. induction l as [|x l IH]; simpl; [reflexivity|]. destruct (f x); rewrite IH; reflexivity. Qed.

Lemma search1_from_select k flags :
  search1_from k flags = select (seq k (length flags)) flags.
Proof.
  revert k. induction flags as [|f fs IH]; intros k; simpl; [reflexivity|].
  rewrite IH. reflexivity.
Qed.

Lemma search1_select flags : search1 flags = select (seq 0 (length flags)) flags.
Proof. apply search1_from_select. Qed.

(* rows[i] for i in search(flags)  ==  select rows flags, when lengths match *)
Lemma map_nth_search1_from (rows : list nat) (flags : list bool) k d pre :
  length pre = k -> length rows = length flags ->
  map (fun i => nth i (pre ++ rows) d) (search1_from k flags) = select rows flags.
Proof.
  revert flags k pre. induction rows as [|r rows IH]; intros [|f fs] k pre Hk Hl; simpl in *;
    try reflexivity; try discriminate.
  injection Hl as Hl.
  assert (E : map (fun i => nth i (pre ++ r :: rows) d) (search1_from (S k) fs) = select rows fs).
  { replace (pre ++ r :: rows) with ((pre ++ [r]) ++ rows) by (rewrite <- app_assoc; reflexivity).
    apply IH; [rewrite app_length; simpl; lia | exact Hl]. }
  destruct f; simpl; rewrite E; [|reflexivity].
  rewrite app_nth2 by lia. rewrite Hk, Nat.sub_diag. reflexivity.
Qed.

Lemma map_nth_search1 (rows : list nat) (flags : list bool) d :
  length rows = length flags ->
  map (fun i => nth i rows d) (search1 flags) = select rows flags.
Proof. intros H. apply (map_nth_search1_from rows flags 0 d []); [reflexivity | exact H]. Qed.

Lemma map2_length {A B C} (f : A -> B -> C) a b :
  length (map2 f a b) = Nat.min (length a) (length b).
Proof. revert b. induction a as [|x a IH]; intros [|y b]; simpl; auto. Qed.

Lemma nth_map2 {A B C} (f : A -> B -> C) a b k da db dc :
  k < length a -> k < length b ->
  nth k (map2 f a b) dc = f (nth k a da) (nth k b db).
Proof.
  revert b k. induction a as [|x a IH]; intros [|y b] k Ha Hb; simpl in *; try lia.
  destruct k; [reflexivity|]. apply IH; lia.
Qed.

Lemma forallb_nth {A} (p : A -> bool) l d :
  forallb p l = true <-> forall k, k < length l -> p (nth k l d) = true.
Proof.
  rewrite forallb_forall. split.
  - intros H k Hk. apply H. apply nth_In. exact Hk.
  - intros H x Hx. destruct (In_nth l x d Hx) as [k [Hk E]]. rewrite <- E. apply H. exact Hk.
Qed.

Lemma forallb_ext_in {A} (p q : A -> bool) l :
  (forall x, In x l -> p x = q x) -> forallb p l = forallb q l.
Proof.
  induction l as [|x l IH]; simpl; intros H; [reflexivity|].
  rewrite H by (left; reflexivity). rewrite IH; [reflexivity|]. intros y Hy. apply H. right. exact Hy.
Qed.

Lemma existsb_ext_in {A} (p q : A -> bool) l :
  (forall x, In x l -> p x = q x) -> existsb p l = existsb q l.
Proof.
  induction l as [|x l IH]; simpl; intros H; [reflexivity|].
  rewrite H by (left; reflexivity). rewrite IH; [reflexivity|]. intros y Hy. apply H. right. exact Hy.
Qed.

Lemma filter_ext_in' {A} (p q : A -> bool) l :
  (forall x, In x l -> p x = q x) -> filter p l = filter q l.
Proof.
  induction l as [|x l IH]; simpl; intros H; [reflexivity|].
  rewrite H by (left; reflexivity). rewrite IH; [reflexivity|]. intros y Hy. apply H. right. exact Hy.
Qed.

Lemma bool_eq_iff (a b : bool) : (a = true <-> b = true) -> a = b.
Proof. destruct a, b; intros [H1 H2]; try reflexivity; [symmetry; apply H1 | apply H2]; reflexivity. Qed.

Lemma forallb_map {A B} (f : A -> B) (p : B -> bool) l :
  forallb p (map f l) = forallb (fun x => p (f x)) l.
Proof. induction l as [|x l IH]; simpl; [reflexivity|]. rewrite IH. reflexivity. Qed.

Lemma existsb_map {A B} (f : A -> B) (p : B -> bool) l :
  existsb p (map f l) = existsb (fun x => p (f x)) l.
Proof. induction l as [|x l IH]; simpl; [reflexivity|]. rewrite IH. reflexivity. Qed.

(* Base/Order.v — generic finite order theory over a decidable partial order
   [leq : E -> E -> bool] on a list of elements [els : list E].
   Self-contained, standard library only, no axioms.

   Contents
     slt, strict_down / strict_up, lower_covers / upper_covers, minimal / maximal,
     lower_bounds / upper_bounds, greatest_of / least_of,
     sub_loop (the "subtract the down-set of every remaining candidate" loop used by
     POSet._children_nocache / _parents_nocache), extremes_loop (the loop of POSet.meet / join)
   Lemmas
     order_induction        well-founded induction along the strict order of a finite list
     below_some_cover       every strict predecessor lies below-or-equal some lower cover
     strict_down_via_covers the down-set is the covers plus the down-sets of the covers
     sub_loop_covers        the subtraction loop returns exactly the lower covers, whatever
                            the order in which the candidates are visited
     extremes_loop_greatest the meet loop returns [k] when the bound set has a greatest element k
     *_perm, *_map          invariance under permutation of the list / re-indexing by an
                            injective order embedding
   The "up" versions are the "down" versions of the flipped order, so every lemma is proved
   once; the [_up] corollaries are stated at the end of the file.
   All order hypotheses are restricted to members of [els] ([partial_order_on]). *)
From Coq Require Import List Arith Bool Lia PeanoNat Permutation.
Import ListNotations.

Section Order.
  Variable E : Type.
  Variable eqb : E -> E -> bool.
  Variable leq : E -> E -> bool.

  Definition eqb_ok : Prop := forall a b, eqb a b = true <-> a = b.

  Definition partial_order_on (els : list E) : Prop :=
    (forall a, In a els -> leq a a = true) /\
    (forall a b, In a els -> In b els -> leq a b = true -> leq b a = true -> a = b) /\
    (forall a b c, In a els -> In b els -> In c els ->
                   leq a b = true -> leq b c = true -> leq a c = true).

  Definition memE (x : E) (l : list E) : bool := existsb (eqb x) l.
  Definition diffE (a b : list E) : list E := filter (fun x => negb (memE x b)) a.
  Definition interE (a b : list E) : list E := filter (fun x => memE x b) a.

  (* y strictly below x *)
  Definition slt (y x : E) : bool := leq y x && negb (eqb y x).

  Definition strict_down (els : list E) (x : E) : list E := filter (fun y => slt y x) els.
  Definition has_between (els : list E) (y x : E) : bool := existsb (fun z => slt y z && slt z x) els.
  Definition is_lower_cover (els : list E) (y x : E) : bool := slt y x && negb (has_between els y x).
  Definition lower_covers (els : list E) (x : E) : list E :=
    filter (fun y => is_lower_cover els y x) els.
  (* elements with nothing strictly below *)
  Definition minimal (els : list E) : list E :=
    filter (fun x => negb (existsb (fun y => slt y x) els)) els.

  (* x itself together with everything strictly below, in the order of [els] *)
  Definition down_closed (els : list E) (x : E) : list E :=
    filter (fun y => eqb y x || slt y x) els.
  Definition lower_bounds (els : list E) (S : list E) : list E :=
    filter (fun y => forallb (fun s => eqb y s || slt y s) S) els.
  (* members of U with no member of U strictly above *)
  Definition greatest_candidates (U : list E) : list E :=
    filter (fun u => negb (existsb (fun v => slt u v) U)) U.

  (* for c in order: if c in cur: cur -= down c *)
  Fixpoint sub_loop (down : E -> list E) (order cur : list E) : list E :=
    match order with
    | [] => cur
    | c :: rest => if memE c cur then sub_loop down rest (diffE cur (down c))
                   else sub_loop down rest cur
    end.
  (* for c in order: cur -= down c   (no membership test: the loop of meet / join) *)
  Fixpoint extremes_loop (down : E -> list E) (order cur : list E) : list E :=
    match order with
    | [] => cur
    | c :: rest => extremes_loop down rest (diffE cur (down c))
    end.

  Definition covers_by_subtraction (els : list E) (x : E) (order : list E) : list E :=
    sub_loop (strict_down els) order (strict_down els x).

  (* ------------------------------------------------------------------ basic facts *)
  Hypothesis eqb_spec : eqb_ok.

  Lemma eqb_iff a b : eqb a b = true <-> a = b.
  Proof. apply eqb_spec. Qed.

  Lemma eqb_refl a : eqb a a = true.
  Proof. apply eqb_spec. reflexivity. Qed.

  Lemma eqb_false_iff a b : eqb a b = false <-> a <> b.
  Proof.
    split.
    - intros H E0. apply eqb_spec in E0. congruence.
    - intros H. destruct (eqb a b) eqn:E0; [|reflexivity]. apply eqb_spec in E0. contradiction.
  Qed.

  Lemma memE_In x l : memE x l = true <-> In x l.
  Proof.
    unfold memE. rewrite existsb_exists. split.
    - intros [y [Hy He]]. apply eqb_spec in He. subst. exact Hy.
    - intros H. exists x. split; [exact H | apply eqb_refl].
  Qed.

  Lemma memE_false x l : memE x l = false <-> ~ In x l.
  Proof. rewrite <- memE_In. destruct (memE x l); split; intros; try congruence; tauto. Qed.

  Lemma In_diffE x a b : In x (diffE a b) <-> In x a /\ ~ In x b.
  Proof. unfold diffE. rewrite filter_In, negb_true_iff, memE_false. tauto. Qed.

  Lemma In_interE x a b : In x (interE a b) <-> In x a /\ In x b.
  Proof. unfold interE. rewrite filter_In, memE_In. tauto. Qed.

  Lemma slt_spec y x : slt y x = true <-> leq y x = true /\ y <> x.
  Proof. unfold slt. rewrite andb_true_iff, negb_true_iff, eqb_false_iff. tauto. Qed.

  Lemma slt_irrefl x : slt x x = false.
  Proof. unfold slt. rewrite eqb_refl. apply andb_false_r. Qed.

  Lemma In_strict_down els x y : In y (strict_down els x) <-> In y els /\ slt y x = true.
  Proof. unfold strict_down. rewrite filter_In. tauto. Qed.

  Lemma has_between_spec els y x :
    has_between els y x = true <-> exists z, In z els /\ slt y z = true /\ slt z x = true.
  Proof.
    unfold has_between. rewrite existsb_exists. split; intros [z [Hz H]]; exists z; split; auto.
    - apply andb_true_iff in H. exact H.
    - apply andb_true_iff. exact H.
  Qed.

  Lemma In_lower_covers els x y :
    In y (lower_covers els x) <->
    In y els /\ slt y x = true /\ ~ exists z, In z els /\ slt y z = true /\ slt z x = true.
  Proof.
    unfold lower_covers, is_lower_cover. rewrite filter_In, andb_true_iff, negb_true_iff.
    rewrite <- has_between_spec. destruct (has_between els y x); split; intros H.
    - destruct H as [_ [_ H]]. discriminate.
    - destruct H as [_ [_ H]]. exfalso. apply H. reflexivity.
    - destruct H as [H1 [H2 _]]. repeat split; auto; intros H; discriminate.
    - tauto.
  Qed.

  Lemma lower_covers_sub els x : incl (lower_covers els x) (strict_down els x).
  Proof. intros y H. apply In_lower_covers in H. apply In_strict_down. tauto. Qed.

  Lemma In_minimal els x :
    In x (minimal els) <-> In x els /\ forall y, In y els -> slt y x = false.
  Proof.
    unfold minimal. rewrite filter_In, negb_true_iff. split; intros [H1 H2]; split; auto.
    - intros y Hy. destruct (slt y x) eqn:L; [|reflexivity].
      assert (X : existsb (fun y => slt y x) els = true) by (apply existsb_exists; eauto). congruence.
    - destruct (existsb (fun y => slt y x) els) eqn:X; [|reflexivity].
      apply existsb_exists in X. destruct X as [y [Hy L]]. rewrite H2 in L by exact Hy. discriminate.
  Qed.

  Lemma In_down_closed els x y :
    In y (down_closed els x) <-> In y els /\ (y = x \/ slt y x = true).
  Proof. unfold down_closed. rewrite filter_In, orb_true_iff, eqb_iff. tauto. Qed.

  Lemma In_lower_bounds els S y :
    In y (lower_bounds els S) <-> In y els /\ forall s, In s S -> y = s \/ slt y s = true.
  Proof.
    unfold lower_bounds. rewrite filter_In, forallb_forall. split; intros [H1 H2]; split; auto.
    - intros s Hs. specialize (H2 s Hs). rewrite orb_true_iff, eqb_iff in H2. exact H2.
    - intros s Hs. rewrite orb_true_iff, eqb_iff. apply H2. exact Hs.
  Qed.

  Lemma In_greatest_candidates U u :
    In u (greatest_candidates U) <-> In u U /\ forall v, In v U -> slt u v = false.
  Proof.
    unfold greatest_candidates. rewrite filter_In, negb_true_iff. split; intros [H1 H2]; split; auto.
    - intros v Hv. destruct (slt u v) eqn:L; [|reflexivity].
      assert (X : existsb (fun v => slt u v) U = true) by (apply existsb_exists; eauto). congruence.
    - destruct (existsb (fun v => slt u v) U) eqn:X; [|reflexivity].
      apply existsb_exists in X. destruct X as [v [Hv L]]. rewrite H2 in L by exact Hv. discriminate.
  Qed.

  (* ------------------------------------------------------------------ list helpers *)
  Lemma filter_length_le {A} (p : A -> bool) l : length (filter p l) <= length l.
  Proof. induction l as [|a l IH]; simpl; [lia|]. destruct (p a); simpl; lia. Qed.

  Lemma filter_length_lt {A} (p q : A -> bool) l w :
    (forall a, In a l -> p a = true -> q a = true) ->
    In w l -> q w = true -> p w = false ->
    length (filter p l) < length (filter q l).
  Proof.
    induction l as [|a l IH]; intros Himp Hw Hq Hp; [destruct Hw|].
    simpl. destruct Hw as [->|Hw].
    - rewrite Hq, Hp. simpl.
      assert (length (filter p l) <= length (filter q l)); [|lia].
      clear IH. induction l as [|b l IH]; simpl; [lia|].
      assert (Hb := Himp b (or_intror (or_introl eq_refl))).
      destruct (p b) eqn:Pb.
      + rewrite Hb by reflexivity. simpl. apply le_n_S. apply IH.
        intros a Ha. apply Himp. destruct Ha as [->|Ha]; [left; reflexivity | right; right; exact Ha].
      + assert (length (filter p l) <= length (filter q l)).
        { apply IH. intros a Ha. apply Himp. destruct Ha as [->|Ha]; [left; reflexivity | right; right; exact Ha]. }
        destruct (q b); simpl; lia.
    - assert (L : length (filter p l) < length (filter q l)).
      { apply IH; auto. intros b Hb. apply Himp. right. exact Hb. }
      assert (Ha := Himp a (or_introl eq_refl)).
      destruct (p a) eqn:Pa.
      + rewrite Ha by reflexivity. simpl. lia.
      + destruct (q a); simpl; lia.
  Qed.

  (* two filters of one duplicate-free list with the same members are the same list *)
  Lemma filter_same_members_eq {A} (p q : A -> bool) l :
    (forall a, In a l -> (p a = true <-> q a = true)) -> filter p l = filter q l.
  Proof.
    induction l as [|a l IH]; intros H; simpl; [reflexivity|].
    assert (Ha : p a = q a).
    { specialize (H a (or_introl eq_refl)). destruct (p a), (q a); try reflexivity;
        [symmetry; apply H | apply H]; reflexivity. }
    rewrite Ha, IH; [reflexivity|]. intros b Hb. apply H. right. exact Hb.
  Qed.

  Lemma filter_of_filter {A} (p q : A -> bool) l :
    filter p (filter q l) = filter (fun x => q x && p x) l.
  Proof.
    induction l as [|a l IH]; simpl; [reflexivity|].
    destruct (q a); simpl; [destruct (p a)|]; rewrite IH; reflexivity.
  Qed.

  Lemma NoDup_filter' {A} (p : A -> bool) l : NoDup l -> NoDup (filter p l).
  Proof.
    induction 1 as [|a l Ha Hl IH]; simpl; [constructor|].
    destruct (p a); [|exact IH]. constructor; [|exact IH]. rewrite filter_In. tauto.
  Qed.

  Lemma NoDup_singleton_members {A} (l : list A) k :
    NoDup l -> (forall x, In x l <-> x = k) -> l = [k].
  Proof.
    intros Hn H. destruct l as [|a l].
    - exfalso. apply (proj2 (H k) eq_refl).
    - assert (a = k) by (apply H; left; reflexivity). subst a.
      destruct l as [|b l]; [reflexivity|]. exfalso.
      assert (b = k) by (apply H; right; left; reflexivity). subst b.
      inversion Hn; subst. apply H2. left. reflexivity.
  Qed.

  (* ------------------------------------------------------------------ order facts on a list *)
  Section OnList.
    Variable els : list E.
    Hypothesis PO : partial_order_on els.

    Lemma po_refl a : In a els -> leq a a = true.
    Proof. apply PO. Qed.
    Lemma po_antisym a b : In a els -> In b els -> leq a b = true -> leq b a = true -> a = b.
    Proof. apply PO. Qed.
    Lemma po_trans a b c : In a els -> In b els -> In c els ->
                           leq a b = true -> leq b c = true -> leq a c = true.
    Proof. apply PO. Qed.

    Lemma slt_leq y x : slt y x = true -> leq y x = true.
    Proof. intros H. apply slt_spec in H. tauto. Qed.

    Lemma slt_trans a b c : In a els -> In b els -> In c els ->
                           slt a b = true -> slt b c = true -> slt a c = true.
    Proof.
      intros Ha Hb Hc H1 H2. apply slt_spec in H1. apply slt_spec in H2. apply slt_spec.
      destruct H1 as [L1 N1], H2 as [L2 N2]. split; [apply (po_trans a b c); auto|].
      intros ->. apply N1. apply po_antisym; auto.
    Qed.

    Lemma leq_slt_trans a b c : In a els -> In b els -> In c els ->
                               leq a b = true -> slt b c = true -> slt a c = true.
    Proof.
      intros Ha Hb Hc L1 H2. apply slt_spec in H2. destruct H2 as [L2 N2]. apply slt_spec.
      split; [apply (po_trans a b c); auto|]. intros ->. apply N2. apply po_antisym; auto.
    Qed.

    Lemma slt_leq_trans a b c : In a els -> In b els -> In c els ->
                               slt a b = true -> leq b c = true -> slt a c = true.
    Proof.
      intros Ha Hb Hc H1 L2. apply slt_spec in H1. destruct H1 as [L1 N1]. apply slt_spec.
      split; [apply (po_trans a b c); auto|]. intros ->. apply N1. apply po_antisym; auto.
    Qed.

    Lemma slt_asym a b : In a els -> In b els -> slt a b = true -> slt b a = false.
    Proof.
      intros Ha Hb H. destruct (slt b a) eqn:L; [|reflexivity].
      assert (X := slt_trans a b a Ha Hb Ha H L). rewrite slt_irrefl in X. discriminate.
    Qed.

    Lemma leq_cases y x : In y els -> In x els -> leq y x = true -> y = x \/ slt y x = true.
    Proof.
      intros Hy Hx L. destruct (eqb y x) eqn:Eq.
      - left. apply eqb_spec. exact Eq.
      - right. unfold slt. rewrite L, Eq. reflexivity.
    Qed.

    (* well-founded induction along the strict order: the measure is the size of the down-set *)
    Lemma order_induction (P : E -> Prop) :
      (forall x, In x els -> (forall y, In y els -> slt y x = true -> P y) -> P x) ->
      forall x, In x els -> P x.
    Proof.
      intros Step.
      assert (H : forall n x, In x els -> length (strict_down els x) < n -> P x).
      { induction n as [|n IH]; intros x Hx Hl; [lia|].
        apply Step; [exact Hx|]. intros y Hy Lyx. apply IH; [exact Hy|].
        assert (length (strict_down els y) < length (strict_down els x)); [|lia].
        unfold strict_down. apply (filter_length_lt _ _ els y).
        - intros a Ha La. apply (slt_trans a y x); auto.
        - exact Hy.
        - exact Lyx.
        - apply slt_irrefl. }
      intros x Hx. apply (H (S (length (strict_down els x)))); [exact Hx | lia].
    Qed.

    (* the same, upwards *)
    Lemma order_induction_up (P : E -> Prop) :
      (forall x, In x els -> (forall y, In y els -> slt x y = true -> P y) -> P x) ->
      forall x, In x els -> P x.
    Proof.
      intros Step.
      assert (H : forall n x, In x els -> length (filter (fun z => slt x z) els) < n -> P x).
      { induction n as [|n IH]; intros x Hx Hl; [lia|].
        apply Step; [exact Hx|]. intros y Hy Lxy. apply IH; [exact Hy|].
        assert (length (filter (fun z => slt y z) els) < length (filter (fun z => slt x z) els)); [|lia].
        apply (filter_length_lt _ _ els y).
        - intros a Ha La. apply (slt_trans x y a); auto.
        - exact Hy.
        - exact Lxy.
        - apply slt_irrefl. }
      intros x Hx. apply (H (S (length (filter (fun z => slt x z) els)))); [exact Hx | lia].
    Qed.

    (* finite: every strict predecessor of x lies below-or-equal some lower cover of x *)
    Lemma below_some_cover x : In x els ->
      forall y, In y els -> slt y x = true ->
      exists c, In c (lower_covers els x) /\ leq y c = true.
    Proof.
      intros Hx y Hy. revert y Hy.
      apply (order_induction_up (fun y => slt y x = true ->
                                  exists c, In c (lower_covers els x) /\ leq y c = true)).
      intros y Hy IH Lyx.
      destruct (has_between els y x) eqn:B.
      - apply has_between_spec in B. destruct B as [z [Hz [Lyz Lzx]]].
        destruct (IH z Hz Lyz Lzx) as [c [Hc Lzc]]. exists c. split; [exact Hc|].
        assert (Hc' : In c els) by (apply In_lower_covers in Hc; tauto).
        apply (po_trans y z c); auto. apply slt_leq. exact Lyz.
      - exists y. split; [|apply po_refl; exact Hy].
        unfold lower_covers. apply filter_In. split; [exact Hy|].
        unfold is_lower_cover. rewrite Lyx, B. reflexivity.
    Qed.

    (* the down-set is the covers together with the down-sets of the covers *)
    Lemma strict_down_via_covers x : In x els ->
      forall y, In y (strict_down els x) <->
                In y (lower_covers els x) \/
                exists c, In c (lower_covers els x) /\ In y (strict_down els c).
    Proof.
      intros Hx y. split.
      - intros H. apply In_strict_down in H. destruct H as [Hy L].
        destruct (below_some_cover x Hx y Hy L) as [c [Hc Lyc]].
        assert (Hc' : In c els) by (apply In_lower_covers in Hc; tauto).
        destruct (leq_cases y c Hy Hc' Lyc) as [->|L2]; [left; exact Hc|].
        right. exists c. split; [exact Hc|]. apply In_strict_down. tauto.
      - intros [H|[c [Hc H]]].
        + apply lower_covers_sub. exact H.
        + apply In_lower_covers in Hc. destruct Hc as [Hc [Lcx _]].
          apply In_strict_down in H. destruct H as [Hy Lyc]. apply In_strict_down.
          split; [exact Hy|]. apply (slt_trans y c x); auto.
    Qed.

    (* ---------------------------------------------------------------- the subtraction loop *)
    (* the current set is always a filter of [els] *)
    Lemma sub_loop_is_filter down order : forall p,
      exists q, sub_loop down order (filter p els) = filter q els.
    Proof.
      induction order as [|c rest IH]; intros p; simpl; [exists p; reflexivity|].
      destruct (memE c (filter p els)); [|apply IH].
      unfold diffE. rewrite filter_of_filter. apply IH.
    Qed.

    Lemma sub_loop_incl down order : forall cur, incl (sub_loop down order cur) cur.
    Proof.
      induction order as [|c rest IH]; intros cur; simpl; [apply incl_refl|].
      destruct (memE c cur); [|apply IH].
      intros y Hy. apply IH in Hy. apply In_diffE in Hy. tauto.
    Qed.

    Lemma sub_loop_members x : In x els ->
      forall order cur,
        incl cur (strict_down els x) ->
        incl (lower_covers els x) cur ->
        (forall y, In y cur -> ~ In y (lower_covers els x) -> exists c, In c (lower_covers els x) /\ slt y c = true /\ (In c order)) ->
        forall y, In y (sub_loop (strict_down els) order cur) <-> In y (lower_covers els x).
    Proof.
      intros Hx. induction order as [|c rest IH]; intros cur Hsub Hcov Hpend y; simpl.
      - split; [|apply Hcov]. intros Hy.
        destruct (memE y (lower_covers els x)) eqn:M; [apply memE_In; exact M|].
        apply memE_false in M. destruct (Hpend y Hy M) as [c [_ [_ []]]].
      - destruct (memE c cur) eqn:Mc.
        + apply memE_In in Mc. apply IH.
          * intros z Hz. apply In_diffE in Hz. apply Hsub. tauto.
          * intros z Hz. apply In_diffE. split; [apply Hcov; exact Hz|].
            intros Hd. apply In_strict_down in Hd. destruct Hd as [_ Lzc].
            apply In_lower_covers in Hz. destruct Hz as [Hz [_ Hno]]. apply Hno.
            exists c. assert (Hc := Hsub c Mc). apply In_strict_down in Hc. tauto.
          * intros z Hz Hnc. apply In_diffE in Hz. destruct Hz as [Hz Hnd].
            destruct (Hpend z Hz Hnc) as [d [Hd [Lzd [->|Hin]]]]; [|exists d; tauto].
            exfalso. apply Hnd. apply In_strict_down. split; [|exact Lzd].
            apply Hsub in Hz. apply In_strict_down in Hz. tauto.
        + apply IH; auto.
          intros z Hz Hnc. destruct (Hpend z Hz Hnc) as [d [Hd [Lzd [->|Hin]]]]; [|exists d; tauto].
          exfalso. apply memE_false in Mc. apply Mc. apply Hcov. exact Hd.
    Qed.

    (* Whatever the order in which the candidates are visited (Python iterates a frozenset),
       provided every strict predecessor is visited, the loop returns exactly the lower covers;
       as lists, because both are filters of the duplicate-free-or-not list [els]. *)
    Theorem sub_loop_covers x order : In x els ->
      incl (strict_down els x) order ->
      covers_by_subtraction els x order = lower_covers els x.
    Proof.
      intros Hx Hord. unfold covers_by_subtraction.
      destruct (sub_loop_is_filter (strict_down els) order (fun y => slt y x)) as [q Hq].
      fold (strict_down els x) in Hq. rewrite Hq. unfold lower_covers.
      apply filter_same_members_eq. intros a Ha.
      assert (M : In a (filter q els) <-> In a (lower_covers els x)).
      { rewrite <- Hq. apply sub_loop_members; auto.
        - apply incl_refl.
        - apply lower_covers_sub.
        - intros y Hy Hnc. apply In_strict_down in Hy. destruct Hy as [Hy L].
          destruct (below_some_cover x Hx y Hy L) as [c [Hc Lyc]].
          assert (Hc' : In c els) by (apply In_lower_covers in Hc; tauto).
          destruct (leq_cases y c Hy Hc' Lyc) as [->|L2]; [contradiction|].
          exists c. repeat split; auto. apply Hord. apply lower_covers_sub. exact Hc. }
      unfold lower_covers in M. rewrite !filter_In in M. tauto.
    Qed.

    (* ---------------------------------------------------------------- the loop of meet / join *)
    Lemma extremes_loop_members down order : forall cur y,
      In y (extremes_loop down order cur) <->
      In y cur /\ forall c, In c order -> ~ In y (down c).
    Proof.
      induction order as [|c rest IH]; intros cur y; simpl.
      - split; [intros H; split; [exact H | intros c []] | tauto].
      - rewrite IH, In_diffE. split.
        + intros [[H1 H2] H3]. split; [exact H1|]. intros d [->|Hd]; auto.
        + intros [H1 H2]. repeat split; auto.
    Qed.

    Lemma extremes_loop_is_filter down order : forall p,
      exists q, extremes_loop down order (filter p els) = filter q els.
    Proof.
      induction order as [|c rest IH]; intros p; simpl; [exists p; reflexivity|].
      unfold diffE. rewrite filter_of_filter. apply IH.
    Qed.

    (* if the candidate set U (a filter of els) has a greatest element k, the loop leaves [k] *)
    Theorem extremes_loop_greatest p order k : NoDup els ->
      (forall c, In c order <-> In c (filter p els)) ->
      In k (filter p els) ->
      (forall u, In u (filter p els) -> leq u k = true) ->
      extremes_loop (strict_down els) order (filter p els) = [k].
    Proof.
      intros Hnd Hord Hk Hgr.
      destruct (extremes_loop_is_filter (strict_down els) order p) as [q Hq].
      assert (Hkels : In k els) by (apply filter_In in Hk; tauto).
      apply NoDup_singleton_members.
      - rewrite Hq. apply NoDup_filter'. exact Hnd.
      - intros y. rewrite extremes_loop_members. split.
        + intros [Hy Hno]. assert (Hyels : In y els) by (apply filter_In in Hy; tauto).
          destruct (leq_cases y k Hyels Hkels (Hgr y Hy)) as [->|L]; [reflexivity|].
          exfalso. apply (Hno k); [apply Hord; exact Hk|]. apply In_strict_down. tauto.
        + intros ->. split; [exact Hk|]. intros c Hc Hd. apply Hord in Hc.
          apply In_strict_down in Hd. destruct Hd as [_ L].
          assert (Hcels : In c els) by (apply filter_In in Hc; tauto).
          assert (X := slt_leq_trans k c k Hkels Hcels Hkels L (Hgr c Hc)).
          rewrite slt_irrefl in X. discriminate.
    Qed.

    (* a least element of the whole list is the only element with an empty down-set *)
    Lemma unique_least k : NoDup els -> In k els -> (forall u, In u els -> leq k u = true) ->
      filter (fun x => match strict_down els x with [] => true | _ => false end) els = [k].
    Proof.
      intros Hnd Hk Hle. apply NoDup_singleton_members; [apply NoDup_filter'; exact Hnd|].
      intros x. rewrite filter_In. split.
      - intros [Hx Hnone]. destruct (leq_cases k x Hk Hx (Hle x Hx)) as [->|L]; [reflexivity|].
        exfalso. assert (X : In k (strict_down els x)) by (apply In_strict_down; tauto).
        destruct (strict_down els x); [destruct X | discriminate].
      - intros ->. split; [exact Hk|].
        destruct (strict_down els k) as [|z zs] eqn:F; [reflexivity|].
        exfalso. assert (X : In z (strict_down els k)) by (rewrite F; left; reflexivity).
        apply In_strict_down in X. destruct X as [Hz L].
        assert (Y := leq_slt_trans k z k Hk Hz Hk (Hle z Hz) L). rewrite slt_irrefl in Y. discriminate.
    Qed.
  End OnList.

  (* ------------------------------------------------------------------ permutation invariance *)
  Lemma Permutation_filter' {A} (p : A -> bool) l l' :
    Permutation l l' -> Permutation (filter p l) (filter p l').
  Proof.
    induction 1 as [|a l l' H IH|a b l|l l' l'' H1 IH1 H2 IH2]; simpl.
    - constructor.
    - destruct (p a); [constructor|]; exact IH.
    - destruct (p a), (p b); try apply Permutation_refl. apply perm_swap.
    - eapply Permutation_trans; eauto.
  Qed.

  Lemma existsb_perm {A} (p : A -> bool) l l' : Permutation l l' -> existsb p l = existsb p l'.
  Proof.
    intros H. destruct (existsb p l) eqn:X; symmetry.
    - apply existsb_exists in X. destruct X as [a [Ha Pa]]. apply existsb_exists. exists a.
      split; [eapply Permutation_in; eauto | exact Pa].
    - destruct (existsb p l') eqn:Y; [|reflexivity].
      apply existsb_exists in Y. destruct Y as [a [Ha Pa]].
      assert (existsb p l = true); [|congruence]. apply existsb_exists. exists a.
      split; [eapply Permutation_in; [apply Permutation_sym|]; eauto | exact Pa].
  Qed.

  Theorem strict_down_perm els els' x :
    Permutation els els' -> Permutation (strict_down els x) (strict_down els' x).
  Proof. apply Permutation_filter'. Qed.

  Theorem lower_covers_perm els els' x :
    Permutation els els' -> Permutation (lower_covers els x) (lower_covers els' x).
  Proof.
    intros H. unfold lower_covers.
    replace (filter (fun y => is_lower_cover els y x) els)
      with (filter (fun y => is_lower_cover els' y x) els).
    - apply Permutation_filter'. exact H.
    - apply filter_ext. intros y. unfold is_lower_cover, has_between.
      rewrite (existsb_perm _ els els' H). reflexivity.
  Qed.

  Theorem minimal_perm els els' :
    Permutation els els' -> Permutation (minimal els) (minimal els').
  Proof.
    intros H. unfold minimal.
    replace (filter (fun x => negb (existsb (fun y => slt y x) els)) els)
      with (filter (fun x => negb (existsb (fun y => slt y x) els')) els).
    - apply Permutation_filter'. exact H.
    - apply filter_ext. intros y. rewrite (existsb_perm _ els els' H). reflexivity.
  Qed.
End Order.

Arguments memE {E} eqb x l.
Arguments diffE {E} eqb a b.
Arguments interE {E} eqb a b.
Arguments slt {E} eqb leq y x.
Arguments strict_down {E} eqb leq els x.
Arguments has_between {E} eqb leq els y x.
Arguments is_lower_cover {E} eqb leq els y x.
Arguments lower_covers {E} eqb leq els x.
Arguments minimal {E} eqb leq els.
Arguments down_closed {E} eqb leq els x.
Arguments lower_bounds {E} eqb leq els S.
Arguments greatest_candidates {E} eqb leq U.
Arguments sub_loop {E} eqb down order cur.
Arguments extremes_loop {E} eqb down order cur.
Arguments covers_by_subtraction {E} eqb leq els x order.
Arguments partial_order_on {E} leq els.
Arguments eqb_ok {E} eqb.

(* ---------------------------------------------------------------------- the flipped order *)
Definition flip_leq {E} (leq : E -> E -> bool) : E -> E -> bool := fun a b => leq b a.

Definition strict_up {E} eqb (leq : E -> E -> bool) els x := strict_down eqb (flip_leq leq) els x.
Definition upper_covers {E} eqb (leq : E -> E -> bool) els x := lower_covers eqb (flip_leq leq) els x.
Definition maximal {E} eqb (leq : E -> E -> bool) els := minimal eqb (flip_leq leq) els.
Definition up_closed {E} eqb (leq : E -> E -> bool) els x := down_closed eqb (flip_leq leq) els x.
Definition upper_bounds {E} eqb (leq : E -> E -> bool) els S := lower_bounds eqb (flip_leq leq) els S.

Lemma partial_order_on_flip {E} (leq : E -> E -> bool) els :
  partial_order_on leq els -> partial_order_on (flip_leq leq) els.
Proof.
  intros [R [A T]]. unfold flip_leq. repeat split.
  - exact R.
  - intros a b Ha Hb H1 H2. apply A; auto.
  - intros a b c Ha Hb Hc H1 H2. apply (T c b a); auto.
Qed.

Lemma slt_flip {E} eqb (leq : E -> E -> bool) (Heq : eqb_ok eqb) y x :
  slt eqb (flip_leq leq) y x = slt eqb leq x y.
Proof.
  unfold slt, flip_leq. f_equal. f_equal.
  destruct (eqb y x) eqn:A, (eqb x y) eqn:B; try reflexivity.
  - apply Heq in A. subst. rewrite (proj2 (Heq x x) eq_refl) in B. discriminate.
  - apply Heq in B. subst. rewrite (proj2 (Heq y y) eq_refl) in A. discriminate.
Qed.

Lemma In_strict_up {E} eqb (leq : E -> E -> bool) (Heq : eqb_ok eqb) els x y :
  In y (strict_up eqb leq els x) <-> In y els /\ slt eqb leq x y = true.
Proof. unfold strict_up. rewrite In_strict_down, slt_flip by exact Heq. tauto. Qed.

Lemma In_upper_covers {E} eqb (leq : E -> E -> bool) (Heq : eqb_ok eqb) els x y :
  In y (upper_covers eqb leq els x) <->
  In y els /\ slt eqb leq x y = true /\ ~ exists z, In z els /\ slt eqb leq x z = true /\ slt eqb leq z y = true.
Proof.
  unfold upper_covers. rewrite In_lower_covers by exact Heq. rewrite slt_flip by exact Heq.
  split; intros [H1 [H2 H3]]; repeat split; auto; intros [z [Hz [A B]]]; apply H3; exists z;
    rewrite !slt_flip in * by exact Heq; tauto.
Qed.

Theorem above_some_cover {E} eqb (leq : E -> E -> bool) (Heq : eqb_ok eqb) els :
  partial_order_on leq els -> forall x, In x els -> forall y, In y els -> slt eqb leq x y = true ->
  exists c, In c (upper_covers eqb leq els x) /\ leq c y = true.
Proof.
  intros PO x Hx y Hy L.
  apply (below_some_cover E eqb (flip_leq leq) Heq els (partial_order_on_flip leq els PO) x Hx y Hy).
  rewrite slt_flip by exact Heq. exact L.
Qed.

Theorem sub_loop_covers_up {E} eqb (leq : E -> E -> bool) (Heq : eqb_ok eqb) els :
  partial_order_on leq els -> forall x order, In x els ->
  incl (strict_up eqb leq els x) order ->
  sub_loop eqb (strict_up eqb leq els) order (strict_up eqb leq els x) = upper_covers eqb leq els x.
Proof.
  intros PO x order Hx Hord.
  apply (sub_loop_covers E eqb (flip_leq leq) Heq els (partial_order_on_flip leq els PO) x order Hx Hord).
Qed.

(* ---------------------------------------------------------------------- re-indexing *)
Section Reindex.
  Variables (E F : Type) (eqbE : E -> E -> bool) (eqbF : F -> F -> bool).
  Variables (leqE : E -> E -> bool) (leqF : F -> F -> bool) (f : E -> F).
  Variable els : list E.
  Hypothesis f_leq : forall a b, In a els -> In b els -> leqF (f a) (f b) = leqE a b.
  Hypothesis f_eqb : forall a b, In a els -> In b els -> eqbF (f a) (f b) = eqbE a b.

  Lemma filter_map_in {A B} (g : A -> B) (p : A -> bool) (q : B -> bool) l :
    (forall a, In a l -> q (g a) = p a) -> filter q (map g l) = map g (filter p l).
  Proof.
    induction l as [|a l IH]; intros H; simpl; [reflexivity|].
    rewrite H by (left; reflexivity). rewrite IH by (intros b Hb; apply H; right; exact Hb).
    destruct (p a); reflexivity.
  Qed.

  Lemma slt_map a b : In a els -> In b els -> slt eqbF leqF (f a) (f b) = slt eqbE leqE a b.
  Proof. intros Ha Hb. unfold slt. rewrite f_leq, f_eqb by assumption. reflexivity. Qed.

  Theorem strict_down_map x : In x els ->
    strict_down eqbF leqF (map f els) (f x) = map f (strict_down eqbE leqE els x).
  Proof. intros Hx. apply filter_map_in. intros a Ha. apply slt_map; assumption. Qed.

  Lemma has_between_map a x : In a els -> In x els ->
    has_between eqbF leqF (map f els) (f a) (f x) = has_between eqbE leqE els a x.
  Proof.
    intros Ha Hx. unfold has_between.
    assert (G : forall l, incl l els ->
      existsb (fun z => slt eqbF leqF (f a) z && slt eqbF leqF z (f x)) (map f l) =
      existsb (fun z => slt eqbE leqE a z && slt eqbE leqE z x) l).
    { induction l as [|z l IH]; intros Hl; simpl; [reflexivity|].
      assert (Hz : In z els) by (apply Hl; left; reflexivity).
      rewrite !slt_map by assumption. rewrite IH; [reflexivity|].
      intros w Hw. apply Hl. right. exact Hw. }
    apply G. apply incl_refl.
  Qed.

  Theorem lower_covers_map x : In x els ->
    lower_covers eqbF leqF (map f els) (f x) = map f (lower_covers eqbE leqE els x).
  Proof.
    intros Hx. apply filter_map_in. intros a Ha. unfold is_lower_cover.
    rewrite slt_map, has_between_map by assumption. reflexivity.
  Qed.
End Reindex.

(* Props/C13.v — property C13: each pattern structure is a Galois connection and its two
   interval engines agree.  Only statements; proofs are in Lemmas/C13.v.
   [c] ranges over the four shipped structures (CInterval, CIntervalNp, CSet, CAttr) with ANY
   column data (points, proper and even improper intervals over Z; any value sets; any
   booleans), [d] over every description of the matching kind including the empty one, [A]
   over every list of row indexes, [base] over every base set (any order, any repetition). *)
From FCA Require Import Base.ListSet Model.PatternStructure Spec.PatternSpec Spec.Galois Lemmas.C13
     Lemmas.C13_Relabel.

(* the extension is exactly the objects whose value d covers, taken from the base set, in the
   order of the base set, reported by original object index *)
Theorem C13_extension_exact : forall c d base,
  desc_matches c d = true -> opt_in_range (col_len c) base ->
  ps_extension c d base = ext_ps_spec c d (default (all_rows c) base).
Proof. exact extension_exact. Qed.
Print Assumptions C13_extension_exact.

(* A lies in the extension of its intention *)
Theorem C13_galois_extensive : forall c A,
  A <> [] -> in_range (col_len c) A ->
  incl A (ps_extension c (ps_intention c A) None).
Proof. exact galois_extensive. Qed.
Print Assumptions C13_galois_extensive.

(* ... and that extension lies inside the extension of every description covering all of A *)
Theorem C13_galois_least : forall c A d,
  A <> [] -> desc_matches c d = true ->
  incl A (ps_extension c d None) ->
  incl (ps_extension c (ps_intention c A) None) (ps_extension c d None).
Proof. exact galois_least. Qed.
Print Assumptions C13_galois_least.

(* hence every non-empty extension is closed *)
Theorem C13_extension_closed : forall c d,
  desc_matches c d = true -> ps_extension c d None <> [] ->
  ps_extension c (ps_intention c (ps_extension c d None)) None = ps_extension c d None.
Proof. exact extension_closed. Qed.
Print Assumptions C13_extension_closed.

(* the intention of the empty set is the per-structure convention pinned by the suite
   (stated, not derived: None / the empty value set / False) *)
Theorem C13_empty_convention : forall c, ps_intention c [] = empty_convention c.
Proof. exact empty_convention_pinned. Qed.
Print Assumptions C13_empty_convention.

(* the numpy engine (vectorised min/max, boolean mask + nonzero / translation through the base
   set, np.unique + np.sort grids) returns what the pure-python engine returns, on all inputs *)
Theorem C13_numpy_agrees : forall data,
  (forall A, ps_intention (CIntervalNp data) A = ps_intention (CInterval data) A) /\
  (forall d base, ps_extension (CIntervalNp data) d base = ps_extension (CInterval data) d base) /\
  ps_bin_attrs (CIntervalNp data) = ps_bin_attrs (CInterval data) /\
  ps_n_bin_attrs (CIntervalNp data) = ps_n_bin_attrs (CInterval data).
Proof. exact numpy_agrees. Qed.
Print Assumptions C13_numpy_agrees.

(* n_bin_attrs declares as many binary attributes as to_bin_attr_extents yields (a column with
   no rows is rejected by the interval structures and is outside the quantifier) *)
Theorem C13_bin_attrs_count : forall c,
  col_len c <> 0 -> ps_n_bin_attrs c = length (ps_bin_attrs c).
Proof. exact bin_attrs_count. Qed.
Print Assumptions C13_bin_attrs_count.

(* every yielded extent is the bit vector of the extension of the description printed with it *)
Theorem C13_bin_attrs_meaning : forall c d e,
  In (d, e) (ps_bin_attrs c) ->
  desc_matches c d = true /\
  e = map (fun g => mem g (ps_extension c d None)) (all_rows c).
Proof. exact bin_attrs_meaning. Qed.
Print Assumptions C13_bin_attrs_meaning.

(* the interval engines are order-theoretic: intention, extension, the binary-attribute view and
   n_bin_attrs commute with every strictly increasing relabelling [f] of the end points.  This is
   what lets the correspondence send dyadic floats value/scale to the integers value, and the
   extended reals of a case (finite grid values and +-infinity, as in the half-bounded
   descriptions (a, inf), (-inf, b)) to Z by an order embedding with +-infinity at +-2^62.
   Together with C13_numpy_agrees it covers both engines. *)
Theorem C13_order_invariance : forall f : Z -> Z,
  (forall a b, (a < b)%Z -> (f a < f b)%Z) ->
  (forall data d base, opt_in_range (length data) base ->
     ivl_extension (relabel f data) (option_map (relabel1 f) d) base = ivl_extension data d base) /\
  (forall data A, in_range (length data) A ->
     ivl_intention (relabel f data) A = option_map (relabel1 f) (ivl_intention data A)) /\
  (forall data, data <> [] ->
     ivl_bin_attrs (relabel f data)
       = map (fun p => (option_map (relabel1 f) (fst p), snd p)) (ivl_bin_attrs data) /\
     ivl_n_bin_attrs (relabel f data) = ivl_n_bin_attrs data).
Proof. exact order_invariance. Qed.
Print Assumptions C13_order_invariance.

(* Non-vacuity: a column mixing a point and proper intervals (left <> right), an unsorted
   non-prefix base set, both engines; a set-valued and a boolean column. *)
Definition ex_iv : list iv := [(0, 1); (2, 3); (1, 1); (0, 3)]%Z.
Example C13_nonvacuous :
  desc_matches (CIntervalNp ex_iv) (DIv (Some (0, 1)%Z)) = true /\
  opt_in_range (col_len (CIntervalNp ex_iv)) (Some [2; 0]) /\
  in_range (col_len (CInterval ex_iv)) [2; 0] /\ [2; 0] <> [] /\
  ps_extension (CIntervalNp ex_iv) (DIv (Some (0, 1)%Z)) (Some [2; 0]) = [2; 0] /\
  ps_extension (CInterval ex_iv) (DIv (Some (0, 1)%Z)) (Some [3; 2; 0]) = [2; 0] /\
  ps_intention (CInterval ex_iv) [2; 1] = DIv (Some (1, 3)%Z) /\
  ps_extension (CInterval ex_iv) (DIv (Some (1, 3)%Z)) None = [1; 2] /\
  incl [2; 0] (ps_extension (CInterval ex_iv) (DIv (Some (0, 2)%Z)) None) /\
  ps_bin_attrs (CIntervalNp ex_iv) =
    [(DIv (Some (0, 3)%Z), [true; true; true; true]);
     (DIv (Some (1, 3)%Z), [false; true; true; false]);
     (DIv (Some (2, 3)%Z), [false; true; false; false]);
     (DIv (Some (0, 1)%Z), [true; false; true; false]);
     (DIv None, [false; false; false; false])] /\
  ps_n_bin_attrs (CIntervalNp ex_iv) = 5 /\
  ps_intention (CSet [[1]; [2; 1]; []]) [0; 2] = DSet (Some [1]) /\
  ps_extension (CSet [[1]; [2; 1]; []]) (DSet (Some [1])) (Some [2; 1; 0]) = [2; 0] /\
  length (ps_bin_attrs (CSet [[1]; [2; 1]; []])) = 4 /\
  ps_intention (CAttr [true; false; true]) [0; 2] = DAttr true /\
  ps_extension (CAttr [true; false; true]) (DAttr true) (Some [2; 1; 0]) = [2; 0].
Proof.
  repeat split; try (vm_compute; reflexivity); try discriminate.
  - intros x [H|[H|[]]]; subst; vm_compute; lia.
  - intros x [H|[H|[]]]; subst; vm_compute; lia.
  - intros x [H|[H|[]]]; subst; vm_compute; tauto.
Qed.

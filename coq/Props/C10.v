(* Props/C10.v — property C10: set algebra on posets yields correct posets whatever the
   operands have cached.  Statements only; proofs in Lemmas/C10.v, Lemmas/C10Main.v.

   Model: Model/PosetAlgebra.v ([combine o a b] transcribes __and__/__or__/__xor__/__sub__ with
   _combine_multiple_caches/_combine_caches AS THEY ARE).  The unguarded claim is FALSE of that
   code (recorded finding D15): the cover caches (and, for |, the closed caches) are merged
   wrongly unless both operands cached the same things.  Proved here: what is always right
   (elements, the leq table, the closed caches of & and -, everything of ^, uncached operands),
   correctness under the guards G_and / G_or / G_sub, and the refutations outside the guards.
   [guard_index o a b] is the number the correspondence check attaches to a failing case. *)
From FCA Require Import Base.ListSet Spec.PosetSpec Model.Poset Model.PosetAlgebra
     Lemmas.C09Base Lemmas.C09Query Lemmas.C09Del Lemmas.C09 Lemmas.C10 Lemmas.C10Main.

Section Statements.
  Variable E : Type.
  Variable leq eqb : E -> E -> bool.
  Hypothesis PO : partial_order E leq eqb.
  Notation Sound0 := (Sound E leq []).

  (* exactly the set-theoretic combination, each element once, first operand then second *)
  Theorem C10_elements_exact : forall o sa sb,
    NoDup (els sa) -> NoDup (els sb) ->
    els (combine E eqb o sa sb) = els_comb E eqb o (els sa) (els sb) /\
    NoDup (els_comb E eqb o (els sa) (els sb)) /\
    forall x, In x (els_comb E eqb o (els sa) (els sb)) <->
              match o with
              | OpAnd => In x (els sa) /\ In x (els sb)
              | OpOr => In x (els sa) \/ In x (els sb)
              | OpXor => (In x (els sa) /\ ~ In x (els sb)) \/ (In x (els sb) /\ ~ In x (els sa))
              | OpSub => In x (els sa) /\ ~ In x (els sb)
              end.
  Proof. exact (els_comb_exact E leq eqb PO). Qed.

  Theorem C10_leq_cache_sound : forall o a b,
    Sound0 a -> Sound0 b ->
    leq_ok E leq [] (els (combine E eqb o a b)) (c_leq (combine E eqb o a b)).
  Proof. exact (leq_cache_sound E leq eqb PO). Qed.

  Theorem C10_nocache_correct : forall o a b,
    use_cache a = false -> NoDup (els a) -> NoDup (els b) -> Sound0 (combine E eqb o a b).
  Proof. exact (nocache_correct E leq eqb PO). Qed.

  Theorem C10_and_sub_closed_sound : forall o a b,
    o = OpAnd \/ o = OpSub -> Sound0 a -> Sound0 b ->
    forall up, closed_ok E leq [] (els (combine E eqb o a b)) up (closed_cache E up (combine E eqb o a b)).
  Proof. exact (and_sub_closed_sound E leq eqb PO). Qed.

  Theorem C10_xor_sound : forall a b, Sound0 a -> Sound0 b -> Sound0 (combine E eqb OpXor a b).
  Proof. exact (xor_sound E leq eqb PO). Qed.

  Theorem C10_guarded_correct_and : forall a b,
    Sound0 a -> Sound0 b -> G_and E eqb a b = true -> Sound0 (combine E eqb OpAnd a b).
  Proof. exact (guarded_correct_and E leq eqb PO). Qed.

  Theorem C10_guarded_correct_sub : forall a b,
    Sound0 a -> Sound0 b -> G_sub E eqb a b = true -> Sound0 (combine E eqb OpSub a b).
  Proof. exact (guarded_correct_sub E leq eqb PO). Qed.

  (* flag_ok b: an operand built with use_cache=False has empty closed caches (true of every
     reachable state, see C09's Tidy; without it the statement is false, last theorem below) *)
  Theorem C10_guarded_correct_or : forall a b,
    Sound0 a -> Sound0 b -> flag_ok E b -> G_or E eqb a b = true -> Sound0 (combine E eqb OpOr a b).
  Proof. exact (guarded_correct_or E leq eqb PO). Qed.

  (* the four operators at once, on the invariant of C09 *)
  Theorem C10_guarded_correct : forall o a b,
    Inv E leq a -> Inv E leq b -> guard_index E eqb o a b = 0 -> Inv E leq (combine E eqb o a b).
  Proof. exact (guarded_correct E leq eqb PO). Qed.

  (* regardless of which queries and mutations were evaluated on either operand before: inside
     the guard the result has the right elements and answers every query as a fresh poset *)
  Theorem C10_reachable_guarded_correct : forall o la lb ca cb wa wb,
    NoDup la -> NoDup lb ->
    valid_history E leq eqb la ca wa -> valid_history E leq eqb lb cb wb ->
    let sa := fst (run E leq eqb (init E la ca) wa) in
    let sb := fst (run E leq eqb (init E lb cb) wb) in
    let r := combine E eqb o sa sb in
    guard_index E eqb o sa sb = 0 ->
    Inv E leq r /\
    els r = els_comb E eqb o (els sa) (els sb) /\ NoDup (els r) /\
    forall q, valid_op E r q -> mutating E q = false ->
              snd (step E leq eqb r q) = spec_query E leq eqb (els r) (use_cache r) q.
  Proof. exact (reachable_guarded_correct E leq eqb PO). Qed.
End Statements.

Print Assumptions C10_elements_exact.
Print Assumptions C10_leq_cache_sound.
Print Assumptions C10_nocache_correct.
Print Assumptions C10_and_sub_closed_sound.
Print Assumptions C10_xor_sound.
Print Assumptions C10_guarded_correct_and.
Print Assumptions C10_guarded_correct_sub.
Print Assumptions C10_guarded_correct_or.
Print Assumptions C10_guarded_correct.
Print Assumptions C10_reachable_guarded_correct.

(* ---- what is false of the code as it is (finding D15): operands reached by one query each,
   the guard is false and a cached answer of the result differs from the fresh poset.
   refuted_shape o G := exists matrix, element lists a b, warm-up histories wa wb, query q:
   both operands Sound, G sa sb = false, q valid, and step (combine o sa sb) q <> spec answer *)
Theorem C10_and_cover_refuted : refuted_shape OpAnd (G_and nat Nat.eqb).
Proof. exact and_cover_refuted. Qed.
Print Assumptions C10_and_cover_refuted.

Theorem C10_or_closed_refuted : refuted_shape OpOr (G_or nat Nat.eqb).
Proof. exact or_closed_refuted. Qed.
Print Assumptions C10_or_closed_refuted.

Theorem C10_or_cover_refuted : refuted_shape OpOr (G_or nat Nat.eqb).
Proof. exact or_cover_refuted. Qed.
Print Assumptions C10_or_cover_refuted.

Theorem C10_sub_cover_refuted : refuted_shape OpSub (G_sub nat Nat.eqb).
Proof. exact sub_cover_refuted. Qed.
Print Assumptions C10_sub_cover_refuted.

(* hence the unguarded theorems do not hold, even over a genuine partial order (nat, <=) *)
Theorem C10_and_unguarded_refuted :
  ~ (forall a b, Sound nat Nat.leb [] a -> Sound nat Nat.leb [] b ->
                 Sound nat Nat.leb [] (combine nat Nat.eqb OpAnd a b)).
Proof. exact and_unguarded_refuted. Qed.
Print Assumptions C10_and_unguarded_refuted.

Theorem C10_or_unguarded_refuted :
  ~ (forall a b, Sound nat Nat.leb [] a -> Sound nat Nat.leb [] b ->
                 Sound nat Nat.leb [] (combine nat Nat.eqb OpOr a b)).
Proof. exact or_unguarded_refuted. Qed.
Print Assumptions C10_or_unguarded_refuted.

Theorem C10_sub_unguarded_refuted :
  ~ (forall a b, Sound nat Nat.leb [] a -> Sound nat Nat.leb [] b ->
                 Sound nat Nat.leb [] (combine nat Nat.eqb OpSub a b)).
Proof. exact sub_unguarded_refuted. Qed.
Print Assumptions C10_sub_unguarded_refuted.

Theorem C10_guarded_or_needs_flag : ~ guarded_correct_or_statement.
Proof. exact guarded_correct_or_flagless_refuted. Qed.
Print Assumptions C10_guarded_or_needs_flag.

(* ---- non-vacuity: operands over (nat, <=) with non-empty caches, a true guard and a non-empty
   merged cache *)
Example C10_guarded_and_nonvacuous := guarded_and_nonvacuous.
Example C10_guarded_sub_nonvacuous := guarded_sub_nonvacuous.
Example C10_guarded_or_nonvacuous := guarded_or_nonvacuous.
Example C10_xor_nonvacuous := xor_nonvacuous.

(* Props/C17.v — property C17: tracing a context through a lattice finds exactly the describing
   concepts.  Only theorem statements; proofs are in Lemmas/C17.v.

   The model (Model/TraceContext.v) sees the traced context through [ext_of c] =
   context.extension_i(intent of concept c); the theorems are proved ONCE for an arbitrary
   satisfaction relation [sat] that is antitone along the order of the lattice
   ([trace_hyps_gen]) and instantiated twice:
     formal contexts      [trace_hyps]    : intents = attribute sets, sat = "has every attribute"
     many-valued contexts [trace_hyps_mv] : intents = description dictionaries, sat = "every
                                            description covers the object's value" (for interval
                                            structures: a conjunction of interval containments)
   In both, [lt] is a strict order on the concept indexes with greatest element [lt_top L],
   [lt_children L] is its cover relation (so L may be a complete lattice or any pruned sub-list
   with its true covers), intents are antitone along [lt], [enum] is an arbitrary enumeration
   order of a frozenset.  Objects of the traced context are arbitrary rows: seen or unseen. *)
From FCA Require Import Model.TraceContext Spec.Trace Lemmas.C12Order Lemmas.C17.

(* ---- for every antitone satisfaction relation *)
Theorem C17_traced_exact_gen : forall ext_of L h enum lt sat, trace_hyps_gen ext_of L h enum lt sat ->
  forall g, g < h -> same_set (ts_traced (trace_final ext_of L enum) g) (traced_gen sat (lt_len L) g).
Proof. exact traced_exact_gen. Qed.
Print Assumptions C17_traced_exact_gen.

Theorem C17_bottom_exact_gen : forall ext_of L h enum lt sat, trace_hyps_gen ext_of L h enum lt sat ->
  forall g, g < h -> same_set (ts_bottom (trace_final ext_of L enum) g) (bottoms_gen lt sat (lt_len L) g).
Proof. exact bottom_exact_gen. Qed.
Print Assumptions C17_bottom_exact_gen.

(* the range(len(self)) bound is never the reason the loop stops: the queue is empty at the end *)
Theorem C17_loop_bound_ok_gen : forall ext_of L h enum lt sat, trace_hyps_gen ext_of L h enum lt sat ->
  ts_queue (trace_final ext_of L enum) = [].
Proof. exact loop_bound_ok_gen. Qed.
Print Assumptions C17_loop_bound_ok_gen.

(* ---- formal contexts *)
Theorem C17_traced_exact : forall b L intents t enum lt, trace_hyps L intents t enum lt ->
  forall g, g < height t ->
  same_set (ts_traced (trace_final (formal_ext b intents t) L enum) g) (traced_spec intents t g).
Proof. exact traced_exact'. Qed.
Print Assumptions C17_traced_exact.

Theorem C17_bottom_exact : forall b L intents t enum lt, trace_hyps L intents t enum lt ->
  forall g, g < height t ->
  same_set (ts_bottom (trace_final (formal_ext b intents t) L enum) g) (bottoms_spec lt intents t g).
Proof. exact bottom_exact'. Qed.
Print Assumptions C17_bottom_exact.

Theorem C17_loop_bound_ok : forall b L intents t enum lt, trace_hyps L intents t enum lt ->
  ts_queue (trace_final (formal_ext b intents t) L enum) = [].
Proof. exact loop_bound_ok'. Qed.
Print Assumptions C17_loop_bound_ok.

(* the returned pair of dictionaries, by index *)
Theorem C17_trace_by_index_exact : forall b L intents t enum lt,
  trace_hyps L intents t enum lt -> lt_monotone L = false ->
  exists bs trs, trace_by_index (formal_ext b intents t) L (height t) enum = Done (bs, trs) /\
    length bs = height t /\ length trs = height t /\
    forall g, g < height t ->
      same_set (nth g bs []) (bottoms_spec lt intents t g) /\
      same_set (nth g trs []) (traced_spec intents t g).
Proof. exact trace_by_index_exact. Qed.
Print Assumptions C17_trace_by_index_exact.

(* ---- many-valued contexts (pattern lattices) *)
Theorem C17_traced_exact_mv : forall L intents K enum lt, trace_hyps_mv L intents K enum lt ->
  forall g, g < mv_n K ->
  same_set (ts_traced (trace_final (mv_ext K intents) L enum) g)
           (traced_gen (sat_mv intents (mv_cols K)) (length intents) g).
Proof. exact traced_exact_mv. Qed.
Print Assumptions C17_traced_exact_mv.

Theorem C17_bottom_exact_mv : forall L intents K enum lt, trace_hyps_mv L intents K enum lt ->
  forall g, g < mv_n K ->
  same_set (ts_bottom (trace_final (mv_ext K intents) L enum) g)
           (bottoms_gen lt (sat_mv intents (mv_cols K)) (length intents) g).
Proof. exact bottom_exact_mv. Qed.
Print Assumptions C17_bottom_exact_mv.

Theorem C17_loop_bound_ok_mv : forall L intents K enum lt, trace_hyps_mv L intents K enum lt ->
  ts_queue (trace_final (mv_ext K intents) L enum) = [].
Proof. exact loop_bound_ok_mv. Qed.
Print Assumptions C17_loop_bound_ok_mv.

(* ---- key modes and refusal, whatever the kind of context *)
(* by name = by index, re-keyed through object_names *)
Theorem C17_keys : forall ext_of L h enum names bs trs,
  trace_by_index ext_of L h enum = Done (bs, trs) ->
  trace_by_name ext_of L h enum names =
    Done (combine (map (fun g => nth g names 0) (seq 0 h)) bs,
          combine (map (fun g => nth g names 0) (seq 0 h)) trs).
Proof. exact keys_rekey. Qed.
Print Assumptions C17_keys.

Theorem C17_monotone_refused : forall ext_of L h enum names,
  lt_monotone L = true ->
  trace_by_index ext_of L h enum = Fail 9 /\ trace_by_name ext_of L h enum names = Fail 9.
Proof. intros. split; [apply monotone_refused_index | apply monotone_refused_name]; assumption. Qed.
Print Assumptions C17_monotone_refused.

(* Non-vacuity (formal): the Sofia-like pruned list {top, {0,1}, {2}, bottom} of the concepts of a
   3x3 context (the concepts {0}, {1} are missing, so it is not intersection-closed) with its true
   covers, traced on a context with an unseen row, meets every hypothesis; the result is not
   trivial. *)
Definition ex_exts : list (list nat) := [[0; 1; 2]; [0; 1]; [2]; []].
Definition ex_intents : list (list nat) := [[]; [0]; [1; 2]; [0; 1; 2]].
Definition ex_L : lattice :=
  {| lt_len := 4;
     lt_children := fun i => nth i [[1; 2]; [3]; [3]; []] [];
     lt_top := 0; lt_support := fun i => length (nth i ex_exts []); lt_monotone := false |}.
Definition ex_t : table := [[true; false; false]; [true; true; true]; [false; false; true]].

Lemma ex_order_hyps :
  (forall l x, In x ((fun l : list nat => l) l) <-> In x l) /\
  (forall l : list nat, NoDup l -> NoDup ((fun l => l) l)) /\
  strict_order (incl_lt ex_exts) 4 /\ is_top (incl_lt ex_exts) 4 0 /\
  (forall i, i < 4 -> forall x, In x (lt_children ex_L i) <-> In x (lower_covers (incl_lt ex_exts) 4 i)) /\
  (forall i, i < 4 -> NoDup (lt_children ex_L i)).
Proof.
  split; [intros; tauto|]. split; [intros l H; exact H|].
  split; [apply strict_orderb_spec; vm_compute; reflexivity|].
  split; [apply is_topb_spec; vm_compute; reflexivity|].
  split.
  - intros i Hi x. do 4 (destruct i as [|i]; [vm_compute; tauto|]). lia.
  - intros i Hi. do 4 (destruct i as [|i]; [vm_compute; repeat constructor; simpl; intuition congruence|]). lia.
Qed.
Print Assumptions ex_order_hyps.

Example C17_nonvacuous :
  trace_hyps ex_L ex_intents ex_t (fun l => l) (incl_lt ex_exts) /\
  trace_by_index (formal_ext BBitarray ex_intents ex_t) ex_L 3 (fun l => l)
    = Done ([[1]; [3]; [0]], [[1; 0]; [3; 2; 1; 0]; [0]]).
Proof.
  split; [|vm_compute; reflexivity].
  destruct ex_order_hyps as [H1 [H2 [H3 [H4 [H5 H6]]]]].
  unfold trace_hyps. split; [reflexivity|]. split; [exact H1|]. split; [exact H2|].
  split; [exact H3|]. split; [exact H4|]. split; [exact H5|]. split; [exact H6|].
  split; [apply antitone_intentsb_spec; vm_compute; reflexivity|].
  split; [repeat constructor|].
  intros i Hi. change (lt_len ex_L) with 4 in *.
  do 4 (destruct i as [|i]; [intros x Hx; vm_compute in Hx; vm_compute; intuition lia|]). lia.
Qed.

(* Non-vacuity (many-valued): the same pruned order carried by interval descriptions of two
   structures (one IntervalPS, one IntervalNumpyPS column); the traced context has an object that
   fits only the top and one that fits nothing. *)
Definition ex_mv_intents : list mv_intent :=
  [ [(0, DIv (Some (1, 5)%Z)); (1, DIv (Some (0, 9)%Z))];
    [(0, DIv (Some (1, 3)%Z)); (1, DIv (Some (0, 9)%Z))];
    [(0, DIv (Some (5, 5)%Z)); (1, DIv (Some (2, 4)%Z))];
    [(0, DIv None); (1, DIv None)] ].
Definition ex_K : mvctx :=
  mkMV 4 [CInterval [(2, 2); (5, 5); (4, 4); (7, 7)]%Z; CIntervalNp [(1, 8); (3, 3); (0, 9); (1, 1)]%Z]
       [10; 11; 12; 13] [20; 21] [20; 21].

Example C17_nonvacuous_mv :
  trace_hyps_mv ex_L ex_mv_intents ex_K (fun l => l) (incl_lt ex_exts) /\
  trace_by_index (mv_ext ex_K ex_mv_intents) ex_L 4 (fun l => l)
    = Done ([[1]; [2]; [0]; []], [[1; 0]; [2; 0]; [0]; []]).
Proof.
  split; [|vm_compute; reflexivity].
  destruct ex_order_hyps as [H1 [H2 [H3 [H4 [H5 H6]]]]].
  unfold trace_hyps_mv. split; [reflexivity|]. split; [exact H1|]. split; [exact H2|].
  split; [exact H3|]. split; [exact H4|]. split; [exact H5|]. split; [exact H6|].
  split; [apply antitone_mvb_spec; vm_compute; reflexivity|].
  intros i Hi. change (lt_len ex_L) with 4 in *.
  do 4 (destruct i as [|i]; [repeat constructor; simpl; lia|]). lia.
Qed.

(* Props/C17.v — property C17: tracing a context through a lattice finds exactly the describing
   concepts.  Only theorem statements; proofs are in Lemmas/C17.v.

   [trace_hyps L t enum lt] (Lemmas/C17.v) bundles the hypotheses: [lt] is a strict order on the
   concept indexes with greatest element [lt_top L], [lt_children L] is its cover relation (so L
   may be a complete lattice or any pruned sub-list with its true covers), intents are antitone
   along [lt], [t] is a well-formed table over the same attributes, [enum] is an arbitrary
   enumeration order of a frozenset.  Objects of [t] are arbitrary rows: seen or unseen. *)
From FCA Require Import Model.TraceContext Spec.Trace Lemmas.C12Order Lemmas.C17.

Theorem C17_traced_exact : forall b L t enum lt, trace_hyps L t enum lt ->
  forall g, g < height t ->
  same_set (ts_traced (trace_final b L t enum) g) (traced_spec (lt_intents L) t g).
Proof. exact traced_exact'. Qed.
Print Assumptions C17_traced_exact.

Theorem C17_bottom_exact : forall b L t enum lt, trace_hyps L t enum lt ->
  forall g, g < height t ->
  same_set (ts_bottom (trace_final b L t enum) g) (bottoms_spec lt (lt_intents L) t g).
Proof. exact bottom_exact'. Qed.
Print Assumptions C17_bottom_exact.

(* the range(len(self)) bound is never the reason the loop stops: the queue is empty at the end *)
Theorem C17_loop_bound_ok : forall b L t enum lt, trace_hyps L t enum lt ->
  ts_queue (trace_final b L t enum) = [].
Proof. exact loop_bound_ok'. Qed.
Print Assumptions C17_loop_bound_ok.

(* the returned pair of dictionaries, by index *)
Theorem C17_trace_by_index_exact : forall b L t enum lt,
  trace_hyps L t enum lt -> lt_monotone L = false ->
  exists bs trs, trace_by_index b L t enum = Done (bs, trs) /\
    length bs = height t /\ length trs = height t /\
    forall g, g < height t ->
      same_set (nth g bs []) (bottoms_spec lt (lt_intents L) t g) /\
      same_set (nth g trs []) (traced_spec (lt_intents L) t g).
Proof. exact trace_by_index_exact. Qed.
Print Assumptions C17_trace_by_index_exact.

(* by name = by index, re-keyed through object_names *)
Theorem C17_keys : forall b L t enum names bs trs,
  trace_by_index b L t enum = Done (bs, trs) ->
  trace_by_name b L t enum names =
    Done (combine (map (fun g => nth g names 0) (seq 0 (height t))) bs,
          combine (map (fun g => nth g names 0) (seq 0 (height t))) trs).
Proof. exact keys_rekey. Qed.
Print Assumptions C17_keys.

Theorem C17_monotone_refused : forall b L t enum names,
  lt_monotone L = true ->
  trace_by_index b L t enum = Fail 9 /\ trace_by_name b L t enum names = Fail 9.
Proof. intros. split; [apply monotone_refused_index | apply monotone_refused_name]; assumption. Qed.
Print Assumptions C17_monotone_refused.

(* Non-vacuity: the Sofia-like pruned list {top, {0,1}, {2}, bottom} of the concepts of a 3x3
   context (the concepts {0}, {1} are missing, so it is not intersection-closed) with its true
   covers, traced on a context with an unseen row, meets every hypothesis; the result is not
   trivial. *)
Definition ex_exts : list (list nat) := [[0; 1; 2]; [0; 1]; [2]; []].
Definition ex_L : lattice :=
  {| lt_intents := [[]; [0]; [1; 2]; [0; 1; 2]];
     lt_children := fun i => nth i [[1; 2]; [3]; [3]; []] [];
     lt_top := 0; lt_support := fun i => length (nth i ex_exts []); lt_monotone := false |}.
Definition ex_t : table := [[true; false; false]; [true; true; true]; [false; false; true]].

Example C17_nonvacuous :
  trace_hyps ex_L ex_t (fun l => l) (incl_lt ex_exts) /\
  trace_by_index BBitarray ex_L ex_t (fun l => l) = Done ([[1]; [3]; [0]], [[1; 0]; [3; 2; 1; 0]; [0]]).
Proof.
  split; [|vm_compute; reflexivity].
  unfold trace_hyps. split; [intros; tauto|]. split; [intros l H; exact H|].
  split; [apply strict_orderb_spec; vm_compute; reflexivity|].
  split; [apply is_topb_spec; vm_compute; reflexivity|].
  split.
  { intros i Hi x. change (lt_len ex_L) with 4 in *.
    do 4 (destruct i as [|i]; [vm_compute; tauto|]). lia. }
  split.
  { intros i Hi. change (lt_len ex_L) with 4 in *.
    do 4 (destruct i as [|i]; [vm_compute; repeat constructor; simpl; intuition congruence|]). lia. }
  split; [apply antitone_intentsb_spec; vm_compute; reflexivity|].
  split; [repeat constructor|].
  intros i Hi. change (lt_len ex_L) with 4 in *.
  do 4 (destruct i as [|i]; [intros x Hx; vm_compute in Hx; vm_compute; intuition lia|]). lia.
Qed.

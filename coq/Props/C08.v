(* Props/C08.v — property C08: concepts are ordered by extent inclusion with consistent equality
   and hashing; comparisons across contexts or monotonicities are refused; the defining fields
   are frozen; from_objects builds the closure.
   Only statements; proofs are in Lemmas/C08.v.  The models are in Model/C08_Concept.v:
   [fc_*] = FormalConcept (AbstractConcept), [pc_*] = PatternConcept.  hash_fixed is the
   arbitrary function [H]; Python's tuple hash is the arbitrary function [TH]/[PH]. *)
From FCA Require Import Base.ListSet Model.BinTable Model.FormalContext Spec.Galois Spec.Closure
  Model.C08_Concept Spec.C08_Order Spec.C08_Pattern Lemmas.C08 Lemmas.C08p.
From FCA Require Lemmas.C08q.     (* loaded, not imported: the C13/C14 model shares short names with ours *)

(* ---------------------------------------------------------------- FormalConcept: the order *)

(* a <= b is inclusion of extents, reversed for monotone concepts (duplicate-free extents suffice) *)
Theorem C08_le_is_inclusion : forall a b,
  fc_comparable a b -> NoDup (fc_extent_i a) -> NoDup (fc_extent_i b) ->
  fc_le a b = COk (spec_le (fc_mono a) (fc_extent_i a) (fc_extent_i b)).
Proof. exact fc_le_is_inclusion. Qed.
Print Assumptions C08_le_is_inclusion.

(* a < b is the strict part, on duplicate-free extents listed in any order ... *)
Theorem C08_lt_is_strict : forall a b,
  fc_comparable a b -> NoDup (fc_extent_i a) -> NoDup (fc_extent_i b) ->
  fc_lt a b = COk (spec_lt (fc_mono a) (fc_extent_i a) (fc_extent_i b)).
Proof. exact fc_lt_is_strict. Qed.
Print Assumptions C08_lt_is_strict.

Theorem C08_lt_is_le_and_not_eq : forall a b,
  fc_comparable a b -> NoDup (fc_extent_i a) -> NoDup (fc_extent_i b) ->
  exists l e, fc_le a b = COk l /\ fc_eq a b = COk e /\ fc_lt a b = COk (l && negb e).
Proof. exact fc_lt_le_and_ne. Qed.
Print Assumptions C08_lt_is_le_and_not_eq.

(* ... the listing order is irrelevant since repair 0ac2495 (defect D81: close_by_one_objectwise
   lists extents in discovery order): (0,2) and (2,0) are ==, hash equally for every tuple hash,
   are <= each other and neither is < the other *)
Theorem C08_listing_order_irrelevant : forall TH : list nat -> Z,
  fc_comparable c02 c20 /\ NoDup (fc_extent_i c02) /\ NoDup (fc_extent_i c20) /\
  fc_eq c02 c20 = COk true /\ fc_ne c02 c20 = COk false /\ fc_hashv TH c02 = fc_hashv TH c20 /\
  fc_le c02 c20 = COk true /\ fc_le c20 c02 = COk true /\ fc_lt c02 c20 = COk false.
Proof. exact fc_listing_order_irrelevant. Qed.
Print Assumptions C08_listing_order_irrelevant.

(* ... but extents must be duplicate-free: (0,0) is properly inside (0,1) with the same support *)
Theorem C08_lt_needs_nodup_refuted :
  fc_comparable c00 c01 /\ fc_le c00 c01 = COk true /\ fc_eq c00 c01 = COk false /\
  spec_lt false (fc_extent_i c00) (fc_extent_i c01) = true /\ fc_lt c00 c01 = COk false.
Proof. exact fc_lt_needs_nodup_refuted. Qed.
Print Assumptions C08_lt_needs_nodup_refuted.

(* a == b is equality of the extents as sets, and equal concepts hash equally *)
Theorem C08_eq_is_ext_equality : forall a b,
  fc_comparable a b -> NoDup (fc_extent_i a) -> NoDup (fc_extent_i b) ->
  fc_eq a b = COk (spec_eq (fc_extent_i a) (fc_extent_i b)).
Proof. exact fc_eq_is_ext_equality. Qed.
Print Assumptions C08_eq_is_ext_equality.

Theorem C08_eq_implies_equal_hash : forall (TH : list nat -> Z) a b,
  fc_eq a b = COk true -> fc_hashv TH a = fc_hashv TH b.
Proof. exact fc_eq_hash. Qed.
Print Assumptions C08_eq_implies_equal_hash.

(* derived operators: !=, >=, > *)
Theorem C08_derived_operators : forall a b,
  fc_ne a b = cres_map negb (fc_eq a b) /\ fc_ge a b = fc_le b a /\ fc_gt a b = fc_lt b a.
Proof. exact fc_derived_operators. Qed.
Print Assumptions C08_derived_operators.

(* <= is a partial order on the concepts derived from one context with one monotonicity *)
Theorem C08_partial_order : forall H K mono,
  (forall a, fc_le a a = COk true) /\
  (forall a b, fc_derived H K mono a -> fc_derived H K mono b ->
               fc_le a b = COk true -> fc_le b a = COk true -> fc_eq a b = COk true) /\
  (forall a b c, fc_derived H K mono a -> fc_derived H K mono b -> fc_derived H K mono c ->
                 fc_le a b = COk true -> fc_le b c = COk true -> fc_le a c = COk true).
Proof. exact fc_partial_order. Qed.
Print Assumptions C08_partial_order.

(* ---------------------------------------------------------------- guards *)

(* different stored context hashes: every one of the six comparisons raises UnmatchedContextError *)
Theorem C08_guard_context : forall a b,
  fc_hash a <> fc_hash b -> all_six a b (CErr UnmatchedContext).
Proof. exact fc_guard_context. Qed.
Print Assumptions C08_guard_context.

(* same hash, different monotonicity: UnmatchedMonotonicityError, in both directions *)
Theorem C08_guard_monotone : forall H K a b,
  fc_derived H K true a -> fc_derived H K false b ->
  all_six a b (CErr UnmatchedMonotone) /\ all_six b a (CErr UnmatchedMonotone).
Proof. exact same_context_monotonicity_refused. Qed.
Print Assumptions C08_guard_monotone.

(* "comparing concepts of different contexts is refused": true under the guard of finding D18
   (the hashes differ or the contexts are equal), hence for every injective hash_fixed ... *)
Theorem C08_cross_context_refused_guarded : forall H Ka Kb ma mb a b,
  D18_guard H Ka Kb = true -> Ka <> Kb -> fc_derived H Ka ma a -> fc_derived H Kb mb b ->
  all_six a b (CErr UnmatchedContext).
Proof. exact cross_context_refused_guarded. Qed.
Print Assumptions C08_cross_context_refused_guarded.

Theorem C08_cross_context_refused_if_injective : forall H,
  (forall Ka Kb, H Ka = H Kb -> Ka = Kb) -> cross_context_refused H.
Proof. exact cross_context_refused_if_injective. Qed.
Print Assumptions C08_cross_context_refused_if_injective.

(* ... and false for the hash_fixed the library uses (zlib.adler32 of the rendered context):
   [[F,T,T,F]] and [[T,F,F,T]] collide, and {0} <= {0} is answered instead of refused (D18) *)
Theorem C08_guards_need_injective_H_refuted : ~ cross_context_refused H_adler.
Proof. exact guards_need_injective_H_refuted. Qed.
Print Assumptions C08_guards_need_injective_H_refuted.

(* ---------------------------------------------------------------- frozen fields *)

Theorem C08_frozen : forall o k v,
  fkey_defining k = true -> fc_setattr o k v = (o, Some Frozen).
Proof. exact fc_frozen. Qed.
Print Assumptions C08_frozen.

Theorem C08_setattr_never_changes_defining_fields : forall o k v,
  defining_fields (fo_concept (fst (fc_setattr o k v))) = defining_fields (fo_concept o).
Proof. exact fc_setattr_keeps_defining. Qed.
Print Assumptions C08_setattr_never_changes_defining_fields.

(* ---------------------------------------------------------------- from_objects *)

Theorem C08_from_objects_is_closure : forall H b K A,
  wf (k_table K) -> in_range (height (k_table K)) A ->
  fc_from_objects H b K (ByIndex A) false false = COk (closure_concept H K A)
  /\ is_concept (k_table K) (cl_obj (k_table K) A) (int (k_table K) A).
Proof. exact fc_from_objects_is_closure. Qed.
Print Assumptions C08_from_objects_is_closure.

Theorem C08_from_objects_by_name : forall H b K A,
  wf (k_table K) -> NoDup (k_onames K) -> length (k_onames K) = height (k_table K) ->
  in_range (height (k_table K)) A ->
  fc_from_objects H b K (ByName (map (name_of (k_onames K)) A)) false false
  = COk (closure_concept H K A).
Proof. exact fc_from_objects_by_name. Qed.
Print Assumptions C08_from_objects_by_name.

Theorem C08_from_objects_unknown_name : forall H b K known x rest e,
  NoDup (k_onames K) -> in_range (length (k_onames K)) known -> ~ In x (k_onames K) ->
  fc_from_objects H b K (ByName (map (name_of (k_onames K)) known ++ x :: rest)) e false
  = CErr ValueErr.
Proof. exact fc_from_objects_unknown_name. Qed.
Print Assumptions C08_from_objects_unknown_name.

(* the concept from_objects builds is one of those the order theorems speak about *)
Theorem C08_from_objects_derived : forall H b K A,
  wf (k_table K) -> in_range (height (k_table K)) A ->
  exists c, fc_from_objects H b K (ByIndex A) false false = COk c /\ fc_derived H K false c.
Proof. exact fc_from_objects_derived. Qed.
Print Assumptions C08_from_objects_derived.

(* ---------------------------------------------------------------- PatternConcept *)

Theorem C08_pattern_le_is_inclusion : forall a b,
  pc_hash a = pc_hash b -> NoDup (pc_extent_i a) ->
  pc_le a b = COk (spec_le false (pc_extent_i a) (pc_extent_i b)).
Proof. exact pc_le_is_inclusion. Qed.
Print Assumptions C08_pattern_le_is_inclusion.

Theorem C08_pattern_lt_is_strict : forall a b,
  pc_hash a = pc_hash b -> NoDup (pc_extent_i a) -> NoDup (pc_extent_i b) ->
  pc_lt a b = COk (spec_lt false (pc_extent_i a) (pc_extent_i b)).
Proof. exact pc_lt_is_strict. Qed.
Print Assumptions C08_pattern_lt_is_strict.

Theorem C08_pattern_eq_is_ext_equality : forall a b,
  pc_hash a = pc_hash b -> NoDup (pc_extent_i a) -> NoDup (pc_extent_i b) ->
  pc_eq a b = COk (spec_eq (pc_extent_i a) (pc_extent_i b)).
Proof. exact pc_eq_is_ext_equality. Qed.
Print Assumptions C08_pattern_eq_is_ext_equality.

(* the stored extent of a pattern concept need not be ascending (close_by_one_objectwise yields
   e.g. (0, 1, 4, 2)); == ignores the order, and so does the hash (it sorts) *)
Theorem C08_pattern_eq_implies_equal_hash : forall (PH : list nat * option Z -> Z) a b,
  NoDup (pc_extent_i a) -> NoDup (pc_extent_i b) ->
  pc_eq a b = COk true -> pc_hashv PH a = pc_hashv PH b.
Proof. exact pc_eq_hash_nodup. Qed.
Print Assumptions C08_pattern_eq_implies_equal_hash.

Theorem C08_pattern_partial_order :
  (forall a, pc_le a a = COk true) /\
  (forall a b, pc_hash a = pc_hash b -> NoDup (pc_extent_i a) -> NoDup (pc_extent_i b) ->
               pc_le a b = COk true -> pc_le b a = COk true -> pc_eq a b = COk true) /\
  (forall a b c, pc_hash a = pc_hash b -> pc_hash b = pc_hash c ->
                 NoDup (pc_extent_i a) -> NoDup (pc_extent_i b) ->
                 pc_le a b = COk true -> pc_le b c = COk true -> pc_le a c = COk true).
Proof. exact (conj pc_le_refl (conj pc_le_antisym pc_le_trans)). Qed.
Print Assumptions C08_pattern_partial_order.

Theorem C08_pattern_guard_context : forall a b,
  pc_hash a <> pc_hash b -> pc_all_six a b (CErr NotImpl).
Proof. exact pc_guard_context. Qed.
Print Assumptions C08_pattern_guard_context.

Theorem C08_pattern_frozen : forall c k m,
  pkey_readonly k = true -> pc_setattr c k m = (c, Some Frozen).
Proof. exact pc_frozen. Qed.
Print Assumptions C08_pattern_frozen.

(* PatternConcept.from_objects on interval-valued contexts (IntervalPS columns): the intent is,
   column by column, the interval hull of the given objects' cells (None for no objects); the
   extent is the set of ALL objects whose cells lie inside it -- the closure; it contains every
   given object; names resolve as indexes do *)
Theorem C08_pattern_from_objects_is_closure : forall HM K A,
  pc_from_objects HM K (ByIndex A) false false
  = COk (mk_pc (ext_mv K (hull_desc K A)) (map (name_of (mv_onames K)) (ext_mv K (hull_desc K A)))
               (hull_desc K A) [] (Some (HM K))).
Proof. exact pc_from_objects_is_closure. Qed.
Print Assumptions C08_pattern_from_objects_is_closure.

Theorem C08_pattern_intent_is_hull : forall K A j,
  j < mv_width K -> is_hull K j A (nth j (hull_desc K A) None).
Proof. exact hull_desc_is_hull. Qed.
Print Assumptions C08_pattern_intent_is_hull.

Theorem C08_pattern_from_objects_extensive : forall K A g,
  In g A -> g < mv_height K -> In g (ext_mv K (hull_desc K A)).
Proof. exact pc_from_objects_extensive. Qed.
Print Assumptions C08_pattern_from_objects_extensive.

Theorem C08_pattern_from_objects_by_name : forall HM K A,
  NoDup (mv_onames K) -> in_range (length (mv_onames K)) A ->
  pc_from_objects HM K (ByName (map (name_of (mv_onames K)) A)) false false
  = pc_from_objects HM K (ByIndex A) false false.
Proof. exact pc_from_objects_by_name. Qed.
Print Assumptions C08_pattern_from_objects_by_name.

(* ... and for ALL shipped structures (IntervalPS, IntervalNumpyPS, SetPS -- the empty value set is a
   legitimate description --, AttributePS), over the many-valued model of C13/C14
   (Model/MVContext.v): the extent from_objects returns is the product closure of
   Spec/PatternSpec.v (most specific description per column, or the conventions for no objects,
   then the containment filter); for a non-empty in-range argument it is extensive, monotone and
   idempotent *)
Theorem C08_pattern_from_objects_is_closure_all_structures : forall K A,
  FCA.Model.MVContext.pc_int (FCA.Model.MVContext.pc_from_objects K A false)
  = FCA.Model.MVContext.mv_intention_i K A
  /\ FCA.Model.MVContext.pc_ext (FCA.Model.MVContext.pc_from_objects K A false)
     = FCA.Spec.PatternSpec.mv_cl_spec (FCA.Model.MVContext.mv_cols K) (FCA.Model.MVContext.mv_n K) A
  /\ FCA.Model.MVContext.pc_ext (FCA.Model.MVContext.pc_from_objects K A true) = A.
Proof. exact FCA.Lemmas.C08q.pc_from_objects_closure_all. Qed.
Print Assumptions C08_pattern_from_objects_is_closure_all_structures.

Theorem C08_pattern_from_objects_closure_laws : forall K A B,
  A <> [] -> in_range (FCA.Model.MVContext.mv_n K) A ->
  incl A (FCA.Model.MVContext.pc_ext (FCA.Model.MVContext.pc_from_objects K A false))
  /\ (incl A B -> incl (FCA.Model.MVContext.pc_ext (FCA.Model.MVContext.pc_from_objects K A false))
                      (FCA.Model.MVContext.pc_ext (FCA.Model.MVContext.pc_from_objects K B false)))
  /\ FCA.Model.MVContext.pc_ext
       (FCA.Model.MVContext.pc_from_objects K
          (FCA.Model.MVContext.pc_ext (FCA.Model.MVContext.pc_from_objects K A false)) false)
     = FCA.Model.MVContext.pc_ext (FCA.Model.MVContext.pc_from_objects K A false).
Proof. exact FCA.Lemmas.C08q.pc_from_objects_closure_laws. Qed.
Print Assumptions C08_pattern_from_objects_closure_laws.

(* ---------------------------------------------------------------- non-vacuity *)

(* the 3x3 table of the README-like example: its concepts ({0,2},{0}) and ({0},{0,2}) are derived,
   comparable, and the operators answer as the order says; from_objects([2]) is the closure *)
Definition ex_K : fctx :=
  mk_ctx [10; 11; 12] [20; 21; 22] [[true; false; true]; [false; true; true]; [true; true; false]].
Definition ex_a := closure_concept H_adler ex_K [0; 2].
Definition ex_b := closure_concept H_adler ex_K [0].

Example C08_nonvacuous :
  wf (k_table ex_K) /\ in_range (height (k_table ex_K)) [0; 2] /\
  fc_derived H_adler ex_K false ex_a /\ fc_derived H_adler ex_K false ex_b /\
  fc_comparable ex_a ex_b /\
  fc_extent_i ex_a = [0; 2] /\ fc_intent_i ex_a = [0] /\ fc_extent_i ex_b = [0] /\
  fc_le ex_b ex_a = COk true /\ fc_lt ex_b ex_a = COk true /\ fc_le ex_a ex_b = COk false /\
  fc_eq ex_a ex_b = COk false /\ fc_ne ex_a ex_b = COk true /\ fc_gt ex_a ex_b = COk true /\
  fc_from_objects H_adler BBitarray ex_K (ByName [12]) false false
    = COk (closure_concept H_adler ex_K [2]) /\
  D18_guard H_adler ex_K K_coll_a = true /\ D18_guard H_adler K_coll_a K_coll_b = false /\
  K_coll_a <> K_coll_b.
Proof.
  repeat split; try (vm_compute; reflexivity);
    try (apply increasing_NoDup, increasingb_spec; vm_compute; reflexivity).
  - repeat constructor.
  - intros x [E|[E|[]]]; subst; vm_compute; lia.
  - intros E. discriminate E.
Qed.

Definition ex_MV : mvctx :=
  mk_mv [30; 31; 32] [40] [[(1, 1)%Z]; [(2, 5)%Z]; [(4, 4)%Z]].
Example C08_pattern_nonvacuous :
  hull_desc ex_MV [0; 2] = [Some (1, 4)%Z] /\ ext_mv ex_MV (hull_desc ex_MV [0; 2]) = [0; 2] /\
  ext_mv ex_MV (hull_desc ex_MV [0; 1]) = [0; 1; 2] /\ hull_desc ex_MV [] = [None] /\
  ext_mv ex_MV [None] = [].
Proof. repeat split; vm_compute; reflexivity. Qed.

(* objects 0 and 2 have NO category: from_objects on them keeps exactly them (not the empty extent) *)
Example C08_pattern_empty_value_set_nonvacuous :
  let K := FCA.Model.MVContext.mkMV 3 [FCA.Model.PatternStructure.CSet [[]; [1; 2]; []]] [0; 1; 2] [0] [0] in
  FCA.Model.MVContext.pc_ext (FCA.Model.MVContext.pc_from_objects K [0] false) = [0; 2]
  /\ FCA.Model.MVContext.pc_ext (FCA.Model.MVContext.pc_from_objects K [] false) = [0; 2]
  /\ FCA.Model.MVContext.pc_ext (FCA.Model.MVContext.pc_from_objects K [1] false) = [0; 1; 2].
Proof. repeat split; vm_compute; reflexivity. Qed.

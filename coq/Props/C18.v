(* Props/C18.v — property C18: minimal-generator search returns exactly the minimum-size
   generators (formal contexts, by index and by name, base generator, base object set); for
   many-valued contexts every returned generator has the extension of the intent inside the base
   object set.  Only statements; proofs are in Lemmas/C18.v and Lemmas/C18_MV.v. *)
From FCA Require Import Model.C18_MinGen Spec.C18_MinGenSpec Lemmas.C18 Lemmas.C18_MV Lemmas.C18_Diff Lemmas.C18_Term Lemmas.C18_Dups.
From Coq Require Import ZArith.
Local Open Scope nat_scope.

(* mingen_exact: with or without base objects (all objects when none are given) the index search
   returns a duplicate-free list of increasing index lists containing exactly the attribute sets D
   with  base_gen ⊆ D,  closure of D inside the base objects = intent,  and no such set smaller
   than D.  Nothing is assumed about the intent (not closed => usually no generator => empty
   result) nor about base_gen ⊆ intent. *)
Theorem C18_mingen_exact : forall b t intent bg bo,
  wf t -> opt_in_range (height t) bo -> in_range (width t) (default [] bg) -> NoDup (default [] bg) ->
  let l := get_minimal_generators_i b t intent bg bo in
  NoDup l /\
  forall D, In D l <-> In D (mingens_spec t intent (default [] bg) (default (all_objs t) bo)).
Proof. exact get_minimal_generators_i_exact. Qed.
Print Assumptions C18_mingen_exact.

(* the duplicate-free hypothesis on the base generator can be dropped if the answer is read as a
   set of SETS: with a base generator listed with repeats the code returns listings carrying the
   same repeats (e.g. (0, 1, 1)); their underlying sets are exactly the minimum generators *)
Theorem C18_mingen_exact_with_repeats : forall b t intent bg bo,
  wf t -> opt_in_range (height t) bo -> in_range (width t) (default [] bg) ->
  let l := get_minimal_generators_i b t intent bg bo in
  let spec := mingens_spec t intent (default [] bg) (default (all_objs t) bo) in
  (forall D', In D' l -> In (canon_set (width t) D') spec) /\
  (forall D, In D spec -> exists D', In D' l /\ canon_set (width t) D' = D).
Proof. exact get_minimal_generators_i_dups. Qed.
Print Assumptions C18_mingen_exact_with_repeats.

(* what membership in the specification's list means *)
Theorem C18_mingens_spec_meaning : forall t intent bg bo D,
  In D (mingens_spec t intent bg bo) <->
  In D (sublists (all_attrs t)) /\ is_gen t intent bg bo D /\
  forall E, In E (sublists (all_attrs t)) -> is_gen t intent bg bo E -> length D <= length E.
Proof. exact mingens_spec_In. Qed.
Print Assumptions C18_mingens_spec_meaning.

(* mingen_names: the by-name call is the by-index call on the positions of the names, re-named *)
Theorem C18_mingen_names : forall b t onames anames intent bg bo,
  NoDup anames -> NoDup onames -> length anames = width t -> length onames = height t ->
  in_range (width t) intent -> in_range (width t) bg -> in_range (height t) bo ->
  get_minimal_generators_named b t onames anames (map (name_of anames) intent)
       (Some (map (name_of anames) bg)) (Some (map (name_of onames) bo))
  = map (map (name_of anames))
        (get_minimal_generators_i b t (canon_set (width t) intent) (Some (canon_set (width t) bg))
                                  (Some (canon_set (height t) bo))).
Proof. exact mingen_names. Qed.
Print Assumptions C18_mingen_names.

Theorem C18_mingen_names_nobase : forall b t onames anames intent,
  NoDup anames -> length anames = width t -> in_range (width t) intent ->
  get_minimal_generators_named b t onames anames (map (name_of anames) intent) None None
  = map (map (name_of anames)) (get_minimal_generators_i b t (canon_set (width t) intent) None None).
Proof. exact mingen_names_nobase. Qed.
Print Assumptions C18_mingen_names_nobase.

(* mv_sound: what the code tests.  Any answer is non-empty and every returned description d has,
   inside the base objects, the extension the intent has among all objects (no size bound on fuel) *)
Theorem C18_mv_sound : forall fuel K intent bg base pti pstart l,
  mv_get_minimal_generators fuel K intent bg base pti pstart = MOk l ->
  l <> [] /\
  forall d, In d l ->
    exists e, mv_extension K intent None = ROk e /\
              mv_extension K d (Some (default (seq 0 (mv_n K)) base)) = ROk e.
Proof. exact mv_sound. Qed.
Print Assumptions C18_mv_sound.

(* mv_sound_in_base: what the property says; an answer also implies the guard
   base ⊇ extension of the intent *)
Theorem C18_mv_sound_in_base : forall fuel K intent bg base pti pstart l,
  let bo := default (seq 0 (mv_n K)) base in
  in_range (mv_n K) bo ->
  mv_get_minimal_generators fuel K intent bg base pti pstart = MOk l ->
  incl (mv_ext_spec K intent (seq 0 (mv_n K))) bo /\
  forall d, In d l -> same_set (mv_ext_spec K d bo) (mv_ext_spec K intent bo).
Proof. exact mv_sound_in_base. Qed.
Print Assumptions C18_mv_sound_in_base.

(* the by-name entry point: names are resolved through the pattern structures' OWN names (the
   order of the `pattern_types` dict, which need not be the order of attribute_names), and the
   answer is the by-index answer re-keyed by those names; so C18_mv_sound / C18_mv_sound_in_base
   speak about it too *)
Theorem C18_mv_named_is_renamed_index : forall fuel K snames onames intent bg base pti pstart l,
  mv_get_minimal_generators_named fuel K snames onames intent bg base pti pstart = MOk l ->
  exists l',
    mv_get_minimal_generators fuel K (by_struct_names snames intent)
      (match bg with Some d => Some (by_struct_names snames d) | None => None end)
      (match base with Some b => Some (idx_of_names onames b) | None => None end)
      (match pti with Some p => Some (map (name_to_ps snames) p) | None => None end) pstart = MOk l' /\
    l = map (rename_dd snames) l'.
Proof. exact mv_named_is_renamed_index. Qed.
Print Assumptions C18_mv_named_is_renamed_index.

Theorem C18_by_struct_names_full : forall (snames : list nat) (f : nat -> descr),
  NoDup snames ->
  by_struct_names snames (map (fun ps => (nth ps snames 0, f ps)) (seq 0 (length snames)))
  = map (fun ps => (ps, f ps)) (seq 0 (length snames)).
Proof. exact by_struct_names_full. Qed.
Print Assumptions C18_by_struct_names_full.

(* the observation behind the non-termination: when the base objects miss a part of the intent's
   extension, no amount of fuel produces an answer (the code's `while` never exits) *)
Theorem C18_mv_no_answer_outside_guard : forall fuel K intent bg base pti pstart,
  let bo := default (seq 0 (mv_n K)) base in
  in_range (mv_n K) bo ->
  ~ incl (mv_ext_spec K intent (seq 0 (mv_n K))) bo ->
  forall l, mv_get_minimal_generators fuel K intent bg base pti pstart <> MOk l.
Proof. exact mv_no_answer_outside_guard. Qed.
Print Assumptions C18_mv_no_answer_outside_guard.

(* generators_by_intent_difference (the approximate route of get_conditional_generators): every
   returned description constrains ONE column, and among the values inside the old interval it
   selects exactly those inside the new one; nothing is returned for a column iff it did not change *)
Theorem C18_ps_gens_by_diff_sound : forall nlo nhi olo ohi gs,
  bleb olo nlo = true -> bleb nhi ohi = true -> bleb nlo nhi = true ->
  ps_gens_by_diff (DIv nlo nhi) (DIv olo ohi) = ROk gs ->
  (gs = [] <-> (olo = nlo /\ ohi = nhi)) /\
  forall g v, In g gs -> within v olo ohi = true -> sat_val g v = within v nlo nhi.
Proof. exact ps_gens_by_diff_sound. Qed.
Print Assumptions C18_ps_gens_by_diff_sound.

Theorem C18_generators_by_intent_difference_sound : forall K new old l,
  generators_by_intent_difference K new old = ROk l ->
  forall d, In d l ->
    exists ps g gs, ps < length (mv_cols K) /\ d = [(ps, g)] /\
                    ps_gens_by_diff (dd_get new ps) (dd_get old ps) = ROk gs /\ In g gs.
Proof. exact generators_by_intent_difference_sound. Qed.
Print Assumptions C18_generators_by_intent_difference_sound.

(* termination inside the guard (partial): IntervalPS columns, at least one column, an intent that
   gives every column an interval with finite end points lo <= hi, increasing duplicate-free base
   objects containing the intent's extension, no base generator, every column iterated, default
   first projection: three rounds of the outer loop produce an answer. *)
Theorem C18_mv_termination_partial : forall K lo hi base,
  let bo := default (seq 0 (mv_n K)) base in
  mv_numpy K = false ->
  1 <= length (mv_cols K) ->
  (forall ps, (lo ps <= hi ps)%Z) ->
  bo = filter (fun g => mem g bo) (seq 0 (mv_n K)) ->
  incl (mv_ext_spec K (full_intent K lo hi) (seq 0 (mv_n K))) bo ->
  exists l, mv_get_minimal_generators 3 K (full_intent K lo hi) None base None 1 = MOk l.
Proof. exact mv_terminates. Qed.
Print Assumptions C18_mv_termination_partial.

(* the full statement, NOT proved: the same for intents that may also hold None (bottom concept),
   a bare number or infinite end points on some columns.  (Outside the guard
   C18_mv_no_answer_outside_guard shows that no number of rounds gives an answer.) *)
Definition mv_termination_statement : Prop :=
  forall K intent base,
    let bo := default (seq 0 (mv_n K)) base in
    mv_numpy K = false ->
    1 <= length (mv_cols K) ->
    bo = filter (fun g => mem g bo) (seq 0 (mv_n K)) ->
    map fst intent = seq 0 (length (mv_cols K)) ->
    incl (mv_ext_spec K intent (seq 0 (mv_n K))) bo ->
    (forall ps lo hi, In (ps, DIv lo hi) intent -> bleb lo hi = true) ->
    exists l, mv_get_minimal_generators 3 K intent None base None 1 = MOk l.

(* Non-vacuity. *)
Definition ex_t : table :=
  [[true; true; false; true]; [true; false; true; true]; [true; true; true; false]].
Example C18_nonvacuous_formal :
  wf ex_t /\ in_range (height ex_t) [0; 1; 2] /\ in_range (width ex_t) [2] /\ NoDup [2] /\
  get_minimal_generators_i BBitarray ex_t [0; 1; 2] None (Some [0; 1; 2]) = [[1; 2]] /\
  get_minimal_generators_i BBitarray ex_t [0; 1; 2] None (Some [0; 2]) = [[2]] /\
  get_minimal_generators_i BBitarray ex_t [0; 1; 2; 3] (Some [2]) (Some [0; 1; 2]) = [[1; 2; 3]] /\
  get_minimal_generators_i BBitarray ex_t [0; 1; 2] None None = [[1; 2]] /\
  mingens_spec ex_t [0; 1; 2] [] [0; 1; 2] = [[1; 2]].
Proof.
  split; [repeat constructor|].
  split; [intros x Hx; vm_compute; repeat (destruct Hx as [<-|Hx]; [lia|]); destruct Hx|].
  split; [intros x [<-|[]]; vm_compute; lia|].
  split; [repeat constructor; intros []|].
  repeat split; vm_compute; reflexivity.
Qed.

Definition ex_K : mvctx :=
  Build_mvctx [[(1, 1); (2, 2); (2, 2); (3, 3)]%Z; [(5, 5); (5, 5); (7, 7); (1, 1)]%Z] 4 false.
Definition ex_intent : ddict := [(0, DIv (Fin 1) (Fin 2)); (1, DIv (Fin 5) (Fin 5))].
Example C18_nonvacuous_mv :
  mv_get_minimal_generators 3 ex_K ex_intent None None None 1
    = MOk [[(1, DNum (Fin 5))]; [(0, DIv NegInf (Fin 2)); (1, DIv NegInf (Fin 5))]] /\
  mv_get_minimal_generators 3 ex_K ex_intent None (Some [0; 1; 2]) None 1
    = MOk [[(1, DIv NegInf (Fin 5))]] /\
  (* base objects that miss object 1 of the extension {0, 1}: no answer *)
  mv_get_minimal_generators 3 ex_K ex_intent None (Some [0; 2; 3]) None 1 = MOutOfFuel.
Proof. repeat split; vm_compute; reflexivity. Qed.

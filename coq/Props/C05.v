(* Props/C05.v — property C05: the three registered binary-table back-ends (lists, numpy,
   bitarray) are observationally interchangeable.  Only statements; proofs are in
   Lemmas/C05_*.v.  [b] ranges over the three back-end models of Model/BinTable.v and
   Model/BinTableOps.v; the right-hand sides are the back-end-free specs of
   Spec/BinTableOpsSpec.v (select rows, then columns, then fold).

   Hypotheses: [wf t] (rectangular) and selections in range ([red_ok], [item_ok], [ok_op]) —
   they may be unsorted and may repeat an index; only sums over a column selection along axis
   None / 1 need it duplicate-free ([sum_ok]: the bitarray back-end counts through a mask).
   [proper t] additionally asks for at least one row and one column. *)
From FCA Require Import Base.ListSet Model.BinTable Model.BinTableOps Model.FormalContext
     Spec.Galois Spec.BinTableOpsSpec
     Lemmas.C05_Base Lemmas.C05_Reduce Lemmas.C05_Algebra Lemmas.C05_GetItem.

(* ------------------------------------------------------------ reductions *)

Theorem C05_all_correct : forall b t axis rows cols,
  wf t -> red_ok t rows cols ->
  all_op b t axis rows cols
  = if axis_ok axis then ROk (S_all t axis (rows_or t rows) (cols_or t cols)) else RErr E_Type.
Proof. exact all_op_correct. Qed.
Print Assumptions C05_all_correct.

Theorem C05_any_correct : forall b t axis rows cols,
  wf t -> red_ok t rows cols ->
  any_op b t axis rows cols
  = if axis_ok axis then ROk (S_any t axis (rows_or t rows) (cols_or t cols)) else RErr E_Type.
Proof. exact any_op_correct. Qed.
Print Assumptions C05_any_correct.

Theorem C05_sum_correct : forall b t axis rows cols,
  wf t -> red_ok t rows cols -> sum_ok axis cols ->
  sum_op b t axis rows cols
  = if axis_ok axis then ROk (S_sum t axis (rows_or t rows) (cols_or t cols)) else RErr E_Type.
Proof. exact sum_op_correct. Qed.
Print Assumptions C05_sum_correct.

Theorem C05_all_i_correct : forall b t axis rows cols,
  wf t -> red_ok t rows cols ->
  all_i_op b t axis rows cols
  = if axis_ok (Some axis) then ROk (S_all_i t axis (rows_or t rows) (cols_or t cols)) else RErr E_Type.
Proof. exact all_i_correct. Qed.
Print Assumptions C05_all_i_correct.

Theorem C05_any_i_correct : forall b t axis rows cols,
  wf t -> red_ok t rows cols ->
  any_i_op b t axis rows cols
  = if axis_ok (Some axis) then ROk (S_any_i t axis (rows_or t rows) (cols_or t cols)) else RErr E_Type.
Proof. exact any_i_correct. Qed.
Print Assumptions C05_any_i_correct.

(* ------------------------------------------------------------ T, ~, &, |, == *)

Theorem C05_T_correct : forall b t, T_m b t = S_T t.
Proof. exact T_m_correct. Qed.
Print Assumptions C05_T_correct.

(* what S_T means: a rectangular w x h table whose (j, i) cell is the (i, j) cell; an involution *)
Theorem C05_T_cells : forall t i j, i < height t -> j < width t -> cell (S_T t) j i = cell t i j.
Proof. exact cell_S_T. Qed.
Print Assumptions C05_T_cells.

Theorem C05_T_involutive : forall t, wf t -> 0 < height t -> 0 < width t -> S_T (S_T t) = t.
Proof. exact S_T_involutive. Qed.
Print Assumptions C05_T_involutive.

Theorem C05_invert_correct : forall b t, wf t -> invert_m b t = S_invert t.
Proof. exact invert_m_correct. Qed.
Print Assumptions C05_invert_correct.

Theorem C05_invert_cells : forall t i j,
  i < height t -> j < width t -> cell (S_invert t) i j = negb (cell t i j).
Proof. exact cell_S_invert. Qed.
Print Assumptions C05_invert_cells.

Theorem C05_and_correct : forall b t u, wf t -> wf u ->
  and_m b t u = if same_shape t u then ROk (S_pointwise andb t u) else RErr E_Assertion.
Proof. exact and_m_correct. Qed.
Print Assumptions C05_and_correct.

Theorem C05_or_correct : forall b t u, wf t -> wf u ->
  or_m b t u = if same_shape t u then ROk (S_pointwise orb t u) else RErr E_Assertion.
Proof. exact or_m_correct. Qed.
Print Assumptions C05_or_correct.

Theorem C05_pointwise_cells : forall f t u i j,
  i < height t -> j < width t -> cell (S_pointwise f t u) i j = f (cell t i j) (cell u i j).
Proof. exact cell_S_pointwise. Qed.
Print Assumptions C05_pointwise_cells.

Theorem C05_eq_correct : forall b t u, wf t -> wf u -> 0 < height t -> eq_m b t u = table_eqb t u.
Proof. exact eq_m_correct. Qed.
Print Assumptions C05_eq_correct.

Theorem C05_eq_decides : forall t u, table_eqb t u = true <-> t = u.
Proof. exact table_eqb_eq. Qed.
Print Assumptions C05_eq_decides.

(* ------------------------------------------------------------ __getitem__, nine forms *)

Theorem C05_getitem_correct : forall b t it,
  wf t -> item_ok t it -> getitem b t it = ROk (S_get t it).
Proof. exact getitem_correct. Qed.
Print Assumptions C05_getitem_correct.

(* ------------------------------------------------------------ conversion *)

Theorem C05_conversion_preserves : forall b1 b2 t via, t <> [] ->
  rbind (init_bintable b1 t via (Some b2)) (fun cd => to_list_m (fst cd) (snd cd)) = ROk t
  /\ rbind (init_bintable b1 t via (Some b2)) (fun cd => ROk (fst cd)) = ROk b2.
Proof. exact conversion_preserves. Qed.
Print Assumptions C05_conversion_preserves.

(* ------------------------------------------------------------ FormalContext wrappers *)

Theorem C05_ctx_getitem_correct : forall b t on an it,
  wf t -> item_ok t it -> length on = height t -> length an = width t ->
  spec_applies t (OCtxGet on an it) = true ->
  ctx_getitem b t on an it = ROk (S_ctx_get t on an it).
Proof. exact ctx_getitem_correct. Qed.
Print Assumptions C05_ctx_getitem_correct.

Theorem C05_ctx_T_correct : forall b t on an,
  length on = height t -> length an = width t -> 0 < width t ->
  ctx_T b t on an = ROk (VCtx (height (S_T t)) (width (S_T t)) (S_T t) an on).
Proof. exact ctx_T_correct. Qed.
Print Assumptions C05_ctx_T_correct.

Theorem C05_ctx_invert_correct : forall b t on an,
  wf t -> length on = height t -> length an = width t -> 0 < height t ->
  ctx_invert b t on an = ROk (VCtx (height (S_invert t)) (width (S_invert t)) (S_invert t) on an).
Proof. exact ctx_invert_correct. Qed.
Print Assumptions C05_ctx_invert_correct.

Theorem C05_ctx_extents_correct : forall b t an,
  ctx_extents b t an
  = ROk (VExt (map (fun jm => (snd jm, map (fun i => cell t i (fst jm)) (rows_of t)))
                   (combine (seq 0 (length an)) an))).
Proof. exact ctx_extents_correct. Qed.
Print Assumptions C05_ctx_extents_correct.

(* the derivation operators of C01 do not depend on the back-end either *)
Theorem C05_context_backend_free : forall b1 b2 t A base,
  wf t ->
  (in_range (width t) A -> opt_in_range (height t) base ->
   extension_i b1 t A base = extension_i b2 t A base) /\
  (in_range (height t) A -> opt_in_range (width t) base ->
   intention_i b1 t A base = intention_i b2 t A base) /\
  (in_range (width t) A -> opt_in_range (height t) base -> length A <> width t ->
   extension_monotone_i b1 t A base = extension_monotone_i b2 t A base) /\
  (in_range (height t) A -> NoDup A -> opt_in_range (width t) base ->
   intention_monotone_i b1 t A base = intention_monotone_i b2 t A base).
Proof. exact context_backend_free. Qed.
Print Assumptions C05_context_backend_free.

(* ------------------------------------------------------------ every operation at once *)

(* [run_op b t o] is the model of operation [o] (all 23 kinds, arguments included) on back-end
   [b]; [spec_op t o] its back-end-free meaning.  [spec_applies] is false only where the property
   does not say what the answer is (init_bintable(table,'auto'), a context cut by one index and
   one selection, a context with columns but no rows: every back-end raises there). *)
Theorem C05_run_op_correct : forall b t o,
  proper t -> ok_op t o -> spec_applies t o = true ->
  run_op b t o = spec_op t o.
Proof. exact run_op_correct. Qed.
Print Assumptions C05_run_op_correct.

Theorem C05_unconstrained_agree : forall b1 b2 t o,
  proper t -> ok_op t o -> spec_applies t o = false -> run_op b1 t o = run_op b2 t o.
Proof. exact run_op_unconstrained_agree. Qed.
Print Assumptions C05_unconstrained_agree.

(* The property at full strength: any two back-ends give the same answer (a value or the same
   kind of exception) to every operation with in-range, duplicate-free selections.  (Defect D51,
   which refuted it, was repaired by commit d05edc7; the model is of the repaired code.) *)
Theorem C05_backends_interchangeable : forall b1 b2 t o,
  proper t -> ok_op t o -> run_op b1 t o = run_op b2 t o.
Proof. exact backends_interchangeable. Qed.
Print Assumptions C05_backends_interchangeable.

(* an empty row selection answers the empty table on every back-end (regression of D51) *)
Theorem C05_empty_row_selection : forall b t,
  run_op b t (OGet (ItSel (SList []))) = ROk (VTable 0 0 []).
Proof. exact empty_row_selection. Qed.
Print Assumptions C05_empty_row_selection.

(* outside the quantifier, and why: a sum over a column selection that repeats an index (axis
   None / 1) is answered differently by the bitarray back-end, in the code as in its model *)
Theorem C05_sum_repeated_columns_differ :
  run_op BLists [[true]] (OSum None None (Some [0; 0])) = ROk (VNat 2) /\
  run_op BNumpy [[true]] (OSum None None (Some [0; 0])) = ROk (VNat 2) /\
  run_op BBitarray [[true]] (OSum None None (Some [0; 0])) = ROk (VNat 1).
Proof. exact sum_repeated_columns_differ. Qed.
Print Assumptions C05_sum_repeated_columns_differ.

(* ------------------------------------------------------------ non-vacuity *)

Definition ex5 : table := [[true; false; true]; [false; true; true]; [true; true; false]].

Example C05_nonvacuous :
  proper ex5 /\
  ok_op ex5 (OSum (Some 0) (Some [2; 0]) (Some [1; 2])) /\
  ok_op ex5 (OGet (ItPair (XSel (SSlice [2; 1; 0])) (XSel (SList [2; 0])))) /\
  ok_op ex5 (OCtxGet [7; 8; 9] [4; 5; 6] (ItPair (XSel (SList [1; 2])) (XSel (SSlice [0; 2])))) /\
  ok_op ex5 (OAllI 1 (Some [2; 0; 2]) (Some [0; 0; 1])) /\
  run_op BBitarray ex5 (OAllI 1 (Some [2; 0; 2]) (Some [0; 0; 1])) = ROk (VNats [2; 2]) /\
  run_op BBitarray ex5 (OSum (Some 0) (Some [2; 0]) (Some [1; 2])) = ROk (VNats [1; 1]) /\
  run_op BNumpy ex5 (OGet (ItPair (XSel (SSlice [2; 1; 0])) (XSel (SList [2; 0]))))
    = ROk (VTable 3 2 [[false; true]; [true; false]; [true; true]]) /\
  run_op BLists ex5 (OCtxGet [7; 8; 9] [4; 5; 6] (ItPair (XSel (SList [1; 2])) (XSel (SSlice [0; 2]))))
    = ROk (VCtx 2 2 [[false; true]; [true; false]] [8; 9] [4; 6]).
Proof.
  assert (R3 : forall l, (forall x, In x l -> x < 3) -> in_range 3 l) by (intros l H; exact H).
  repeat split; try (vm_compute; reflexivity); try (vm_compute; lia);
    try (repeat constructor; simpl; intuition lia);
    try (intros x Hx; simpl in Hx; vm_compute; intuition lia).
Qed.

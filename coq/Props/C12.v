(* Props/C12.v — property C12: every order-construction routine computes exactly the cover
   relation.  Only theorem statements; proofs are in Lemmas/C12*.v.

   A list of concepts is seen by the routines through three functions of the concept indexes
   0..n-1 (Model/OrderConstruction.v): the comparison [lt i j] (concept i < concept j), the
   sort position [rank i] (the index itself when is_concepts_sorted=True) and the support
   [size i].  The hypotheses are those of "a list of distinct concepts of one context with a
   greatest and a least one": [strict_order lt n], [rank] and [size] compatible with [lt],
   [is_top]/[is_bottom].  They hold for complete concept sets and for any sub-list keeping top
   and bottom (no closure under intersection is assumed), in any listing order.
   The cover relation by definition is Spec/Covers.v. *)
From Coq Require Import Permutation.
From FCA Require Import Model.OrderConstruction Spec.Covers Lemmas.C12Order Lemmas.C12cc
  Lemmas.C12add Lemmas.C12fuel Lemmas.C12rem Lemmas.C12sweep Lemmas.C12par Lemmas.C12tree Lemmas.C12inst Lemmas.C12seq Lemmas.C12conc.

(* ---- complete_comparison, unsorted and sorted mode *)
Theorem C12_complete_comparison_covers : forall lt n, strict_order lt n -> forall a, a < n ->
  complete_comparison lt n false a = lower_covers lt n a.
Proof. exact complete_comparison_covers. Qed.
Print Assumptions C12_complete_comparison_covers.

Theorem C12_complete_comparison_sorted : forall lt n, strict_order lt n -> forall a,
  (forall i j, i < n -> j < n -> lt i j = true -> j < i) -> a < n ->
  complete_comparison lt n true a = lower_covers lt n a.
Proof. exact complete_comparison_sorted. Qed.
Print Assumptions C12_complete_comparison_sorted.

(* ---- add_concept: the new concept has index n; [rel_ok] (Lemmas/C12add.v) says that the
   returned dictionaries are the lower / upper covers of the enlarged list and the returned
   indexes its top and bottom.  Proved for every enumeration order [enum] of a Python set (any
   permutation); the fuel the model gives to the two queue loops always suffices. *)
Theorem C12_add_concept_ok : forall lt size n enum,
  (forall l, Permutation (enum l) l) ->
  strict_order lt (S n) ->
  (forall i j, i <= n -> j <= n -> lt i j = true -> size i < size j) ->
  2 <= n ->
  forall t0 b0, is_top lt n t0 -> is_bottom lt n b0 ->
  (lt t0 n = true \/ lt n t0 = true) -> (lt n b0 = true \/ lt b0 n = true) ->
  forall sub sup,
  (forall i, i < n -> forall x, In x (sub i) <-> In x (lower_covers lt n i)) ->
  (forall i, i < n -> forall x, In x (sup i) <-> In x (upper_covers lt n i)) ->
  forall top bottom, (top = None \/ top = Some t0) -> (bottom = None \/ bottom = Some b0) ->
  exists r, add_concept lt size n enum sub sup top bottom = Done r /\ rel_ok lt n r.
Proof. exact add_concept_total. Qed.
Print Assumptions C12_add_concept_ok.

(* ---- remove_concept of a concept that is neither top nor bottom: [rem_ok] says that the
   result is the cover relation, top and bottom of the list without concept i, re-indexed *)
Theorem C12_remove_concept_ok : forall lt size n enum,
  (forall l x, In x (enum l) <-> In x l) ->
  strict_order lt n ->
  (forall i j, i < n -> j < n -> lt i j = true -> size i < size j) ->
  3 <= n ->
  forall t0 b0 i, is_top lt n t0 -> is_bottom lt n b0 -> i < n -> i <> t0 -> i <> b0 ->
  forall sub sup,
  (forall c, c < n -> forall x, In x (sub c) <-> In x (lower_covers lt n c)) ->
  (forall c, c < n -> forall x, In x (sup c) <-> In x (upper_covers lt n c)) ->
  NoDup (sup i) -> NoDup (sub i) ->
  forall top bottom, (top = None \/ top = Some t0) -> (bottom = None \/ bottom = Some b0) ->
  exists r, remove_concept lt size n enum i sub sup top bottom = Done r /\ rem_ok lt n i r.
Proof. exact remove_concept_ok. Qed.
Print Assumptions C12_remove_concept_ok.

(* ---- construct_spanning_tree: [tree_ok] (Lemmas/C12tree.v): the top has no parent, every
   other concept exactly one, a strict super-concept; the children dictionary is the transposed
   parents dictionary.  For every iteration order [enum] of the children sets. *)
Theorem C12_spanning_tree_ok : forall lt rank n,
  strict_order lt n ->
  (forall i j, i < n -> j < n -> lt i j = true -> rank j < rank i) ->
  forall t, is_top lt n t ->
  forall enum, (forall l x, In x (enum l) <-> In x l) ->
  exists sub sup, spanning_tree lt rank n enum = Done (sub, sup) /\ tree_ok lt n t sub sup.
Proof. exact spanning_tree_ok. Qed.
Print Assumptions C12_spanning_tree_ok.

(* ---- ConceptLattice._get_chains on such a tree: chains from the top, strictly descending,
   containing every concept *)
Theorem C12_chains_ok : forall lt rank n,
  strict_order lt n ->
  forall t, (forall c, c < n -> (rank c = 0 <-> c = t)) ->
  forall sub sup, tree_ok lt n t sub sup ->
  exists chs, get_chains rank n sup = Done chs /\
    (forall ch, In ch chs -> valid_chain lt n t ch) /\
    (forall i, i < n -> exists ch, In ch chs /\ In i ch).
Proof. exact chains_ok. Qed.
Print Assumptions C12_chains_ok.

(* ---- construct_lattice_from_spanning_tree: for ANY family of chains that start at the top,
   descend strictly and together contain every concept (in particular those of a spanning tree) *)
Theorem C12_from_spanning_tree_covers : forall lt rank n,
  strict_order lt n ->
  (forall i j, i < n -> j < n -> lt i j = true -> rank j < rank i) ->
  forall t, is_top lt n t ->
  forall chains, (forall ch, In ch chains -> valid_chain lt n t ch) ->
  (forall i, i < n -> exists ch, In ch chains /\ In i ch) ->
  forall y, y < n -> same_set (from_spanning_tree lt rank n chains y) (lower_covers lt n y).
Proof. exact from_spanning_tree_covers. Qed.
Print Assumptions C12_from_spanning_tree_covers.

(* ---- the parallel variant, threads of a chunk run one after the other: for every number of
   jobs (chunk size) k >= 1 it IS the sequential routine *)
Theorem C12_jobs_irrelevant : forall lt rank n k chains, 1 <= k ->
  from_spanning_tree_parallel lt rank n k chains = from_spanning_tree lt rank n chains.
Proof. exact jobs_irrelevant. Qed.
Print Assumptions C12_jobs_irrelevant.

(* ---- construct_lattice_by_spanning_tree = tree + chains + sweep, sequential (k = None) or
   chunked with any number of jobs: the cover relation *)
Theorem C12_by_spanning_tree_covers : forall lt rank n t enum k,
  strict_order lt n ->
  (forall i j, i < n -> j < n -> lt i j = true -> rank j < rank i) ->
  is_top lt n t -> (forall c, c < n -> (rank c = 0 <-> c = t)) ->
  (forall l x, In x (enum l) <-> In x l) ->
  (match k with Some j => 1 <= j | None => True end) ->
  exists m, by_spanning_tree lt rank n enum k = Done m /\
            forall y, y < n -> same_set (m y) (lower_covers lt n y).
Proof. exact by_spanning_tree_covers. Qed.
Print Assumptions C12_by_spanning_tree_covers.

(* ---- the instance for a list of extents [cs] (duplicate-free index lists; complete or not):
   AbstractConcept.__lt__ is a strict order, the sort_concepts position and the support are
   compatible with it, and the routines return the covers of STRICT INCLUSION *)
Theorem C12_extents_instance : forall cs, wf_exts cs ->
  strict_order (cs_lt cs) (length cs) /\
  (forall i j, i < length cs -> j < length cs -> cs_lt cs i j = incl_lt cs i j) /\
  (forall i j, i < length cs -> j < length cs -> cs_lt cs i j = true -> cs_size cs i < cs_size cs j) /\
  (forall i j, i < length cs -> j < length cs -> cs_lt cs i j = true ->
               cs_rank cs false j < cs_rank cs false i) /\
  (forall t, is_top (cs_lt cs) (length cs) t ->
             forall c, c < length cs -> (cs_rank cs false c = 0 <-> c = t)).
Proof.
  intros cs H. split; [apply cs_strict_order; exact H|]. split; [apply cs_lt_incl_lt; exact H|].
  split; [apply cs_size_compat; exact H|]. split; [apply cs_rank_compat; exact H | apply cs_rank_zero; exact H].
Qed.
Print Assumptions C12_extents_instance.

Theorem C12_by_spanning_tree_extents : forall cs, wf_exts cs -> forall t enum k,
  is_top (cs_lt cs) (length cs) t -> (forall l x, In x (enum l) <-> In x l) ->
  (match k with Some j => 1 <= j | None => True end) ->
  exists m, by_spanning_tree (cs_lt cs) (cs_rank cs false) (length cs) enum k = Done m /\
            forall y, y < length cs -> same_set (m y) (lower_covers (incl_lt cs) (length cs) y).
Proof. exact by_spanning_tree_extents. Qed.
Print Assumptions C12_by_spanning_tree_extents.

(* is_concepts_sorted=True: [rank] is the index; the hypothesis on the listing is "topological"
   (forall i j, lt i j -> j listed before i), nothing about supports *)
Theorem C12_by_spanning_tree_extents_sorted : forall cs, wf_exts cs -> forall t enum k,
  is_top (cs_lt cs) (length cs) t ->
  (forall i j, i < length cs -> j < length cs -> cs_lt cs i j = true -> j < i) ->
  (forall l x, In x (enum l) <-> In x l) ->
  (match k with Some j => 1 <= j | None => True end) ->
  exists m, by_spanning_tree (cs_lt cs) (cs_rank cs true) (length cs) enum k = Done m /\
            forall y, y < length cs -> same_set (m y) (lower_covers (incl_lt cs) (length cs) y).
Proof. exact by_spanning_tree_extents_sorted. Qed.
Print Assumptions C12_by_spanning_tree_extents_sorted.

Theorem C12_complete_comparison_extents_sorted : forall cs, wf_exts cs -> forall a,
  (forall i j, i < length cs -> j < length cs -> cs_lt cs i j = true -> j < i) -> a < length cs ->
  complete_comparison (cs_lt cs) (length cs) true a = lower_covers (incl_lt cs) (length cs) a.
Proof. exact complete_comparison_extents_sorted. Qed.
Print Assumptions C12_complete_comparison_extents_sorted.

Theorem C12_complete_comparison_extents : forall cs, wf_exts cs -> forall a, a < length cs ->
  complete_comparison (cs_lt cs) (length cs) false a = lower_covers (incl_lt cs) (length cs) a.
Proof. exact complete_comparison_extents. Qed.
Print Assumptions C12_complete_comparison_extents.

(* ---- arbitrary interleavings of the threads' atomic loop iterations (also incomplete ones): the
   three shared sets stay sound ([Sound]: candidates and all_superconcepts hold only strict
   super-concepts, incomparables only non-super-concepts) whatever the schedule ... *)
Theorem C12_schedule_sound : forall lt rank n,
  strict_order lt n ->
  (forall i j, i < n -> j < n -> lt i j = true -> rank j < rank i) ->
  forall t c, c < n ->
  forall sched ts l, Sound lt n t c l -> Forall (TI lt n t c) ts ->
  let '(ts', l') := run_schedule lt rank c sched ts l in
  Sound lt n t c l' /\ Forall (TI lt n t c) ts' /\ grows l l'.
Proof. intros lt rank n SO Hrank t c Hc. exact (schedule_sound lt rank n Hrank t c Hc). Qed.
Print Assumptions C12_schedule_sound.

(* ... the threads the routine starts satisfy the thread invariant [TI] ... *)
Theorem C12_spawn_invariant : forall lt n t c, c < n -> forall ch start, valid_chain lt n t ch ->
  (forall x, In x (firstn start ch) -> U lt n c x) -> TI lt n t c (spawn ch start).
Proof. exact spawn_TI. Qed.
Print Assumptions C12_spawn_invariant.

(* ... and sound sets are enough for the final filtering loop to return only strict
   super-concepts and never to drop a true cover that is among the candidates *)
Theorem C12_filter_sound : forall lt rank n,
  strict_order lt n ->
  (forall i j, i < n -> j < n -> lt i j = true -> rank j < rank i) ->
  forall g c, c < n ->
  (forall x, In x (g_S g c) -> U lt n c x) ->
  (forall z y, z < n -> In y (g_A g z) -> U lt n z y) ->
  (forall x, In x (final_sups rank g c) -> U lt n c x) /\
  (forall x, In x (g_S g c) -> In x (upper_covers lt n c) -> In x (final_sups rank g c)).
Proof. exact filter_sound. Qed.
Print Assumptions C12_filter_sound.

(* the interleaving model contains the sequential routine: the schedule that lets every thread of
   a chunk run to completion in turn computes exactly scan_chains (sets and resume pointers) *)
Theorem C12_seq_schedule_is_scan : forall lt rank c chs ptrs l, length ptrs = length chs ->
  let '(ts', l') := run_schedule lt rank c (seq_schedule 0 chs) (spawn_all chs ptrs) l in
  let '(l2, ptrs2) := scan_chains lt rank c chs ptrs l in
  l' = l2 /\ map t_start ts' = ptrs2 /\ all_done ts' = true.
Proof. exact seq_schedule_scan. Qed.
Print Assumptions C12_seq_schedule_is_scan.

(* ---- EVERY complete interleaving: [from_spanning_tree_conc oracle k chains] is the chunked sweep in
   which, for concept c and chunk j, the threads take their atomic steps in the order [oracle c j]
   and whatever is left unfinished is then run to completion (every complete schedule has this
   form, because steps of finished threads change nothing).  Whatever the oracle and the number
   of jobs, the result is the cover relation: soundness AND completeness. *)
Theorem C12_schedule_complete : forall lt rank n,
  strict_order lt n ->
  (forall i j, i < n -> j < n -> lt i j = true -> rank j < rank i) ->
  forall t, is_top lt n t ->
  forall chains, (forall ch, In ch chains -> valid_chain lt n t ch) ->
  (forall i, i < n -> exists ch, In ch chains /\ In i ch) ->
  forall oracle k, 1 <= k -> forall y, y < n ->
  same_set (from_spanning_tree_conc lt rank n oracle k chains y) (lower_covers lt n y).
Proof. exact schedule_complete. Qed.
Print Assumptions C12_schedule_complete.

(* construct_lattice_by_spanning_tree with n_jobs > 1 under every schedule: tree, chains, then
   the concurrent sweep *)
Theorem C12_by_spanning_tree_any_schedule : forall lt rank n t enum,
  strict_order lt n ->
  (forall i j, i < n -> j < n -> lt i j = true -> rank j < rank i) ->
  is_top lt n t -> (forall c, c < n -> (rank c = 0 <-> c = t)) ->
  (forall l x, In x (enum l) <-> In x l) ->
  exists sub sup chs, spanning_tree lt rank n enum = Done (sub, sup) /\ get_chains rank n sup = Done chs /\
    forall oracle k, 1 <= k -> forall y, y < n ->
    same_set (from_spanning_tree_conc lt rank n oracle k chs y) (lower_covers lt n y).
Proof.
  intros lt rank n t enum SO Hrank Ht Hrank0 Henum.
  destruct (spanning_tree_ok lt rank n SO Hrank t Ht enum Henum) as [sub [sup [E1 Htree]]].
  destruct (chains_ok lt rank n SO t Hrank0 sub sup Htree) as [chs [E2 [Hv Hcov]]].
  exists sub, sup, chs. split; [exact E1|]. split; [exact E2|].
  intros oracle k Hk y Hy. apply (schedule_complete lt rank n SO Hrank t Ht chs Hv Hcov oracle k Hk y Hy).
Qed.
Print Assumptions C12_by_spanning_tree_any_schedule.

(* Non-vacuity: the pruned list {0}, {0,1,2}, {}, {2}, {0,1} of extents of a 3-object context
   (a sub-list of its concepts that keeps top and bottom, listed in shuffled order) meets the
   hypotheses, and the routines compute its (non-trivial) cover relation. *)
Definition ex_cs : list (list nat) := [[0]; [0; 1; 2]; []; [2]; [0; 1]].
Example C12_nonvacuous :
  let lt := cs_lt ex_cs in let rank := cs_rank ex_cs false in
  wf_exts ex_cs /\ strict_order lt 5 /\ is_top lt 5 1 /\ is_bottom lt 5 2 /\
  (forall i j, i < 5 -> j < 5 -> lt i j = true -> rank j < rank i) /\
  tabulate 5 (complete_comparison lt 5 false) = [[2]; [3; 4]; []; [2]; [0]] /\
  tabulate 5 (lower_covers lt 5) = [[2]; [3; 4]; []; [2]; [0]] /\
  by_spanning_tree lt rank 5 (fun l => l) None <> OutOfFuel /\
  (match by_spanning_tree lt rank 5 (fun l => l) (Some 2) with
   | Done m => tabulate 5 m | _ => [] end) = [[2]; [3; 4]; []; [2]; [0]].
Proof.
  cbv zeta.
  split.
  { intros i Hi. change (length ex_cs) with 5 in Hi.
    do 5 (destruct i as [|i]; [vm_compute; repeat constructor; simpl; intuition congruence|]). lia. }
  split; [apply strict_orderb_spec; vm_compute; reflexivity|].
  split; [apply is_topb_spec; vm_compute; reflexivity|].
  split; [apply is_bottomb_spec; vm_compute; reflexivity|].
  split.
  { intros i j Hi Hj.
    do 5 (destruct i as [|i]; [do 5 (destruct j as [|j]; [vm_compute; intros; try discriminate; lia|]); lia|]). lia. }
  split; [vm_compute; reflexivity|]. split; [vm_compute; reflexivity|].
  split; [vm_compute; discriminate | vm_compute; reflexivity].
Qed.

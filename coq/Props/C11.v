(* Props/C11.v — property C11: semilattices and lattices keep a unique top / bottom element;
   incremental construction equals batch construction.  Theorem statements only; proofs are in
   Lemmas/C11.v (on top of the C09 development, Lemmas/C09*.v).

   [E] is any carrier with a partial-order comparison [leq] and a decidable equality [eqb]
   (record partial_order of Spec/PosetSpec.v).  Model/PosetLattice.v is the transcription of
   fcapy/poset/lattice.py (UpperSemiLattice, LowerSemiLattice, Lattice with the Python MRO
   Upper -> Lower -> POSet) on top of the POSet machine of Model/Poset.v:
   [sl_state] = the POSet state [ps] + the class [kind] + the cached indexes [c_top]/[c_bot];
   [sl_make k l uc cd] = the constructor (None = ValueError);  [sl_step sl o] = one public call
   ([SP q] = the POSet call q as overridden by the class, [SExt true/false] = .top/.bottom);
   [sl_spec_step k l uc o] = the cache-free meaning on the bare element list: the extreme
   index is [spec_ext l up] = the first maximal/minimal index, an add is refused (ValueError,
   [OErr EValue]) unless the element is comparable with every extreme element the class has,
   a delete of an extreme index is refused (KeyError, [OErr EKey]), a remove of an extreme
   element by value is refused (ValueError) and of an absent element raises KeyError.

   [SLInv E leq sl] (Lemmas/C11.v) :
     Inv E leq (ps sl)                                  the C09 invariant of the POSet part
     /\ els (ps sl) <> []
     /\ for every direction the class has: exactly one maximal (minimal) index t, and on a
        cached instance the cached index is t
     /\ on an uncached instance both cached indexes are None.
   [sl_valid sl o] only asks for in-range indexes of POSet calls (valid_op of C09).  *)
From FCA Require Import Base.ListSet Spec.PosetSpec Model.Poset Model.PosetLattice
     Lemmas.C09Base Lemmas.C09Query Lemmas.C09Add Lemmas.C09Del Lemmas.C09InitCd Lemmas.C09
     Lemmas.C11.

Section Statements.
  Variable E : Type.
  Variable leq eqb : E -> E -> bool.
  Hypothesis PO : partial_order E leq eqb.

  (* the invariant says what it should: written out *)
  Theorem C11_invariant_unfolded : forall sl : sl_state E,
    SLInv E leq sl <->
    (Inv E leq (ps sl) /\ els (ps sl) <> [] /\
     (forall up, has_ext (kind sl) up = true ->
        exists t, (forall x, In x (extremes E leq (els (ps sl)) up) <-> x = t) /\
                  (use_cache (ps sl) = true -> cached_ext E sl up = Some t)) /\
     (use_cache (ps sl) = false -> c_top sl = None /\ c_bot sl = None)).
  Proof. exact (fun sl => conj (fun H => H) (fun H => H)). Qed.

  (* the unique maximal (minimal) element of the invariant is the greatest (least) element *)
  Theorem C11_unique_extreme_is_greatest : forall l up t,
    NoDup l -> (forall x, In x (extremes E leq l up) <-> x = t) ->
    forall i, i < length l -> ldir E leq l up i t = true.
  Proof. exact (uniq_ext_greatest E leq eqb PO). Qed.

  (* constructors: refused (ValueError) exactly on the empty list and on lists whose number of
     maximal / minimal elements (for the extremes the class has) is not one; an accepted
     object satisfies the invariant *)
  Theorem C11_ctor_ok : forall k l uc,
    NoDup l ->
    (sl_make E leq k l uc None = None <-> sl_spec_ok E leq k l = false) /\
    (forall sl, sl_make E leq k l uc None = Some sl ->
       SLInv E leq sl /\ els (ps sl) = l /\ kind sl = k /\ use_cache (ps sl) = uc).
  Proof. exact (ctor_ok E leq eqb PO). Qed.

  Theorem C11_ctor_refuses : forall k l uc,
    NoDup l -> (sl_make E leq k l uc None = None <-> sl_spec_ok E leq k l = false).
  Proof. exact (ctor_refuses E leq eqb PO). Qed.

  (* the same with a true children dictionary *)
  Theorem C11_ctor_cd_ok : forall k l uc cd,
    NoDup l -> covers_dict_ok E leq l cd ->
    (sl_make E leq k l uc (Some cd) = None <-> sl_spec_ok E leq k l = false) /\
    (forall sl, sl_make E leq k l uc (Some cd) = Some sl ->
       SLInv E leq sl /\ els (ps sl) = l /\ kind sl = k /\ use_cache (ps sl) = uc).
  Proof. exact (ctor_cd_ok E leq eqb PO). Qed.

  (* every public call — queries, tops/bottoms, top/bottom, fill_up_*, add, __delitem__,
     remove, the refused ones included — preserves the invariant, reports what the cache-free
     meaning reports and leaves the element list the cache-free meaning leaves *)
  Theorem C11_sl_step_ok : forall sl o,
    SLInv E leq sl -> sl_valid E sl o ->
    SLInv E leq (fst (sl_step E leq eqb sl o)) /\
    snd (sl_step E leq eqb sl o) =
      snd (sl_spec_step E leq eqb (kind sl) (els (ps sl)) (use_cache (ps sl)) o) /\
    els (ps (fst (sl_step E leq eqb sl o))) =
      fst (sl_spec_step E leq eqb (kind sl) (els (ps sl)) (use_cache (ps sl)) o) /\
    kind (fst (sl_step E leq eqb sl o)) = kind sl /\
    use_cache (ps (fst (sl_step E leq eqb sl o))) = use_cache (ps sl).
  Proof. exact (sl_step_ok E leq eqb PO). Qed.

  (* .top / .bottom return the unique maximal / minimal index and change nothing *)
  Theorem C11_top_is_spec : forall sl up,
    SLInv E leq sl -> has_ext (kind sl) up = true ->
    exists t, (forall x, In x (extremes E leq (els (ps sl)) up) <-> x = t) /\
              spec_ext E leq (els (ps sl)) up = Some t /\
              sl_step E leq eqb sl (SExt up) = (sl, ONat t).
  Proof. exact (top_is_spec E leq eqb PO). Qed.

  (* an element incomparable with the top (or with the bottom) is refused, state unchanged *)
  Theorem C11_add_refuses : forall sl e f,
    SLInv E leq sl ->
    comparable_ext E leq (kind sl) (els (ps sl)) e true &&
    comparable_ext E leq (kind sl) (els (ps sl)) e false = false ->
    sl_add E leq eqb sl e f = (sl, OErr EValue).
  Proof. exact (add_refuses E leq eqb PO). Qed.

  Theorem C11_add_accepts : forall sl e f,
    SLInv E leq sl ->
    comparable_ext E leq (kind sl) (els (ps sl)) e true &&
    comparable_ext E leq (kind sl) (els (ps sl)) e false = true ->
    let l' := if memE E eqb e (els (ps sl)) then els (ps sl) else els (ps sl) ++ [e] in
    SLInv E leq (fst (sl_add E leq eqb sl e f)) /\
    snd (sl_add E leq eqb sl e f) = OEls l' /\
    els (ps (fst (sl_add E leq eqb sl e f))) = l' /\
    kind (fst (sl_add E leq eqb sl e f)) = kind sl /\
    use_cache (ps (fst (sl_add E leq eqb sl e f))) = use_cache (ps sl).
  Proof. exact (add_accepts E leq eqb PO). Qed.

  (* deleting the top / bottom by index: KeyError; removing it by value: ValueError; removing
     an absent element: KeyError — the state is literally unchanged in all three cases *)
  Theorem C11_delete_guards : forall sl,
    SLInv E leq sl ->
    (forall i, is_spec_ext E leq (kind sl) (els (ps sl)) i = true ->
               sl_del E leq sl i = (sl, OErr EKey)) /\
    (forall e i, index_of E eqb e (els (ps sl)) = Some i ->
                 is_spec_ext E leq (kind sl) (els (ps sl)) i = true ->
                 sl_remove E leq eqb sl e = (sl, OErr EValue)) /\
    (forall e, index_of E eqb e (els (ps sl)) = None ->
               sl_remove E leq eqb sl e = (sl, OErr EKey)).
  Proof. exact (delete_guards E leq eqb PO). Qed.

  Theorem C11_delete_ok : forall sl i,
    SLInv E leq sl -> i < length (els (ps sl)) ->
    is_spec_ext E leq (kind sl) (els (ps sl)) i = false ->
    SLInv E leq (fst (sl_del E leq sl i)) /\
    snd (sl_del E leq sl i) = OEls (remove_nth i (els (ps sl))) /\
    els (ps (fst (sl_del E leq sl i))) = remove_nth i (els (ps sl)) /\
    kind (fst (sl_del E leq sl i)) = kind sl /\
    use_cache (ps (fst (sl_del E leq sl i))) = use_cache (ps sl).
  Proof. exact (delete_ok E leq eqb PO). Qed.

  (* all histories, no bound on the length, refused operations included *)
  Theorem C11_reachable_SL : forall ops sl,
    SLInv E leq sl ->
    sl_valid_history E leq eqb (kind sl) (els (ps sl)) (use_cache (ps sl)) ops ->
    SLInv E leq (fst (sl_run E leq eqb sl ops)) /\
    snd (sl_run E leq eqb sl ops) =
      snd (sl_spec_run E leq eqb (kind sl) (els (ps sl)) (use_cache (ps sl)) ops) /\
    els (ps (fst (sl_run E leq eqb sl ops))) =
      fst (sl_spec_run E leq eqb (kind sl) (els (ps sl)) (use_cache (ps sl)) ops) /\
    kind (fst (sl_run E leq eqb sl ops)) = kind sl /\
    use_cache (ps (fst (sl_run E leq eqb sl ops))) = use_cache (ps sl).
  Proof. exact (reachable_SL E leq eqb PO). Qed.

  (* incremental = batch: after any history of additions and removals (one at a time, in any
     order, accepted or refused) the constructor accepts the current element list, and every
     valid call on the grown object returns what it returns on the object built at once *)
  Theorem C11_incremental_batch : forall sl0 ops,
    SLInv E leq sl0 ->
    sl_valid_history E leq eqb (kind sl0) (els (ps sl0)) (use_cache (ps sl0)) ops ->
    let slf := fst (sl_run E leq eqb sl0 ops) in
    (exists slb, sl_make E leq (kind sl0) (els (ps slf)) (use_cache (ps sl0)) None = Some slb) /\
    (forall slb, sl_make E leq (kind sl0) (els (ps slf)) (use_cache (ps sl0)) None = Some slb ->
       forall q, sl_valid E slf q ->
                 snd (sl_step E leq eqb slf q) = snd (sl_step E leq eqb slb q)).
  Proof. exact (incremental_batch E leq eqb PO). Qed.

  (* ... started from any list the constructor accepts *)
  Theorem C11_incremental_batch_ctor : forall k l0 uc sl0 ops,
    NoDup l0 -> sl_make E leq k l0 uc None = Some sl0 ->
    sl_valid_history E leq eqb k l0 uc ops ->
    let slf := fst (sl_run E leq eqb sl0 ops) in
    exists slb, sl_make E leq k (els (ps slf)) uc None = Some slb /\
      SLInv E leq slf /\ SLInv E leq slb /\
      els (ps slf) = fst (sl_spec_run E leq eqb k l0 uc ops) /\
      forall q, sl_valid E slf q ->
                snd (sl_step E leq eqb slf q) = snd (sl_step E leq eqb slb q).
  Proof. exact (incremental_batch_ctor E leq eqb PO). Qed.

  (* ... and whatever the cache flag of the object built at once (the fill_up_* helpers, which
     assert that caching is on, excluded) *)
  Theorem C11_incremental_batch_any_flag : forall sl0 ops ucb,
    SLInv E leq sl0 ->
    sl_valid_history E leq eqb (kind sl0) (els (ps sl0)) (use_cache (ps sl0)) ops ->
    let slf := fst (sl_run E leq eqb sl0 ops) in
    (exists slb, sl_make E leq (kind sl0) (els (ps slf)) ucb None = Some slb) /\
    (forall slb, sl_make E leq (kind sl0) (els (ps slf)) ucb None = Some slb ->
       forall q, sl_valid E slf q -> sl_no_fill E q = true ->
                 snd (sl_step E leq eqb slf q) = snd (sl_step E leq eqb slb q)).
  Proof. exact (incremental_batch_any_flag E leq eqb PO). Qed.
End Statements.

Print Assumptions C11_invariant_unfolded.
Print Assumptions C11_unique_extreme_is_greatest.
Print Assumptions C11_ctor_ok.
Print Assumptions C11_ctor_refuses.
Print Assumptions C11_ctor_cd_ok.
Print Assumptions C11_sl_step_ok.
Print Assumptions C11_top_is_spec.
Print Assumptions C11_add_refuses.
Print Assumptions C11_add_accepts.
Print Assumptions C11_delete_guards.
Print Assumptions C11_delete_ok.
Print Assumptions C11_reachable_SL.
Print Assumptions C11_incremental_batch.
Print Assumptions C11_incremental_batch_ctor.
Print Assumptions C11_incremental_batch_any_flag.

(* ---- non-vacuity: the diamond (0,0) < (1,0), (0,1) < (1,1) under the componentwise order is a
   Lattice; a history with the top/bottom properties, an accepted add that becomes the new top,
   a refused (incomparable) add, refused deletions of the top by index and of the bottom by
   value, an accepted deletion (the cached top index moves from 4 to 3), a removal of an absent
   element, a re-add of a present element, an add without cache filling and some queries *)
Import InitCdExample.

Definition ex_ops : list (sl_op (nat * nat)) :=
  [SExt true; SP (OAdd (2, 2) true); SP (OAdd (5, 0) true); SP (ODel 4); SP (ORemove (0, 0));
   SP (QCover false 3); SP (ODel 1); SExt true; SExt false; SP (QExtremes true); SP (ORemove (7, 7));
   SP (OAdd (0, 1) true); SP (OAdd (1, 0) false); SP (QBound true [1; 4]); SP (QClosed false 3)].

Definition ex_outs : list (out (nat * nat)) :=
  [ONat 3; OEls [(0, 0); (1, 0); (0, 1); (1, 1); (2, 2)]; OErr EValue; OErr EKey; OErr EValue;
   OSet [1; 2]; OEls [(0, 0); (0, 1); (1, 1); (2, 2)]; ONat 3; ONat 0; OList [3]; OErr EKey;
   OEls [(0, 0); (0, 1); (1, 1); (2, 2)]; OEls [(0, 0); (0, 1); (1, 1); (2, 2); (1, 0)];
   OOpt (Some 2); OSet [0; 1; 2; 4]].

Example C11_lattice_nonvacuous :
  exists sl, sl_make (nat * nat) leq2 KLattice diamond true None = Some sl /\
    SLInv (nat * nat) leq2 sl /\ c_top sl = Some 3 /\ c_bot sl = Some 0 /\
    sl_valid_history (nat * nat) leq2 eqb2 KLattice diamond true ex_ops /\
    snd (sl_run (nat * nat) leq2 eqb2 sl ex_ops) = ex_outs /\
    c_top (fst (sl_run (nat * nat) leq2 eqb2 sl ex_ops)) = Some 3 /\
    c_anc (ps (fst (sl_run (nat * nat) leq2 eqb2 sl ex_ops))) <> [].
Proof.
  destruct (sl_make (nat * nat) leq2 KLattice diamond true None) as [sl|] eqn:Hm;
    [|vm_compute in Hm; discriminate].
  exists sl. split; [reflexivity|].
  split; [exact (proj1 (proj2 (C11_ctor_ok _ _ _ PO2 KLattice diamond true diamond_nodup) sl Hm))|].
  vm_compute in Hm. injection Hm as <-.
  split; [reflexivity|]. split; [reflexivity|].
  split; [vm_compute; repeat split; try lia; intros x [<- | [<- | []]]; lia|].
  split; [vm_compute; reflexivity|]. split; [vm_compute; reflexivity | vm_compute; discriminate].
Qed.

(* the uncached instance reports the same outputs along the same history *)
Example C11_lattice_nocache_nonvacuous :
  exists sl, sl_make (nat * nat) leq2 KLattice diamond false None = Some sl /\
    SLInv (nat * nat) leq2 sl /\
    snd (sl_run (nat * nat) leq2 eqb2 sl ex_ops) = ex_outs /\
    c_top (fst (sl_run (nat * nat) leq2 eqb2 sl ex_ops)) = None.
Proof.
  destruct (sl_make (nat * nat) leq2 KLattice diamond false None) as [sl|] eqn:Hm;
    [|vm_compute in Hm; discriminate].
  exists sl. split; [reflexivity|].
  split; [exact (proj1 (proj2 (C11_ctor_ok _ _ _ PO2 KLattice diamond false diamond_nodup) sl Hm))|].
  vm_compute in Hm. injection Hm as <-.
  split; vm_compute; reflexivity.
Qed.

(* with the (true) children dictionary of the diamond *)
Example C11_lattice_children_dict_nonvacuous :
  exists sl, sl_make (nat * nat) leq2 KLattice diamond true (Some diamond_cd) = Some sl /\
    SLInv (nat * nat) leq2 sl /\ snd (sl_run (nat * nat) leq2 eqb2 sl ex_ops) = ex_outs.
Proof.
  destruct (sl_make (nat * nat) leq2 KLattice diamond true (Some diamond_cd)) as [sl|] eqn:Hm;
    [|vm_compute in Hm; discriminate].
  exists sl. split; [reflexivity|].
  split; [exact (proj1 (proj2 (C11_ctor_cd_ok _ _ _ PO2 KLattice diamond true diamond_cd
                                 diamond_nodup diamond_cd_ok) sl Hm))|].
  vm_compute in Hm. injection Hm as <-. vm_compute. reflexivity.
Qed.

(* constructors that must refuse: an antichain of two elements has two tops; with a common
   lower bound it is a LowerSemiLattice but still not an UpperSemiLattice nor a Lattice *)
Example C11_ctor_refusals :
  sl_make (nat * nat) leq2 KUpper [(1, 0); (0, 1)] true None = None /\
  sl_spec_ok (nat * nat) leq2 KUpper [(1, 0); (0, 1)] = false /\
  sl_make (nat * nat) leq2 KUpper [(1, 0); (0, 1); (0, 0)] false None = None /\
  sl_make (nat * nat) leq2 KLattice [(1, 0); (0, 1); (0, 0)] true None = None /\
  sl_make (nat * nat) leq2 KLower [(1, 0); (0, 1); (0, 0)] true None <> None /\
  sl_make (nat * nat) leq2 KLattice [] true None = None.
Proof. vm_compute. repeat split; try reflexivity. discriminate. Qed.

(* incremental = batch on the example: the lattice grown by [ex_ops] and the lattice built at
   once from the final element list answer alike *)
Example C11_incremental_batch_nonvacuous :
  exists sl0 slb,
    sl_make (nat * nat) leq2 KLattice diamond true None = Some sl0 /\
    sl_make (nat * nat) leq2 KLattice
            (els (ps (fst (sl_run (nat * nat) leq2 eqb2 sl0 ex_ops)))) true None = Some slb /\
    els (ps slb) = [(0, 0); (0, 1); (1, 1); (2, 2); (1, 0)] /\
    forall q, sl_valid (nat * nat) (fst (sl_run (nat * nat) leq2 eqb2 sl0 ex_ops)) q ->
              snd (sl_step (nat * nat) leq2 eqb2 (fst (sl_run (nat * nat) leq2 eqb2 sl0 ex_ops)) q) =
              snd (sl_step (nat * nat) leq2 eqb2 slb q).
Proof.
  destruct (sl_make (nat * nat) leq2 KLattice diamond true None) as [sl0|] eqn:Hm;
    [|vm_compute in Hm; discriminate].
  assert (Hv : sl_valid_history (nat * nat) leq2 eqb2 KLattice diamond true ex_ops)
    by (vm_compute; repeat split; try lia; intros x [<- | [<- | []]]; lia).
  destruct (C11_incremental_batch_ctor _ _ _ PO2 KLattice diamond true sl0 ex_ops diamond_nodup Hm Hv)
    as [slb [Hb [_ [_ [He Hq]]]]].
  exists sl0, slb. split; [reflexivity|]. split; [exact Hb|]. split; [|exact Hq].
  clear Hq. vm_compute in Hm. injection Hm as <-. vm_compute in Hb. injection Hb as <-. reflexivity.
Qed.

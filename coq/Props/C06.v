(* Props/C06.v — property C06: transposition, complement and relabelling act as dualities on
   contexts / lattices; the monotone lattice is exactly the set of monotone pairs, ordered
   consistently with its cover relation.
   Only statements; proofs are in Lemmas/C06*.v.  [b] ranges over the three back-end models.
   [lattice_for t on an L] (Lemmas/C06_Lattice.v) says that the lattice object L is the concept
   lattice of table t — its concepts in ANY listing order, children dictionary = lower covers —
   which is what C02/C03 establish for ConceptLattice.from_context. *)
From FCA Require Import Base.ListSet Model.BinTable Model.FormalContext Model.Duality
                        Spec.Galois Spec.Closure Spec.DualitySpec Lemmas.C06.

(* ================================================================== transposition *)

Theorem C06_transpose_involutive : forall b t,
  wf t -> nondegenerate t -> transpose b (transpose b t) = t.
Proof. exact transpose_involutive. Qed.
Print Assumptions C06_transpose_involutive.

Theorem C06_transpose_is_transpose : forall b t,
  wf t -> nondegenerate t -> is_transpose t (transpose b t).
Proof. exact transpose_is_transpose. Qed.
Print Assumptions C06_transpose_is_transpose.

(* FormalContext.T.T gives the context back (table and both name lists), and K.T.T == K is True *)
Theorem C06_context_transpose_involutive : forall b K,
  ctx_wf K -> nondegenerate (k_tbl K) -> ctx_TT b K = COk K.
Proof. exact ctx_T_involutive. Qed.
Print Assumptions C06_context_transpose_involutive.

Theorem C06_context_transpose_eq_true : forall b K,
  ctx_wf K -> nondegenerate (k_tbl K) -> cbind (ctx_TT b K) (fun K2 => ctx_eq K2 K) = COk true.
Proof. exact ctx_TT_eq. Qed.
Print Assumptions C06_context_transpose_eq_true.

(* outside the quantifier, stated not hidden: rows without columns are rejected *)
Theorem C06_context_transpose_rejects_degenerate : forall b K,
  ctx_wf K -> 0 < height (k_tbl K) -> width (k_tbl K) = 0 -> ctx_T b K = CErr E_Assertion.
Proof. exact ctx_T_rejects_degenerate. Qed.
Print Assumptions C06_context_transpose_rejects_degenerate.

(* transposing swaps the two derivation operators: spec level ... *)
Theorem C06_transpose_swaps_primes : forall b t X,
  wf t -> nondegenerate t ->
  ext (transpose b t) X = int t X /\ int (transpose b t) X = ext t X.
Proof. exact transpose_swaps_primes. Qed.
Print Assumptions C06_transpose_swaps_primes.

(* ... and at the level of the C01 models of extension_i / intention_i *)
Theorem C06_transpose_swaps_extension_i : forall b t X,
  wf t -> nondegenerate t -> in_range (height t) X ->
  extension_i b (transpose b t) X None = intention_i b t X None.
Proof. exact extension_i_transpose. Qed.
Print Assumptions C06_transpose_swaps_extension_i.

Theorem C06_transpose_swaps_intention_i : forall b t Y,
  wf t -> nondegenerate t -> in_range (width t) Y ->
  intention_i b (transpose b t) Y None = extension_i b t Y None.
Proof. exact intention_i_transpose. Qed.
Print Assumptions C06_transpose_swaps_intention_i.

(* the base-set forms are swapped as well (same base set, same order of the result) *)
Theorem C06_transpose_swaps_extension_i_base : forall b t X B,
  wf t -> nondegenerate t -> in_range (height t) X -> in_range (width t) B ->
  extension_i b (transpose b t) X (Some B) = intention_i b t X (Some B).
Proof. exact extension_i_transpose_base. Qed.
Print Assumptions C06_transpose_swaps_extension_i_base.

Theorem C06_transpose_swaps_intention_i_base : forall b t Y B,
  wf t -> nondegenerate t -> in_range (width t) Y -> in_range (height t) B ->
  intention_i b (transpose b t) Y (Some B) = extension_i b t Y (Some B).
Proof. exact intention_i_transpose_base. Qed.
Print Assumptions C06_transpose_swaps_intention_i_base.

(* the concepts of the transposed table are the swapped concepts; the order is reversed *)
Theorem C06_lattice_of_transpose : forall b t,
  wf t -> nondegenerate t ->
  (forall A B, In (A, B) (concepts_spec (transpose b t)) <-> In (B, A) (concepts_spec t)) /\
  (forall A1 B1 A2 B2, is_concept t A1 B1 -> is_concept t A2 B2 -> (incl A1 A2 <-> incl B2 B1)).
Proof. exact lattice_of_transpose. Qed.
Print Assumptions C06_lattice_of_transpose.

(* ConceptLattice.T realises it: concepts and names swapped, children = covers of the reversed order *)
Theorem C06_lattice_T_correct : forall b t on an L,
  wf t -> nondegenerate t -> lattice_for t on an L ->
  lattice_for (transpose b t) an on (lattice_T L).
Proof. exact lattice_T_correct_b. Qed.
Print Assumptions C06_lattice_T_correct.

Theorem C06_transpose_hierarchy_spec : forall ch v k,
  In k (nth v (transpose_hierarchy ch) []) <-> v < length ch /\ k < length ch /\ In v (nth k ch []).
Proof. exact transpose_hierarchy_In. Qed.
Print Assumptions C06_transpose_hierarchy_spec.

(* ================================================================== complement *)

Theorem C06_complement_involutive : forall K,
  ctx_wf K -> names_ok (k_an K) = true -> ctx_invert2 K = COk K.
Proof. exact complement_involutive. Qed.
Print Assumptions C06_complement_involutive.

(* the guard is exact: ~~K = K precisely when no attribute name starts with 'not not ' *)
Theorem C06_complement_involutive_iff : forall K,
  ctx_wf K -> (ctx_invert2 K = COk K <-> names_ok (k_an K) = true).
Proof. exact complement_involutive_iff. Qed.
Print Assumptions C06_complement_involutive_iff.

Theorem C06_complement_eq_true : forall K,
  ctx_wf K -> names_ok (k_an K) = true -> cbind (ctx_invert2 K) (fun K2 => ctx_eq K2 K) = COk true.
Proof. exact complement_eq_true. Qed.
Print Assumptions C06_complement_eq_true.

(* finding D19: the unguarded statement is false of the code as it is *)
Theorem C06_complement_refuted :
  exists K, ctx_wf K /\ names_ok (k_an K) = false /\ ctx_invert2 K <> COk K.
Proof. exact complement_refuted. Qed.
Print Assumptions C06_complement_refuted.

Theorem C06_complement_eq_raises_outside_guard : forall K,
  ctx_wf K -> names_ok (k_an K) = false ->
  cbind (ctx_invert2 K) (fun K2 => ctx_eq K2 K) = CErr E_Value.
Proof. exact complement_eq_raises. Qed.
Print Assumptions C06_complement_eq_raises_outside_guard.

(* ================================================================== relabelling *)

Theorem C06_relabel_primes : forall t ps pc,
  is_perm (height t) ps -> is_perm (width t) pc ->
  (forall B, in_range (width t) B ->
     pull ps (height t) (ext t B) = ext (relabel_table ps pc t) (pull pc (width t) B)) /\
  (forall A, in_range (height t) A ->
     pull pc (width t) (int t A) = int (relabel_table ps pc t) (pull ps (height t) A)).
Proof. exact relabel_primes. Qed.
Print Assumptions C06_relabel_primes.

Theorem C06_relabel_concepts : forall t ps pc,
  is_perm (height t) ps -> is_perm (width t) pc ->
  forall A' B',
    In (A', B') (concepts_spec (relabel_table ps pc t)) <->
    exists A B, In (A, B) (concepts_spec t) /\ A' = pull ps (height t) A /\ B' = pull pc (width t) B.
Proof. exact relabel_concepts. Qed.
Print Assumptions C06_relabel_concepts.

Theorem C06_relabel_covers : forall t ps pc,
  is_perm (height t) ps -> is_perm (width t) pc ->
  forall X Y, In X (map fst (concepts_spec t)) -> In Y (map fst (concepts_spec t)) ->
    (ext_cover (map fst (concepts_spec (relabel_table ps pc t))) (pull ps (height t) X) (pull ps (height t) Y)
     <-> ext_cover (map fst (concepts_spec t)) X Y).
Proof. exact relabel_covers. Qed.
Print Assumptions C06_relabel_covers.

(* for lattice objects: same concepts and the same children dictionary, through the relabelling *)
Theorem C06_relabel_lattice_concepts : forall t ps pc on an on' an' L L',
  is_perm (height t) ps -> is_perm (width t) pc ->
  lattice_for t on an L -> lattice_for (relabel_table ps pc t) on' an' L' ->
  forall A' B', In (A', B') (map cpair (l_concepts L')) <->
    exists A B, In (A, B) (map cpair (l_concepts L)) /\
                A' = pull ps (height t) A /\ B' = pull pc (width t) B.
Proof. exact relabel_lattice_concepts. Qed.
Print Assumptions C06_relabel_lattice_concepts.

Theorem C06_relabel_lattice_covers : forall t ps pc on an on' an' L L' i j i' j',
  is_perm (height t) ps -> is_perm (width t) pc ->
  lattice_for t on an L -> lattice_for (relabel_table ps pc t) on' an' L' ->
  i < length (l_concepts L) -> j < length (l_concepts L) ->
  i' < length (l_concepts L') -> j' < length (l_concepts L') ->
  nth i' (exts_of L') [] = pull ps (height t) (nth i (exts_of L) []) ->
  nth j' (exts_of L') [] = pull ps (height t) (nth j (exts_of L) []) ->
  (In j' (nth i' (l_children L') []) <-> In j (nth i (l_children L) [])).
Proof. exact relabel_lattice_covers. Qed.
Print Assumptions C06_relabel_lattice_covers.

(* FormalContext.__getitem__ with a row and a column permutation, K[ps, pc], IS that relabelling
   on every back-end: table, object names and attribute names in the given order *)
Theorem C06_getitem_is_relabelling : forall b K ps pc,
  ctx_wf K -> is_perm (height (k_tbl K)) ps -> is_perm (width (k_tbl K)) pc ->
  ctx_getitem b K ps pc =
  COk {| k_tbl := relabel_table ps pc (k_tbl K);
         k_on := names_at (k_on K) ps; k_an := names_at (k_an K) pc |}.
Proof. exact ctx_getitem_is_relabel. Qed.
Print Assumptions C06_getitem_is_relabelling.

(* ================================================================== monotone lattice *)

(* A = the objects having some attribute of B, B = the attributes no object outside A has *)
Theorem C06_monotone_lattice_exact : forall K h on' an' L',
  wf (k_tbl K) -> lattice_for (tbl_invert (k_tbl K)) on' an' L' ->
  forall A B, In (A, B) (map cpair (l_concepts (monotone_of K h L'))) <->
              (A = ext_mono (k_tbl K) B /\ B = int_mono (k_tbl K) A).
Proof. exact monotone_lattice_exact. Qed.
Print Assumptions C06_monotone_lattice_exact.

(* the executable enumeration the correspondence uses is that set *)
Theorem C06_mono_pairs_spec_complete : forall t A B,
  In (A, B) (mono_pairs_spec t) <-> (A = ext_mono t B /\ B = int_mono t A).
Proof. exact mono_pairs_spec_complete. Qed.
Print Assumptions C06_mono_pairs_spec_complete.

(* the reused children dictionary is the cover relation of the lattice's own (swapped) <= *)
Theorem C06_monotone_order_consistent : forall K h on' an' L',
  wf (k_tbl K) -> lattice_for (tbl_invert (k_tbl K)) on' an' L' ->
  let M := monotone_of K h L' in
  let n := length (l_concepts M) in
  forall i j, i < n ->
    (In j (nth i (l_children M) []) <-> j < n /\ cover (own_lt (l_concepts M)) n j i).
Proof. exact monotone_order_consistent. Qed.
Print Assumptions C06_monotone_order_consistent.

Theorem C06_monotone_le_never_raises : forall K h L' a b,
  In a (l_concepts (monotone_of K h L')) -> In b (l_concepts (monotone_of K h L')) ->
  exists v, concept_le a b = COk v.
Proof. exact monotone_le_total. Qed.
Print Assumptions C06_monotone_le_never_raises.

(* names: right under the guard, wrong outside it (D19 again: the intent names are toggled twice) *)
Theorem C06_monotone_names : forall K h L',
  names_ok (k_an K) = true ->
  (forall c, In c (l_concepts L') ->
     c_int c = names_at (map toggle_name (k_an K)) (c_int_i c) /\ in_range (length (k_an K)) (c_int_i c)) ->
  forall c, In c (l_concepts (monotone_of K h L')) ->
    c_ext c = names_at (k_on K) (c_ext_i c) /\ c_int c = names_at (k_an K) (c_int_i c).
Proof. exact monotone_names. Qed.
Print Assumptions C06_monotone_names.

Theorem C06_monotone_names_refuted :
  exists K h L',
    names_ok (k_an K) = false /\
    (forall c, In c (l_concepts L') ->
       c_int c = names_at (map toggle_name (k_an K)) (c_int_i c) /\ in_range (length (k_an K)) (c_int_i c)) /\
    ~ (forall c, In c (l_concepts (monotone_of K h L')) -> c_int c = names_at (k_an K) (c_int_i c)).
Proof. exact monotone_names_refuted. Qed.
Print Assumptions C06_monotone_names_refuted.

(* ================================================================== non-vacuity *)

(* a 3x3 context with 4 concepts and a 'not '-prefixed attribute name meets every hypothesis above;
   ex_lat / ex_lat_inv are the lattices of it and of its complement, ex_ps / ex_pc permutations *)
Example C06_nonvacuous :
  ctx_wf ex_ctx /\ nondegenerate (k_tbl ex_ctx) /\ names_ok (k_an ex_ctx) = true /\
  lattice_for (k_tbl ex_ctx) (k_on ex_ctx) (k_an ex_ctx) ex_lat /\
  lattice_for (tbl_invert (k_tbl ex_ctx)) (k_on ex_ctx) (map toggle_name (k_an ex_ctx)) ex_lat_inv /\
  is_perm (height (k_tbl ex_ctx)) ex_ps /\ is_perm (width (k_tbl ex_ctx)) ex_pc /\
  length (concepts_spec (k_tbl ex_ctx)) = 4 /\
  map cpair (l_concepts (lattice_T ex_lat)) = [([2], [0; 1; 2]); ([0; 2], [0]); ([1; 2], [1]); ([0; 1; 2], [])] /\
  l_children (lattice_T ex_lat) = [[]; [0]; [0]; [1; 2]] /\
  map cpair (l_concepts (monotone_of ex_ctx None ex_lat_inv))
    = [([], []); ([1], [1]); ([0], [0]); ([0; 1], [0; 1]); ([0; 1; 2], [0; 1; 2])] /\
  map c_int (l_concepts (monotone_of ex_ctx None ex_lat_inv))
    = map (names_at (k_an ex_ctx)) [[]; [1]; [0]; [0; 1]; [0; 1; 2]].
Proof.
  split; [exact ex_ctx_wf|]. split; [exact ex_nondegenerate|]. split; [vm_compute; reflexivity|].
  split; [exact ex_lat_ok|]. split; [exact ex_lat_inv_ok|].
  split; [exact ex_ps_perm|]. split; [exact ex_pc_perm|].
  repeat split; vm_compute; reflexivity.
Qed.

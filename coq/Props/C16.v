(* Props/C16.v — property C16: stability equals its definition and is bracketed by its published
   bounds; measures are stored one value per concept and come back as equally long arrays.
   Only statements; proofs are in Lemmas/C16.v, Lemmas/C16_Dyadic.v, Lemmas/C16_Measures.v.

   A concept is (A, B) with [is_concept t A B]; [exts] is any list holding exactly the extents of
   t ([all_extents t exts]; [extents_spec t] is one); [lower_covers exts A] are the extents of the
   children of (A, B) in the complete lattice; [ch] is the list of child extents handed to the
   transcribed functions. *)
From FCA Require Import Base.C16_Dyadic Model.C16_Stability Spec.C16_StabilitySpec.
From FCA Require Import Lemmas.C16 Lemmas.C16_Measures Lemmas.C16_SpecBounds.
From Coq Require Import ZArith QArith.
Local Open Scope nat_scope.

(* the transcribed `stability` is the fraction of sub-sets S of the extent with S' = B
   (for an empty extent the code returns 1, which is that fraction: 1 / 2^0) *)
Theorem C16_stability_def : forall b t, wf t -> forall A B, is_concept t A B ->
  Qeq (stability_m b t A B) (stab_spec t A B).
Proof. exact stability_def. Qed.
Print Assumptions C16_stability_def.

(* the key lemma: a sub-set of the extent is unstable iff it lies inside a lower cover *)
Theorem C16_unstable_union : forall t exts, all_extents t exts -> forall A B, is_concept t A B ->
  forall S, incl S A ->
  (int t S <> B <-> exists C, In C (lower_covers exts A) /\ incl S C).
Proof. exact unstable_union. Qed.
Print Assumptions C16_unstable_union.

Theorem C16_count_subsets : forall A C,
  count_if (fun S => subsetb S C) (sublists A) = 2 ^ length (inter A C).
Proof. exact count_subsets. Qed.
Print Assumptions C16_count_subsets.

(* LStab <= Stab as soon as the children list contains every lower cover (union bound) *)
Theorem C16_lower_bound : forall b t exts, wf t -> all_extents t exts ->
  forall A B, is_concept t A B ->
  forall ch, (forall C, In C (lower_covers exts A) -> In C ch) ->
  Qle (fst (stability_bounds_m A ch)) (stability_m b t A B).
Proof. exact lower_bound. Qed.
Print Assumptions C16_lower_bound.

(* Stab <= UStab as soon as every listed child is an extent strictly below A (one child alone) *)
Theorem C16_upper_bound : forall b t exts, wf t -> all_extents t exts ->
  forall A B, is_concept t A B ->
  forall ch, (forall C, In C ch -> In C exts /\ proper_subb C A = true) ->
  Qle (stability_m b t A B) (snd (stability_bounds_m A ch)).
Proof. exact upper_bound. Qed.
Print Assumptions C16_upper_bound.

(* log-free form of  log_stability_lbound <= -log2 (1 - Stab):  (1 - Stab) * 2^(min delta) <= n_attrs *)
Theorem C16_log_bound : forall b t exts, wf t -> all_extents t exts ->
  forall A B, is_concept t A B ->
  forall ch, NoDup ch -> (forall C, In C ch <-> In C (lower_covers exts A)) ->
  log_bound_holds (stability_m b t A B) (log_lbound_m A ch) (width t).
Proof. exact log_bound. Qed.
Print Assumptions C16_log_bound.

(* a concept has at most  w - |B|  lower covers *)
Theorem C16_children_le_attrs : forall t exts, all_extents t exts ->
  forall A B, is_concept t A B ->
  forall ch, NoDup ch -> (forall C, In C ch -> In C (lower_covers exts A)) ->
  length ch + length B <= width t.
Proof. exact children_le_attrs. Qed.
Print Assumptions C16_children_le_attrs.

(* the statement of C16 for every concept of the complete lattice with its true children *)
Theorem C16_stability_bracketed : forall b t A B ch,
  wf t -> is_concept t A B -> NoDup ch ->
  (forall C, In C ch <-> In C (lower_covers (extents_spec t) A)) ->
  Qeq (stability_m b t A B) (stab_spec t A B) /\
  Qle (fst (stability_bounds_m A ch)) (stability_m b t A B) /\
  Qle (stability_m b t A B) (snd (stability_bounds_m A ch)) /\
  log_bound_holds (stability_m b t A B) (log_lbound_m A ch) (width t) /\
  length ch + length B <= width t.
Proof. exact stability_bracketed. Qed.
Print Assumptions C16_stability_bracketed.

(* the same bracket, written with the specification's own bounds (the ones the correspondence
   check evaluates): LStab / UStab / min-delta over the true lower covers of the extent *)
Theorem C16_spec_bracket : forall b t exts A B,
  wf t -> all_extents t exts -> NoDup exts -> is_concept t A B ->
  Qeq (stability_m b t A B) (stab_spec t A B) /\
  Qle (lstab_spec exts A) (stab_spec t A B) /\
  Qle (stab_spec t A B) (ustab_spec exts A) /\
  log_bound_holds (stab_spec t A B) (min_delta_spec exts A) (width t).
Proof. exact spec_bracket. Qed.
Print Assumptions C16_spec_bracket.

(* which children list is meant: C16_lower_bound / C16_log_bound need the list to contain EVERY lower
   cover of the complete lattice; C16_upper_bound only needs extents strictly below A, so it also
   holds in a pruned lattice (concepts removed), where the code uses the covers inside the remaining
   family.  There the lower bound is not promised - witness: the 3-chain without its middle concept
   (LStab = 3/4 > Stab = 1/2 at the top, while Stab <= UStab = 3/4). *)
Theorem C16_lower_bound_pruned_refuted :
  wf pruned_t /\ is_concept pruned_t [0; 1; 2] [0] /\
  (forall C, In C pruned_family -> In C (extents_spec pruned_t)) /\
  lower_covers pruned_family [0; 1; 2] = [[0]] /\
  ~ Qle (fst (stability_bounds_m [0; 1; 2] (lower_covers pruned_family [0; 1; 2])))
        (stability_m BBitarray pruned_t [0; 1; 2] [0]) /\
  Qle (stability_m BBitarray pruned_t [0; 1; 2] [0])
      (snd (stability_bounds_m [0; 1; 2] (lower_covers pruned_family [0; 1; 2]))).
Proof. exact lower_bound_pruned_refuted. Qed.
Print Assumptions C16_lower_bound_pruned_refuted.

(* storage: if every concept holds the same keys, `measures` does not fail and every array has one
   entry per concept *)
Theorem C16_measures_shape : forall (V : Type) (st : list (mdict V)) ks,
  NoDup ks -> (forall d, In d st -> keys d = ks) ->
  exists md, measures_m st = Some md /\
             (forall kv, In kv md -> length (snd kv) = length st) /\
             (forall k, In k (keys md) -> In k ks) /\
             (st <> [] -> forall k, In k ks -> In k (keys md)).
Proof. exact @measures_shape. Qed.
Print Assumptions C16_measures_shape.

(* ... and that is the situation after ANY sequence of calc_concepts_measures calls for the
   stability measures, starting from a fresh lattice *)
Theorem C16_measures_shape_run : forall b t L ch ops,
  let st := run_measures b t L ch ops in
  (forall d k op, In d st -> In op ops -> In k (op_keys op) -> In k (keys d)) /\
  exists md, measures_m st = Some md /\
             (forall kv, In kv md -> length (snd kv) = length L) /\
             (L <> [] -> forall k op, In op ops -> In k (op_keys op) -> In k (keys md)).
Proof. exact measures_shape_run. Qed.
Print Assumptions C16_measures_shape_run.

(* Non-vacuity: a 4x3 context, its concept ({0,1,2}, {0}) with two lower covers; the hypotheses
   of C16_stability_bracketed hold and the measures take non-trivial values. *)
Definition ex_t : table :=
  [[true; true; false]; [true; false; true]; [true; true; true]; [false; true; true]].
Definition ex_A := [0; 1; 2].
Definition ex_B := [0].
Definition ex_ch := lower_covers (extents_spec ex_t) ex_A.
Example C16_nonvacuous :
  wf ex_t /\ is_concept ex_t ex_A ex_B /\ NoDup ex_ch /\
  ex_ch = [[1; 2]; [0; 2]] /\
  stability_m BBitarray ex_t ex_A ex_B = Qmake 2 8 /\
  stability_bounds_m ex_A ex_ch = (Qmake 0 4, Qmake 1 2) /\
  log_lbound_m ex_A ex_ch = Some 1.
Proof.
  split; [repeat constructor|].
  split; [split; vm_compute; reflexivity|].
  split; [apply lower_covers_NoDup, extents_spec_NoDup|].
  repeat split; vm_compute; reflexivity.
Qed.

(* Props/C14.v — property C14: many-valued contexts: lattice and binarisation preserve the
   closure system.  Only statements; proofs are in Lemmas/C14.v (and Lemmas/C13.v).
   [K] ranges over every many-valued context whose columns all have mv_n K rows ([mv_wf]), each
   column any of the four shipped structures with any data. *)
From FCA Require Import Base.ListSet Model.MVContext Spec.MVLatticeSpec Lemmas.C13 Lemmas.C14
     Lemmas.C14_Lattice Lemmas.C14_Objectwise Lemmas.C14_Names Lemmas.C14_Order Lemmas.C14_Stack
     Model.MVContextStack Spec.LatticeOrderSpec.
From Coq Require Import Permutation.

(* extension_i combines the per-column structures conjunctively: successive narrowing with the
   early exit = one filter of the base set (base order, original indexes), for every
   sub-dictionary of descriptions in any order *)
Theorem C14_extension_conjunctive : forall K ds base,
  ddict_ok K ds -> opt_in_range (mv_n K) base ->
  mv_extension_i K ds base = filter (covers_ddict K ds) (default (seq 0 (mv_n K)) base).
Proof. exact extension_conjunctive. Qed.
Print Assumptions C14_extension_conjunctive.

(* closing a non-empty object set is extensive, monotone and idempotent *)
Theorem C14_closure_laws : forall K A B,
  A <> [] -> in_range (mv_n K) A ->
  incl A (mv_cl K A) /\ (incl A B -> incl (mv_cl K A) (mv_cl K B)) /\ mv_cl K (mv_cl K A) = mv_cl K A.
Proof. exact closure_laws. Qed.
Print Assumptions C14_closure_laws.

(* the closure computed by the code is the product closure of the specification
   (most specific description per column, then the containment filter) *)
Theorem C14_closure_is_spec : forall K A,
  mv_cl K A = mv_cl_spec (mv_cols K) (mv_n K) A.
Proof. exact model_closure_is_spec. Qed.
Print Assumptions C14_closure_is_spec.

(* the binary attributes of a structure generate exactly its closure system ... *)
Theorem C14_bin_attrs_generate : forall c A g,
  A <> [] -> in_range (col_len c) A -> g < col_len c ->
  (forall d e, In (d, e) (ps_bin_attrs c) ->
               (forall a, In a A -> covers d (value_at c a) = true) -> covers d (value_at c g) = true) ->
  covers (ps_intention c A) (value_at c g) = true.
Proof. exact bin_attrs_generate. Qed.
Print Assumptions C14_bin_attrs_generate.

(* ... hence the binarised formal context has exactly the same closed object sets: the closure
   of every non-empty object set in the boolean table (Spec/Closure.v) is its many-valued closure *)
Theorem C14_binarise_same_closure : forall K A,
  mv_wf K -> A <> [] -> in_range (mv_n K) A ->
  cl_obj (mv_binarize K) A = mv_cl K A.
Proof. exact binarise_same_closure. Qed.
Print Assumptions C14_binarise_same_closure.

(* the binarised context has the same objects and declares as many binary attributes as it produces *)
Theorem C14_binarise_counts : forall K,
  mv_wf K -> mv_n K <> 0 ->
  width (mv_binarize K) = mv_n_bin_attrs K /\ height (mv_binarize K) = mv_n K /\
  wf (mv_binarize K) /\ k_onames (mv_bin_context K) = mv_onames K /\
  length (k_anames (mv_bin_context K)) = mv_n_bin_attrs K.
Proof. exact binarise_counts. Qed.
Print Assumptions C14_binarise_counts.

(* ---- open finding D16 (object-wise path) *)
Theorem C14_objectwise_refuted :
  exists K, mv_wf K /\ guard_D16 K = false /\
            mv_cl K [0] = [0] /\
            In [0] (mv_extents_spec (mv_cols K) (mv_n K)) /\
            ~ In [0] (map pc_ext (mv_cbo_objectwise K)) /\
            ~ In [0] (map pc_ext (mv_close_by_one K 0)).
Proof. exact objectwise_refuted. Qed.
Print Assumptions C14_objectwise_refuted.

(* ---- open finding D17 (binarising path) and the disagreement of the two paths *)
Theorem C14_paths_agree_refuted :
  (exists K, mv_wf K /\ guard_D17 K = false /\
             map pc_ext (mv_close_by_one K 1000) = [[0]; [0]] /\
             mv_from_context K 1000 = None /\ exists cs, mv_from_context K 0 = Some cs) /\
  (exists K, mv_wf K /\ guard_D16 K = false /\ guard_D17 K = true /\
             exists c1 c2, mv_from_context K 0 = Some c1 /\ mv_from_context K 1000 = Some c2 /\
                           length c1 <> length c2).
Proof. exact paths_agree_refuted. Qed.
Print Assumptions C14_paths_agree_refuted.

(* ---- the lattice of the binarising path (taken when n_bin_attrs <= n_projections_to_binarize,
   either shape) is exact whenever guard_D17 holds: ConceptLattice.from_context does not fail, and
   the yielded concepts are exactly the closed object sets of the specification (closures of all
   object subsets; the empty set through the pinned conventions), each once, each with the most
   specific description of its extent.  This is the guarded companion of D17.
   [concept_list_exact] is defined in Lemmas/C14_Lattice.v:
     NoDup (map pc_ext cs) /\ (forall E, In E (map pc_ext cs) <-> In E (mv_extents_spec cols n)) /\
     (forall c, In c cs -> descs_eqb (map snd (pc_int c)) (mv_int_spec cols (pc_ext c)) = true). *)
Theorem C14_lattice_exact : forall K thr,
  mv_wf K -> mv_n K <> 0 -> mv_cols K <> [] ->
  mv_n_bin_attrs K <= thr -> guard_D17 K = true ->
  exists cs, mv_from_context K thr = Some cs /\ mv_close_by_one K thr = cs /\ concept_list_exact K cs.
Proof. exact lattice_exact. Qed.
Print Assumptions C14_lattice_exact.

(* the extents the binarising path iterates over (either shape) are the extents of the binarised
   table, each once *)
Theorem C14_bin_extents_exact : forall K,
  mv_wf K -> mv_n K <> 0 -> mv_cols K <> [] ->
  NoDup (mv_bin_extents K) /\
  (forall E, In E (mv_bin_extents K) <-> In E (extents_spec (mv_binarize K))).
Proof. exact bin_extents_exact. Qed.
Print Assumptions C14_bin_extents_exact.

(* ---- the object-wise path (taken when n_bin_attrs > n_projections_to_binarize) under guard_D16:
   close_by_one_objectwise yields, up to the order inside the extent tuples ([canon_set] = the
   sorted duplicate-free representative), exactly the closed object sets of the specification,
   each once, each with the most specific description of its extent.  Guarded companion of D16. *)
Theorem C14_objectwise_guarded : forall K,
  mv_wf K -> mv_n K <> 0 -> mv_cols K <> [] -> guard_D16 K = true ->
  NoDup (map (canon_set (mv_n K)) (map pc_ext (mv_cbo_objectwise K))) /\
  (forall E, In E (map (canon_set (mv_n K)) (map pc_ext (mv_cbo_objectwise K)))
             <-> In E (mv_extents_spec (mv_cols K) (mv_n K))) /\
  (forall c, In c (mv_cbo_objectwise K) ->
             descs_eqb (map snd (pc_int c)) (mv_int_spec (mv_cols K) (pc_ext c)) = true).
Proof. exact objectwise_guarded. Qed.
Print Assumptions C14_objectwise_guarded.

(* ---- under both guards ConceptLattice.from_context succeeds for every threshold, each result
   is exact ([concept_list_exact_c], Lemmas/C14_Objectwise.v: the canonical extents are
   duplicate-free, are exactly mv_extents_spec, and every description is the most specific one),
   hence the direct and the binarising path return the same lattice *)
Theorem C14_paths_agree_guarded : forall K thr1 thr2,
  mv_wf K -> mv_n K <> 0 -> mv_cols K <> [] -> guard_D16 K = true -> guard_D17 K = true ->
  exists c1 c2, mv_from_context K thr1 = Some c1 /\ mv_from_context K thr2 = Some c2 /\
                concept_list_exact_c K c1 /\ concept_list_exact_c K c2 /\
                (forall E, In E (map (canon_set (mv_n K)) (map pc_ext c1))
                           <-> In E (map (canon_set (mv_n K)) (map pc_ext c2))).
Proof. exact paths_agree_guarded. Qed.
Print Assumptions C14_paths_agree_guarded.

(* ---- "ordered by inclusion": in the lattice object built from a many-valued context (either
   path; [L] is any listing order of the yielded concepts - sort_concepts is one permutation)
   children / parents (POSet's cache-free subtraction loops over PatternConcept.__le__,
   Model/LatticeOrder.v) are exactly the lower / upper covers w.r.t. proper inclusion of extents
   and <= is inclusion of extents *)
Theorem C14_lattice_order : forall K thr cs L,
  mv_wf K -> mv_n K <> 0 -> mv_cols K <> [] -> guard_D16 K = true -> guard_D17 K = true ->
  mv_from_context K thr = Some cs -> Permutation cs L ->
  forall i, i < length L ->
    mv_children L i = spec_children (map pc_ext L) i /\
    mv_parents L i = spec_parents (map pc_ext L) i /\
    (forall j, mv_leq L i j = subsetb (set_at (map pc_ext L) i) (set_at (map pc_ext L) j)).
Proof. exact lattice_order. Qed.
Print Assumptions C14_lattice_order.

(* ---- the code's explicit stack (deque, pop from the right, children pushed for g = n-1 .. last)
   yields exactly the sequence of the pre-order recursion the other theorems talk about *)
Theorem C14_objectwise_stack_is_recursion : forall K fuel,
  mv_n K * length (mv_cbo_objectwise K) + 1 <= fuel ->
  mv_cbo_objectwise_stack K fuel = SDone (mv_cbo_objectwise K).
Proof. exact mv_cbo_objectwise_stack_eq. Qed.
Print Assumptions C14_objectwise_stack_is_recursion.

(* ---- by-name wrappers.  Structure names are ps.name (pattern_types order), whatever the order
   of attribute_names; object names the context does not have are ignored; the base set becomes
   an ascending index set *)
Theorem C14_extension_named_ok : forall K dsi bi extra,
  NoDup (mv_pnames K) -> NoDup (mv_onames K) ->
  length (mv_pnames K) = length (mv_cols K) -> length (mv_onames K) = mv_n K ->
  ddict_ok K dsi -> in_range (mv_n K) bi -> (forall x, In x extra -> ~ In x (mv_onames K)) ->
  mv_extension K (name_ddict K dsi) (Some (map (obname K) bi ++ extra))
  = Ok (map (obname K) (filter (fun g => mem g bi && covers_ddict K dsi g) (seq 0 (mv_n K)))).
Proof. exact extension_named_ok. Qed.
Print Assumptions C14_extension_named_ok.

Theorem C14_extension_named_nobase_ok : forall K dsi,
  NoDup (mv_pnames K) -> length (mv_pnames K) = length (mv_cols K) -> ddict_ok K dsi ->
  mv_extension K (name_ddict K dsi) None
  = Ok (map (obname K) (filter (covers_ddict K dsi) (seq 0 (mv_n K)))).
Proof. exact extension_named_nobase_ok. Qed.
Print Assumptions C14_extension_named_nobase_ok.

Theorem C14_extension_named_keyerr : forall K known x dx rest base,
  NoDup (mv_pnames K) -> (forall id, In id known -> fst id < length (mv_pnames K)) ->
  ~ In x (mv_pnames K) ->
  mv_extension K (name_ddict K known ++ (x, dx) :: rest) base = ErrKey x.
Proof. exact extension_named_keyerr. Qed.
Print Assumptions C14_extension_named_keyerr.

Theorem C14_intention_named_ok : forall K oi extra,
  NoDup (mv_onames K) -> length (mv_onames K) = mv_n K -> in_range (mv_n K) oi ->
  (forall x, In x extra -> ~ In x (mv_onames K)) ->
  mv_intention K (map (obname K) oi ++ extra)
  = map (fun i => (pname K i, ps_intention (mv_col K i) (filter (fun g => mem g oi) (seq 0 (mv_n K)))))
        (seq 0 (length (mv_cols K))).
Proof. exact intention_named_ok. Qed.
Print Assumptions C14_intention_named_ok.

Theorem C14_describe_entries_ok : forall K dsi,
  NoDup (mv_pnames K) -> (forall id, In id dsi -> fst id < length (mv_pnames K)) ->
  describe_entries K (name_ddict K dsi) = Some (name_ddict K (filter (printed K) dsi)).
Proof. exact describe_entries_ok. Qed.
Print Assumptions C14_describe_entries_ok.

(* ---- PatternConcept.from_objects, all four views (defect D62, repaired in /repo 6bbdea5: the
   intent used to be keyed by attribute_names[ps_index]): whatever the order of attribute_names,
   every description is paired with the name of its own structure *)
Theorem C14_from_objects_views : forall K objs is_extent,
  let v := pc_from_objects_views K objs is_extent in
  pv_int v = map (fun p => (pname K (fst p), snd p)) (pv_int_i v) /\
  pv_ext v = map (obname K) (pv_ext_i v) /\
  pv_int_i v = mv_intention_i K objs /\
  pv_ext_i v = (if is_extent then objs else mv_cl K objs).
Proof. exact from_objects_views. Qed.
Print Assumptions C14_from_objects_views.

Example C14_from_objects_views_nonvacuous :
  mv_anames K62 <> mv_pnames K62 /\
  pv_int (pc_from_objects_views K62 [0] false) = [(1, DAttr true); (0, DIv (Some (0, 1)%Z))] /\
  mv_intention K62 [0] = [(1, DAttr true); (0, DIv (Some (0, 1)%Z))].
Proof. exact from_objects_views_K62. Qed.

(* Non-vacuity: a 3-row context mixing a numpy interval column with proper intervals, a
   set-valued and a boolean column meets the hypotheses; its closures, binarisation and both
   lattices are the expected ones. *)
Definition exK : mvctx :=
  mkMV 3 [CIntervalNp [(0, 1); (2, 2); (1, 1)]%Z; CSet [[1]; [1; 2]; []]; CAttr [true; false; true]]
       [10; 11; 12] [20; 21; 22] [20; 21; 22].
Example C14_nonvacuous :
  mv_wf exK /\ mv_n exK <> 0 /\ in_range (mv_n exK) [2] /\ [2] <> [] /\
  ddict_ok exK [(2, DAttr true); (0, DIv (Some (0, 1)%Z))] /\
  mv_extension_i exK [(2, DAttr true); (0, DIv (Some (0, 1)%Z))] (Some [2; 1; 0]) = [2; 0] /\
  mv_cl exK [2] = [2] /\ mv_cl exK [0] = [0; 2] /\ cl_obj (mv_binarize exK) [0] = [0; 2] /\
  width (mv_binarize exK) = 10 /\ mv_n_bin_attrs exK = 10 /\
  guard_D16 exK = true /\ guard_D17 exK = true /\
  mv_cols exK <> [] /\ mv_n_bin_attrs exK <= 1000 /\
  (exists cs, mv_from_context exK 1000 = Some cs /\ length cs = 6) /\
  map pc_ext (mv_cbo_objectwise exK) = [[]; [0; 2]; [0; 2; 1]; [1]; [1; 2]; [2]].
Proof.
  repeat split; try (vm_compute; reflexivity); try discriminate.
  - repeat constructor.
  - intros x [H|[]]; subst; vm_compute; lia.
  - repeat constructor.
  - vm_compute. lia.
  - eexists. split; vm_compute; reflexivity.
Qed.

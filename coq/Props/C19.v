(* Props/C19.v — property C19: line-diagram layouts respect the order; node moving preserves
   levels.  Only statements; proofs are in Lemmas/C19_Levels.v, C19_Fcart.v, C19_Mover.v.

   A poset is a comparison [leq] on the indices 0..n-1 that is antisymmetric and transitive
   there; [parents], [children], [tops] are what POSet.parents / children / tops hand out: ANY
   duplicate-free enumeration of the upper covers / lower covers / maximal elements (the code
   iterates Python sets, so the theorems are proved for every enumeration order).
   Coordinates are rationals; the implementation's floats are compared with them by the
   correspondence check. *)
From Coq Require Import ZArith QArith.
From FCA Require Import Base.ListSet Model.C19_LineLayout Model.C19_Mover Spec.C19_LayoutSpec
                        Lemmas.C19_Mover Lemmas.C19_Levels Lemmas.C19_Fcart Lemmas.C19_Shift Lemmas.C19_HeightSpec Lemmas.C19_Sorted.
Local Open Scope nat_scope.

Section Posets.
Variable n : nat.
Variable leq : nat -> nat -> bool.
Variable parents children : nat -> list nat.
Variable tops : list nat.

Definition poset_answers : Prop :=
  (forall a b, a < n -> b < n -> leq a b = true -> leq b a = true -> a = b) /\
  (forall a b c, a < n -> b < n -> c < n -> leq a b = true -> leq b c = true -> leq a c = true) /\
  (forall v p, v < n -> (In p (parents v) <-> p < n /\ covers_of n leq v p = true)) /\
  (forall v x, v < n -> (In x (children v) <-> x < n /\ covers_of n leq x v = true)) /\
  (forall v, v < n -> NoDup (children v)) /\
  (forall t, In t tops <-> t < n /\ forall j, j < n -> slt leq t j = false) /\
  NoDup tops.
End Posets.

(* calc_levels terminates normally (also on the empty poset), every element gets a level, and the level is the length of
   the longest chain from a maximal element down to it *)
Theorem C19_levels_longest_chain : forall n leq parents children tops,
  poset_answers n leq parents children tops ->
  exists levels ld,
    calc_levels n parents children tops = LOk (levels, ld) /\ length levels = n /\
    forall v, v < n -> exists k, lev levels v = Z.of_nat k /\ is_height n leq v k.
Proof.
  intros n leq parents children tops (H1 & H2 & H3 & H4 & H5 & H6 & H7).
  exact (levels_longest_chain n leq parents children tops H1 H2 H3 H4 H5 H6 H7).
Qed.
Print Assumptions C19_levels_longest_chain.

(* the executable oracle of the correspondence check (exhaustive search for the longest climbing
   chain) is that length, so the model's levels are the oracle's *)

Theorem C19_levels_equal_oracle : forall n leq parents children tops,
  poset_answers n leq parents children tops ->
  exists levels ld,
    calc_levels n parents children tops = LOk (levels, ld) /\ length levels = n /\
    forall v, v < n -> lev levels v = Z.of_nat (height n leq v).
Proof.
  intros n leq parents children tops PA.
  destruct (C19_levels_longest_chain n leq parents children tops PA) as (levels & ld & E & Len & H).
  exists levels, ld. split; [exact E|]. split; [exact Len|]. intros v Hv.
  destruct (H v Hv) as (k & Ek & Hk). rewrite Ek. f_equal.
  destruct PA as (H1 & H2 & _).
  exact (is_height_unique n leq v k (height n leq v) Hk (height_is_height n leq H1 H2 v Hv)).
Qed.
Print Assumptions C19_levels_equal_oracle.

(* the empty poset (repaired in /repo by 1521664: max(levels, default=-1)): no levels, no level
   rows, the empty layout *)
Theorem C19_empty_poset : forall parents children tops c dpth,
  calc_levels 0 parents children [] = LOk ([], []) /\
  fcart_layout 0 parents children [] c dpth = LOk [] /\
  (poset_answers 0 (fun _ _ => true) parents children tops -> tops = []).
Proof.
  intros parents children tops c dpth. split; [reflexivity|]. split; [reflexivity|].
  intros (_ & _ & _ & _ & _ & H & _). destruct tops as [|t ts]; [reflexivity|].
  exfalso. destruct (proj1 (H t) (or_introl eq_refl)) as [L _]. lia.
Qed.
Print Assumptions C19_empty_poset.

(* fcart_layout(c, dpth): a position for every element, no position used twice *)
Theorem C19_fcart_total_distinct : forall n leq parents children tops c dpth,
  poset_answers n leq parents children tops ->
  exists ps, fcart_layout n parents children tops c dpth = LOk ps /\ length ps = n /\
    forall i j, i < n -> j < n -> i <> j ->
      ~ ((fst (nth i ps (0, 0)) == fst (nth j ps (0, 0))) /\ (snd (nth i ps (0, 0)) == snd (nth j ps (0, 0))))%Q.
Proof.
  intros n leq parents children tops c dpth (H1 & H2 & H3 & H4 & H5 & H6 & H7).
  exact (fcart_total_distinct n leq parents children tops c dpth H1 H2 H3 H4 H5 H6 H7).
Qed.
Print Assumptions C19_fcart_total_distinct.

(* ... and every element is drawn strictly lower than everything strictly above it *)
Theorem C19_fcart_order : forall n leq parents children tops c dpth,
  poset_answers n leq parents children tops ->
  exists ps, fcart_layout n parents children tops c dpth = LOk ps /\
    forall i j, i < n -> j < n -> slt leq j i = true ->
      (snd (nth j ps (0, 0)) < snd (nth i ps (0, 0)))%Q.
Proof.
  intros n leq parents children tops c dpth (H1 & H2 & H3 & H4 & H5 & H6 & H7).
  exact (fcart_order n leq parents children tops c dpth H1 H2 H3 H4 H5 H6 H7).
Qed.
Print Assumptions C19_fcart_order.

(* the covers computed from the comparison in index order are one such enumeration *)
Theorem C19_instance : forall n leq,
  (forall a b, a < n -> b < n -> leq a b = true -> leq b a = true -> a = b) ->
  (forall a b c, a < n -> b < n -> c < n -> leq a b = true -> leq b c = true -> leq a c = true) ->
  poset_answers n leq (parents_of n leq) (children_of n leq) (tops_of n leq).
Proof.
  intros n leq H1 H2. unfold poset_answers.
  split; [exact H1|]. split; [exact H2|].
  split; [intros v p Hv; apply parents_of_spec; exact Hv|].
  split; [intros v x Hv; apply children_of_spec; exact Hv|].
  split; [apply children_of_nodup|]. split; [apply tops_of_spec | apply tops_of_nodup].
Qed.
Print Assumptions C19_instance.

(* ------------------------------------------------------------------ the mover *)
(* loading positions and reading them back is the identity, in both orientations (no
   distinctness is needed for this) *)
Theorem C19_mover_roundtrip : forall v p,
  Forall2 (fun a b => (fst a == fst b)%Q /\ (snd a == snd b)%Q) (pos (load v p)) p.
Proof. exact load_roundtrip. Qed.
Print Assumptions C19_mover_roundtrip.


(* levels_untouched: over ALL histories of swap / shift / jitter / place / direction changes, from
   ANY state, no node's level and no level coordinate ever changes *)
Theorem C19_levels_untouched : forall ops s,
  m_levels (run s ops) = m_levels s /\ m_plev (run s ops) = m_plev s /\
  forall el, level_coord (run s ops) el = level_coord s el.
Proof.
  intros ops s. pose proof (run_levels ops s) as H. destruct H as [H1 H2]. repeat split; auto.
  intro el. apply level_coord_same. split; assumption.
Qed.
Print Assumptions C19_levels_untouched.

(* ... and a node is only ever moved by operations on nodes of its own level *)

Theorem C19_other_levels_history : forall ops s el,
  (forall o, In o ops -> exists i, op_node o = Some i /\ level_of s i <> level_of s el) ->
  pos_of (run s ops) el = pos_of s el.
Proof. exact run_other_levels. Qed.
Print Assumptions C19_other_levels_history.

(* swap_exact: on one level exactly the two positions are exchanged; across levels the
   operation is rejected and nothing changes *)
Theorem C19_swap_exact : forall s a b,
  a < length (m_order s) -> b < length (m_order s) ->
  (level_of s a = level_of s b ->
     snd (swap_nodes s a b) = 0 /\
     pos_of (fst (swap_nodes s a b)) a = pos_of s b /\
     pos_of (fst (swap_nodes s a b)) b = pos_of s a /\
     forall el, el <> a -> el <> b -> pos_of (fst (swap_nodes s a b)) el = pos_of s el) /\
  (level_of s a <> level_of s b -> swap_nodes s a b = (s, 2)).
Proof. intros s a b Ha Hb. split; [exact (swap_exact s a b Ha Hb) | exact (swap_rejected s a b)]. Qed.
Print Assumptions C19_swap_exact.


(* jitter_offset: unless the overlap assertion fires, the peer coordinate of the node becomes
   exactly old + dx (all three branches: border, order preserving, crossing) *)
Theorem C19_jitter_offset : forall s i dx,
  wf_state s -> i < length (m_levels s) -> snd (jitter_node s i dx) = 0 ->
  peer_coord (fst (jitter_node s i dx)) i = (peer_coord s i + dx)%Q.
Proof. exact jitter_offset. Qed.
Print Assumptions C19_jitter_offset.

(* place_exact: in the vertical orientation the x coordinate becomes the requested one *)
Theorem C19_place_exact : forall s i x,
  wf_state s -> i < length (m_levels s) -> m_v s = true -> snd (place_node s i x) = 0 ->
  (fst (pos_of (fst (place_node s i x)) i) == x)%Q.
Proof. exact place_exact. Qed.
Print Assumptions C19_place_exact.

(* shift_exact.  In every state reached from a loaded picture by operations on in-range nodes
   the slots of a level are exactly 0..m-1 ([slots_ok]); then shift_node(i, k) never fails, does
   not touch pos_peers (the same coordinates are reused), moves i by min(|k|, room) slots in the
   direction of k, and moves exactly the peers it passes one slot the other way. *)
Theorem C19_reachable_slots_ok : forall v p ops,
  Forall (op_in_range (length p)) ops -> slots_ok (run (load v p) ops).
Proof. exact reachable_slots_ok. Qed.
Print Assumptions C19_reachable_slots_ok.

Theorem C19_shift_exact : forall s i k,
  slots_ok s -> i < length (m_levels s) ->
  let pid := slot_of s i in
  let m := length (nth (level_of s i) (m_ppeers s) []) in
  let r := if Z.leb 0 k then Nat.min (Z.abs_nat k) (m - S pid) else Nat.min (Z.abs_nat k) pid in
  let pid' := if Z.leb 0 k then pid + r else pid - r in
  let s' := fst (shift_node s i k) in
  snd (shift_node s i k) = 0 /\ m_ppeers s' = m_ppeers s /\ m_v s' = m_v s /\
  slot_of s' i = pid' /\
  forall el, el <> i ->
    slot_of s' el =
      if Nat.eqb (level_of s el) (level_of s i) && Nat.ltb el (length (m_levels s))
      then if Z.leb 0 k
           then if Nat.ltb pid (slot_of s el) && Nat.leb (slot_of s el) pid' then slot_of s el - 1 else slot_of s el
           else if Nat.leb pid' (slot_of s el) && Nat.ltb (slot_of s el) pid then slot_of s el + 1 else slot_of s el
      else slot_of s el.
Proof. exact shift_exact. Qed.
Print Assumptions C19_shift_exact.

(* From a picture with pairwise different points, operations on in-range nodes only reach states in
   which the coordinates of every level are strictly increasing in slot order: so slot order IS
   the left-to-right order drawn, two nodes never come to share a point, and shift_exact /
   jitter_offset speak about places among the peers as drawn. *)
Theorem C19_reachable_sorted : forall v p ops,
  distinct_pts p -> Forall (op_in_range (length p)) ops -> rows_sorted (run (load v p) ops).
Proof. exact reachable_rows_sorted. Qed.
Print Assumptions C19_reachable_sorted.

Theorem C19_slot_order_is_coord_order : forall s a b,
  slots_ok s -> rows_sorted s ->
  a < length (m_levels s) -> b < length (m_levels s) -> level_of s a = level_of s b ->
  (slot_of s a < slot_of s b <-> (peer_coord s a < peer_coord s b)%Q) /\
  (a <> b -> ~ (peer_coord s a == peer_coord s b)%Q).
Proof.
  intros s a b OK RS Ha Hb L. split; [exact (slot_order_is_coord_order s a b OK RS Ha Hb L)|].
  intro N. exact (reachable_distinct s a b OK RS Ha Hb N L).
Qed.
Print Assumptions C19_slot_order_is_coord_order.


(* shift in coordinates: the node lands on the pid'-th coordinate of the (unchanged) row of its
   level, every peer passed takes the neighbouring coordinate *)
Theorem C19_shift_exact_coords : forall s i k,
  slots_ok s -> i < length (m_levels s) ->
  let row := nth (level_of s i) (m_ppeers s) [] in
  let pid := slot_of s i in
  let r := if Z.leb 0 k then Nat.min (Z.abs_nat k) (length row - S pid) else Nat.min (Z.abs_nat k) pid in
  let pid' := if Z.leb 0 k then pid + r else pid - r in
  let s' := fst (shift_node s i k) in
  peer_coord s i = nth pid row 0%Q /\ peer_coord s' i = nth pid' row 0%Q /\
  forall el, el <> i -> el < length (m_levels s) -> level_of s el = level_of s i ->
    peer_coord s' el =
      nth (if Z.leb 0 k
           then if Nat.ltb pid (slot_of s el) && Nat.leb (slot_of s el) pid' then slot_of s el - 1 else slot_of s el
           else if Nat.leb pid' (slot_of s el) && Nat.ltb (slot_of s el) pid then slot_of s el + 1 else slot_of s el)
          row 0%Q.
Proof. exact shift_exact_coords. Qed.
Print Assumptions C19_shift_exact_coords.

(* (the mechanism behind it - the swaps of the loop rotate the slots along the peers walked over -
   is Lemmas/C19_Mover.v swap_all_rot; that [height] satisfies [is_height] is
   Lemmas/C19_HeightSpec.v height_is_height; the one-step version of "other levels" is
   Lemmas/C19_Mover.v step_other_levels; well-formedness of reachable states is part of slots_ok) *)

(* ---- non-vacuity *)
(* the 5-element poset  4 < 1 < 0,  4 < 2 < 0,  3 < 2  (a long and a short way up, indices not in
   level order): the hypotheses hold, levels are [0;1;1;2;2], fcart positions are distinct *)
Definition ex_rel : list (list bool) :=
  [[true; false; false; false; false];
   [true; true; false; false; false];
   [true; false; true; false; false];
   [true; false; true; true; false];
   [true; true; true; false; true]].
Definition ex_leq := rel_leq ex_rel.

Example C19_nonvacuous_layout :
  poset_answers 5 ex_leq (parents_of 5 ex_leq) (children_of 5 ex_leq) (tops_of 5 ex_leq) /\
  (exists ld, calc_levels 5 (parents_of 5 ex_leq) (children_of 5 ex_leq) (tops_of 5 ex_leq)
              = LOk ([0; 1; 1; 2; 2]%Z, ld)) /\
  map (height 5 ex_leq) (seq 0 5) = [0; 1; 1; 2; 2] /\
  layout_ok 5 ex_leq (match fcart_layout 5 (parents_of 5 ex_leq) (children_of 5 ex_leq) (tops_of 5 ex_leq) (1 # 2) 1
                      with LOk ps => ps | LErr _ => [] end) = true.
Proof.
  split; [|split; [|split]].
  - assert (PO := po_ok_spec 5 ex_leq eq_refl). destruct PO as [A T]. apply C19_instance; assumption.
  - eexists. vm_compute. reflexivity.
  - vm_compute. reflexivity.
  - vm_compute. reflexivity.
Qed.

(* a mover history on a picture with two levels, in the horizontal orientation: the state is
   well formed, swap / shift / jitter (crossing two peers) / a rejected swap behave as stated *)
Definition ex_pic : list (Q * Q) := [(1, 0); (1, 1 # 2); (0, 0); (1, 1); (0, 1 # 4); (1, -(1))]%Q.
Example C19_nonvacuous_mover :
  let s := load false ex_pic in
  level_of s 0 = level_of s 1 /\ level_of s 0 <> level_of s 2 /\
  snd (step s (Swap 0 2)) = 2 /\
  map (fun q => (Qred (fst q), Qred (snd q))) (pos (fst (step s (Swap 0 1)))) =
    [(1, 1 # 2); (1, 0); (0, 0); (1, 1); (0, 1 # 4); (1, -(1))]%Q /\
  map (fun q => (Qred (fst q), Qred (snd q))) (pos (fst (step s (Shift 5 2)))) =
    [(1, -(1)); (1, 0); (0, 0); (1, 1); (0, 1 # 4); (1, 1 # 2)]%Q /\
  snd (step s (Jitter 5 (7 # 4))) = 0 /\
  Qred (peer_coord (fst (step s (Jitter 5 (7 # 4)))) 5) = (3 # 4)%Q /\
  snd (step s (Jitter 5 2)) = 6.
Proof. cbv zeta. repeat split; try (vm_compute; reflexivity). vm_compute. discriminate. Qed.

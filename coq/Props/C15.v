(* Props/C15.v — property C15: approximate miners return only genuine concepts and honour
   their limits.  Only theorem statements, each closed by [exact] of a lemma from Lemmas/, with
   Print Assumptions beneath.

   [shuffle] is the iteration order of the Python set that Sofia sorts (any permutation);
   [mu] is an ARBITRARY interestingness measure — the theorems cannot depend on either of the
   two stability bounds of the code; where a value per extent is needed that is the hypothesis
   [forall l, length (mu l) = length l], which both bounds of the code satisfy
   (C15_code_measures_total).  [b] ranges over the three back-end models, [L] is L_max (no
   lower bound is needed), [min_supp] a rational (count, or fraction when < 1). *)
From Coq Require Import QArith Permutation.
From FCA Require Import Base.ListSet Model.BinTable Model.FormalContext Spec.Galois Spec.Closure.
From FCA Require Import Model.Sofia Model.C15Interval Model.TreeExtents Spec.C15 Lemmas.C15Bits Lemmas.C15Sofia Lemmas.C15Formal Lemmas.C15Exact Lemmas.C15Tree Lemmas.C15Interval Lemmas.C15MVExact Lemmas.C15Forest.
Local Open Scope nat_scope.

(* ------------------------------------------------------------------ Sofia, formal contexts *)

Theorem C15_sofia_genuine : forall shuffle mu,
  (forall l, Permutation l (shuffle l)) ->
  forall b t, wf t -> forall L min_supp A B,
  In (A, B) (sofia_formal shuffle mu b t L min_supp) ->
  is_concept t A B /\ in_range (width t) B.
Proof. exact formal_genuine. Qed.
Print Assumptions C15_sofia_genuine.

Theorem C15_sofia_distinct : forall shuffle mu,
  (forall l, Permutation l (shuffle l)) ->
  forall b t L min_supp, NoDup (map fst (sofia_formal shuffle mu b t L min_supp)).
Proof. exact formal_distinct. Qed.
Print Assumptions C15_sofia_distinct.

Theorem C15_sofia_top_least : forall shuffle mu,
  (forall l, Permutation l (shuffle l)) ->
  forall b t L min_supp, (forall l, length (mu l) = length l) ->
  In (all_objs t) (map fst (sofia_formal shuffle mu b t L min_supp)) /\
  exists A0 rest, map fst (sofia_formal shuffle mu b t L min_supp) = A0 :: rest /\
                  forall A, In A rest -> incl A0 A.
Proof. exact formal_top_least. Qed.
Print Assumptions C15_sofia_top_least.

Theorem C15_sofia_limit : forall shuffle mu,
  (forall l, Permutation l (shuffle l)) ->
  forall b t L min_supp, (forall l, length (mu l) = length l) ->
  length (sofia_formal shuffle mu b t L min_supp) <= L + 2.
Proof. exact formal_limit. Qed.
Print Assumptions C15_sofia_limit.

(* stronger than the property asks: every extent but the FIRST meets the threshold *)
Theorem C15_sofia_support : forall shuffle mu,
  (forall l, Permutation l (shuffle l)) ->
  forall b t L min_supp A,
  In A (tl (map fst (sofia_formal shuffle mu b t L min_supp))) ->
  (eff_min_supp min_supp (height t) <= inject_Z (Z.of_nat (length A)))%Q.
Proof. exact formal_support. Qed.
Print Assumptions C15_sofia_support.

Theorem C15_sofia_is_lattice : forall shuffle mu,
  (forall l, Permutation l (shuffle l)) ->
  forall b t L min_supp, (forall l, length (mu l) = length l) ->
  let R := map fst (sofia_formal shuffle mu b t L min_supp) in
  (exists top, In top R /\ (forall A, In A R -> incl A top) /\
               forall top', In top' R -> (forall A, In A R -> incl A top') -> top' = top) /\
  (exists bot, In bot R /\ (forall A, In A R -> incl bot A) /\
               forall bot', In bot' R -> (forall A, In A R -> incl bot' A) -> bot' = bot).
Proof. exact formal_is_lattice. Qed.
Print Assumptions C15_sofia_is_lattice.

(* both stability bounds of the code produce one value per extent *)
Theorem C15_code_measures_total : forall use_log l, length (measure_of use_log l) = length l.
Proof. exact measure_of_length. Qed.
Print Assumptions C15_code_measures_total.

(* "all concepts when the limit is not binding": no support threshold and L_max at least the
   number of extents of the context (then no projection step can exceed L_max) *)
Theorem C15_sofia_exact : forall shuffle mu,
  (forall l, Permutation l (shuffle l)) ->
  forall b t L, length (extents_spec t) <= L ->
  forall A, In A (map fst (sofia_formal shuffle mu b t L 0%Q)) <-> In A (extents_spec t).
Proof. exact sofia_exact. Qed.
Print Assumptions C15_sofia_exact.

(* ------------------------------------------------------------------ Sofia, interval columns *)

Theorem C15_sofia_mv_genuine : forall shuffle mu,
  (forall l, Permutation l (shuffle l)) ->
  forall K, mv_wf K -> forall L min_supp A d,
  In (A, d) (sofia_mv shuffle mu K L min_supp) -> mv_is_concept K A d.
Proof. exact sofia_mv_genuine. Qed.
Print Assumptions C15_sofia_mv_genuine.

Theorem C15_sofia_mv_distinct : forall shuffle mu,
  (forall l, Permutation l (shuffle l)) ->
  forall K, mv_wf K -> forall L min_supp, NoDup (map fst (sofia_mv shuffle mu K L min_supp)).
Proof. exact sofia_mv_distinct. Qed.
Print Assumptions C15_sofia_mv_distinct.

Theorem C15_sofia_mv_top_least : forall shuffle mu,
  (forall l, Permutation l (shuffle l)) ->
  forall K, mv_wf K -> forall L min_supp, (forall l, length (mu l) = length l) ->
  In (seq 0 (mv_nobj K)) (map fst (sofia_mv shuffle mu K L min_supp)) /\
  exists A0 rest, map fst (sofia_mv shuffle mu K L min_supp) = A0 :: rest /\
                  forall A, In A rest -> incl A0 A.
Proof. exact sofia_mv_top_least. Qed.
Print Assumptions C15_sofia_mv_top_least.

Theorem C15_sofia_mv_limit : forall shuffle mu,
  (forall l, Permutation l (shuffle l)) ->
  forall K, mv_wf K -> forall L min_supp, (forall l, length (mu l) = length l) ->
  length (sofia_mv shuffle mu K L min_supp) <= L + 2.
Proof. exact sofia_mv_limit. Qed.
Print Assumptions C15_sofia_mv_limit.

Theorem C15_sofia_mv_support : forall shuffle mu,
  (forall l, Permutation l (shuffle l)) ->
  forall K, mv_wf K -> forall L min_supp A,
  In A (tl (map fst (sofia_mv shuffle mu K L min_supp))) ->
  (eff_min_supp min_supp (mv_nobj K) <= inject_Z (Z.of_nat (length A)))%Q.
Proof. exact sofia_mv_support. Qed.
Print Assumptions C15_sofia_mv_support.

Theorem C15_sofia_mv_is_lattice : forall shuffle mu,
  (forall l, Permutation l (shuffle l)) ->
  forall K, mv_wf K -> forall L min_supp, (forall l, length (mu l) = length l) ->
  let R := map fst (sofia_mv shuffle mu K L min_supp) in
  (exists top, In top R /\ (forall A, In A R -> incl A top) /\
               forall top', In top' R -> (forall A, In A R -> incl A top') -> top' = top) /\
  (exists bot, In bot R /\ (forall A, In A R -> incl bot A) /\
               forall bot', In bot' R -> (forall A, In A R -> incl bot' A) -> bot' = bot).
Proof. exact sofia_mv_is_lattice. Qed.
Print Assumptions C15_sofia_mv_is_lattice.

(* "all concepts when the limit is not binding" on interval columns: the binary attribute
   extents generate every pattern extent by intersection (interordinal scaling, proved here
   directly for IntervalPS.to_bin_attr_extents), so all pattern extents are returned *)
Theorem C15_sofia_mv_exact : forall shuffle mu,
  (forall l, Permutation l (shuffle l)) ->
  forall K L, mv_wf K -> length (mv_extents_spec K) <= L ->
  forall A, In A (map fst (sofia_mv shuffle mu K L 0%Q)) <-> In A (mv_extents_spec K).
Proof. exact sofia_mv_exact. Qed.
Print Assumptions C15_sofia_mv_exact.

Theorem C15_bin_attrs_generate : forall K A g,
  mv_wf K -> A <> [] -> in_range (mv_nobj K) A -> g < mv_nobj K ->
  (forall a, In a (mv_bin_attr_extents K) ->
             (forall x, In x A -> nth x a false = true) -> nth g a false = true) ->
  mv_covers K (mv_int_spec K A) g = true.
Proof. exact bin_attrs_generate. Qed.
Print Assumptions C15_bin_attrs_generate.

(* the model of IntervalPS / MVContext derivation is the containment filter / min-max description *)
Theorem C15_mv_intention_spec : forall K A, mv_intention K A = mv_int_spec K A.
Proof. exact mv_intention_spec. Qed.
Print Assumptions C15_mv_intention_spec.

Theorem C15_mv_extension_spec : forall K ds, mv_extension K ds = mv_ext_spec K ds.
Proof. exact mv_extension_spec. Qed.
Print Assumptions C15_mv_extension_spec.

(* ------------------------------------------------------------------ trees and forests *)

(* the extents read off the decision-path matrix = the distinct sets of rows reaching the nodes *)
Theorem C15_tree_extents : forall ts X,
  NoDup (tree_extents ts X) /\
  forall A, In A (tree_extents ts X) <->
            exists t p, In t ts /\ In p (node_paths t) /\ A = rows_reaching t p X.
Proof. intros ts X. split; [exact (tree_extents_NoDup ts X)|exact (tree_extents_char ts X)]. Qed.
Print Assumptions C15_tree_extents.

Theorem C15_tree_extents_spec : forall ts X,
  NoDup (tree_extents ts X) /\ forall A, In A (tree_extents ts X) <-> In A (tree_extents_spec ts X).
Proof. exact tree_extents_correct. Qed.
Print Assumptions C15_tree_extents_spec.

(* point-valued interval columns: the rows inside an axis-parallel box (= reaching a node of any
   tree over the numeric table) form a closed set, so (A, A') is a pattern concept *)
Theorem C15_box_closed : forall K t p, mv_points K ->
  let A := rows_reaching t p (mv_to_numeric K) in
  mv_cl K A = A /\ mv_is_concept K A (mv_int_spec K A).
Proof. exact box_closed. Qed.
Print Assumptions C15_box_closed.

(* the repaired miner: genuine on every interval context (no point hypothesis), distinct, top present,
   and exactly the closures of the node extents plus the closure of the empty set's description *)
Theorem C15_rf_genuine : forall K ts A d, In (A, d) (rf_concepts K ts) -> mv_is_concept K A d.
Proof. exact rf_genuine. Qed.
Print Assumptions C15_rf_genuine.

Theorem C15_rf_distinct : forall K ts, NoDup (map fst (rf_concepts K ts)).
Proof. exact rf_distinct. Qed.
Print Assumptions C15_rf_distinct.

Theorem C15_rf_top : forall K ts, ts <> [] -> In (seq 0 (mv_nobj K)) (map fst (rf_concepts K ts)).
Proof. exact rf_top. Qed.
Print Assumptions C15_rf_top.

Theorem C15_rf_extents : forall K ts A,
  In A (map fst (rf_concepts K ts)) <->
  exists A0, In A0 (tree_extents ts (mv_to_numeric K) ++ [mv_extension K (mv_intention K [])]) /\
             A = mv_cl K A0.
Proof. exact rf_extents. Qed.
Print Assumptions C15_rf_extents.

(* what the code did before the repair 12ee249 (D20): correct on point-valued data only *)
Theorem C15_rf_unrepaired_points_genuine : forall K ts, mv_points K ->
  forall A d, In (A, d) (rf_concepts_unrepaired K ts) -> mv_is_concept K A d.
Proof. exact rf_unrepaired_points_genuine. Qed.
Print Assumptions C15_rf_unrepaired_points_genuine.

Theorem C15_rf_unrepaired_refuted :
  exists K ts, mv_wf K /\ exists A d, In (A, d) (rf_concepts_unrepaired K ts) /\ ~ mv_is_concept K A d.
Proof. exact rf_unrepaired_refuted. Qed.
Print Assumptions C15_rf_unrepaired_refuted.

(* ------------------------------------------------------------------ non-vacuity *)

Definition ex_t : table := [[true; false; true]; [true; true; false]; [false; true; true]; [true; true; true]].
Definition ex_K : mvctx := [[(1, 3); (2, 2); (0, 4); (3, 3)]; [(2, 2); (5, 7); (1, 1); (0, 2)]]%Z.
Definition ex_Kp : mvctx := [[(1, 1); (2, 2); (0, 0); (3, 3)]; [(2, 2); (5, 5); (1, 1); (0, 0)]]%Z.
Definition ex_tree : tree := Node 0 (3 # 2) (Node 2 (3 # 2) Leaf Leaf) Leaf.

Example C15_nonvacuous :
  wf ex_t /\ mv_wf ex_K /\ mv_points ex_Kp /\
  (forall l : list extent, Permutation l l) /\
  (forall l, length (measure_of true l) = length l) /\
  (* the limit binds: 8 concepts, 3 returned *)
  length (extents_spec ex_t) = 8 /\
  map fst (sofia_formal (fun l => l) (measure_of true) BBitarray ex_t 2 0%Q) = [[3]; [0; 2; 3]; [0; 1; 2; 3]] /\
  map fst (sofia_formal (fun l => l) (measure_of false) BNumpy ex_t 3 (1 # 2)%Q) = [[3]; [0; 1; 2; 3]] /\
  map fst (sofia_mv (fun l => l) (measure_of true) ex_K 2 0%Q) = [[]; [0; 2; 3]; [0; 1; 2; 3]] /\
  tree_extents [ex_tree] (mv_to_numeric ex_K) = [[0; 1; 2; 3]; [0; 2]; [2]; [0]; [1; 3]] /\
  (* proper intervals: the node extent {0,2} is not closed, the repaired miner returns its closure *)
  mv_cl ex_K [0; 2] = [0; 2] /\ mv_cl ex_K [1; 3] = [1; 3] /\ mv_cl d20_K [0] = [0; 1] /\
  map fst (rf_concepts d20_K [d20_tree]) = [[0; 1]; [1]; []] /\
  rows_reaching ex_tree [true; false] (mv_to_numeric ex_Kp) = [0].
Proof.
  repeat split; try (vm_compute; reflexivity).
  all: try (intros; apply Permutation_refl); try (intros; apply measure_of_length);
    try discriminate; repeat constructor.
Qed.

(* Props/C20.v — property C20: a decision lattice converted from a regression tree predicts as
   the tree does; multiplying / dividing it by a constant scales all predictions.
   Only statements; proofs are in Lemmas/C20.v.  [t] is an ARBITRARY binary tree with a number
   at every node, [X] an arbitrary table of numbers; equalities of predictions are in Q
   (pointwise [==]), the implementation's floats are compared with them up to rounding by the
   correspondence check. *)
From Coq Require Import ZArith QArith.
From FCA Require Import Base.ListSet Model.C20_DecisionLattice Spec.C20_TreeSpec Lemmas.C20.
Local Open Scope nat_scope.

(* the decisions (target deltas) on the root-to-leaf path of any row sum to the leaf's value *)
Theorem C20_telescoping : forall t row,
  (qsum (path_values (deltas t) row) == tree_predict t row)%Q.
Proof. exact telescoping. Qed.
Print Assumptions C20_telescoping.

(* for a tree fitted on X, the generator records that contain row g carry, in tracing order,
   exactly the decisions of the nodes on g's root-to-leaf path, each once *)
Theorem C20_routing_agrees : forall X t g,
  fitted X t = true -> g < length X ->
  map snd (filter (fun r => mem g (fst r)) (records X (deltas t))) = path_values (deltas t) (row_of X g).
Proof. exact routing_agrees. Qed.
Print Assumptions C20_routing_agrees.

(* the conversion succeeds and the lattice predicts, for every row, what the tree predicts *)
Theorem C20_predict_agrees : forall X t,
  fitted X t = true ->
  exists dl, from_tree X t = DOk dl /\ Forall2 Qeq (predict X dl) (map (tree_predict t) X).
Proof. exact predict_agrees. Qed.
Print Assumptions C20_predict_agrees.

(* scaling: every prediction is multiplied / divided by the constant.  The model is purely
   functional, so [dl] itself is unchanged by construction (DL * k and DL / k work on a
   deepcopy; that the copy is independent is checked on the implementation). *)
Theorem C20_scale_mul : forall X dl k,
  Forall2 Qeq (predict X (dl_mul dl k)) (map (fun v => v * k)%Q (predict X dl)).
Proof. exact predict_mul. Qed.
Print Assumptions C20_scale_mul.

Theorem C20_scale_div : forall X dl k,
  ~ (k == 0)%Q ->
  exists dl', dl_div dl k = DOk dl' /\
              Forall2 Qeq (predict X dl') (map (fun v => v / k)%Q (predict X dl)).
Proof.
  intros X dl k H. exists (dl_mul dl (1 / k)%Q). split; [exact (dl_div_ok dl k H) | exact (predict_div X dl k H)].
Qed.
Print Assumptions C20_scale_div.

Theorem C20_scale_div_zero : forall dl k, (k == 0)%Q -> dl_div dl k = DErr 11.
Proof. exact dl_div_zero. Qed.
Print Assumptions C20_scale_div_zero.

(* both together: a scaled lattice of a fitted tree predicts k times the tree's prediction *)
Theorem C20_scaled_tree : forall X t k,
  fitted X t = true ->
  Forall2 Qeq (predict X (dl_mul (deltas t) k)) (map (fun row => tree_predict t row * k)%Q X).
Proof. exact scaled_tree. Qed.
Print Assumptions C20_scaled_tree.

(* ---- non-vacuity: a depth-2 tree on a 5 x 2 table (second split on the same feature as the
   first, a threshold that is itself a data value) is fitted, converts, and predicts 3 values *)
Definition ex_X : table := [[0; 5]; [1; 5]; [2; 7]; [3; 7]; [3; 9]]%Q.
Definition ex_t : rtree :=
  RNode (4 # 1) 0 (3 # 2) (RLeaf (1 # 2))
        (RNode (6 # 1) 0 (2 # 1) (RLeaf (5 # 1)) (RLeaf (13 # 2))).
Example C20_nonvacuous :
  fitted ex_X ex_t = true /\
  from_tree ex_X ex_t = DOk (deltas ex_t) /\
  map Qred (predict ex_X (deltas ex_t)) = [1 # 2; 1 # 2; 5 # 1; 13 # 2; 13 # 2]%Q /\
  map (tree_predict ex_t) ex_X = [1 # 2; 1 # 2; 5 # 1; 13 # 2; 13 # 2]%Q /\
  map Qred (predict ex_X (dl_mul (deltas ex_t) (-(2)))) = [-(1); -(1); -(10); -(13); -(13)]%Q.
Proof. repeat split; vm_compute; reflexivity. Qed.

(* the hypothesis is needed: with a value inside (thr, thr + eps) every node is still reached,
   the conversion succeeds, and the lattice predicts the root's value for that row *)
Definition gap_X : table := [[0]; [(3 # 2) + (1 # 2000000000)]; [3]]%Q.
Definition gap_t : rtree := RNode (5 # 1) 0 (3 # 2) (RLeaf (1 # 1)) (RLeaf (9 # 1)).
Example C20_gap_hypothesis_needed :
  fitted gap_X gap_t = false /\
  from_tree gap_X gap_t = DOk (deltas gap_t) /\
  map Qred (predict gap_X (deltas gap_t)) = [1; 5; 9]%Q /\
  map (tree_predict gap_t) gap_X = [1; 9; 9]%Q.
Proof. repeat split; vm_compute; reflexivity. Qed.

(* Props/C02.v — property C02: every exact lattice construction returns precisely the set of all
   formal concepts, each once, with index and name views that denote the same sets.
   Only statements; proofs are in Lemmas/C02*.v.

   Vocabulary (Lemmas/C02.v):
     lists_all_concepts t ps := NoDup ps /\ forall A B, In (A,B) ps <-> In (A,B) (concepts_spec t)
                                (Spec/Closure.v: In (A,B) (concepts_spec t) <-> A = B' /\ B = A' (B in range))
     views_agree K c         := c_ext c = map oname (c_ext_i c) /\ c_int c = map aname (c_int_i c)
     pair_of_concept c       := (c_ext_i c, c_int_i c)

   Everything is proved in full, nothing is partial: from_objects, Sofia in the exact regime,
   the two object-wise CbO generators (soundness, no duplicates, completeness, and the
   found-intents set never fires on a canonical candidate), close_by_one on wide AND tall
   tables, Lindig in both directions for EVERY iteration order of the candidate set and EVERY
   choice of the work-set element (termination within the fuel, soundness, no duplicates,
   neighbour lemma, completeness), from_context for every algorithm choice. *)
From Coq Require Import Permutation.
From FCA Require Import Base.ListSet Model.BinTable Model.FormalContext Model.ConceptConstruction
     Spec.Galois Spec.Closure Corr.C02 Lemmas.C02 Lemmas.C02_Sofia Lemmas.C02_CbO Lemmas.C02_CbOModel
     Lemmas.C02_CloseByOne Lemmas.C02_Lindig Lemmas.C02_LindigComplete Lemmas.C02_FromContext Lemmas.C02_Check.

(* ---- FormalConcept.from_objects closes an object set (any back-end) *)
Theorem C02_from_objects_closes : forall K A,
  wf (k_table K) -> in_range (k_n K) A ->
  from_objects K A false = concept_of K (cl_obj (k_table K) A) (int (k_table K) A).
Proof. exact from_objects_closes. Qed.
Print Assumptions C02_from_objects_closes.

Theorem C02_from_objects_is_concept : forall K A,
  wf (k_table K) -> in_range (k_n K) A ->
  is_concept (k_table K) (c_ext_i (from_objects K A false)) (c_int_i (from_objects K A false)).
Proof. exact from_objects_is_concept. Qed.
Print Assumptions C02_from_objects_is_concept.

Theorem C02_from_objects_views : forall K A f, views_agree K (from_objects K A f).
Proof. exact from_objects_views. Qed.
Print Assumptions C02_from_objects_views.

(* ---- Sofia with a size limit not below the number of concepts: never prunes, and its working
        set after the last attribute is every extent exactly once *)
Theorem C02_sofia_exact : forall K lmax,
  wf (k_table K) -> length (concepts_spec (k_table K)) <= lmax ->
  exists l, sofia K lmax = Some l /\
            lists_all_concepts (k_table K) (map pair_of_concept l) /\
            Forall (views_agree K) l.
Proof. exact sofia_exact. Qed.
Print Assumptions C02_sofia_exact.

(* ---- object-wise Close-by-One: the yielded SEQUENCE is the canonical pre-order traversal
        [cbo_tuples] (the found-intents set of the fbarray variant never rejects a canonical
        candidate) ... *)
Theorem C02_cbo_fbarray_sequence : forall K,
  wf (k_table K) ->
  cbo_fbarray K = map (fun X => from_objects K X false) (cbo_tuples (k_table K)).
Proof. exact cbo_fbarray_tuples. Qed.
Print Assumptions C02_cbo_fbarray_sequence.

Theorem C02_cbo_objectwise_sequence : forall K,
  wf (k_table K) ->
  cbo_objectwise K = map (fun X => from_objects K X true) (cbo_tuples (k_table K)).
Proof. exact cbo_objectwise_tuples. Qed.
Print Assumptions C02_cbo_objectwise_sequence.

(* ... and that traversal is sound, duplicate-free and complete (canonical-prefix argument) *)
Theorem C02_cbo_sound : forall t X,
  In X (cbo_tuples t) -> good t X /\ closed t X.
Proof. exact cbo_tuples_sound. Qed.
Print Assumptions C02_cbo_sound.

Theorem C02_cbo_nodup : forall t, NoDup (map (canon_set (height t)) (cbo_tuples t)).
Proof. exact cbo_tuples_nodup. Qed.
Print Assumptions C02_cbo_nodup.

Theorem C02_cbo_complete : forall t A,
  in_range (height t) A -> closed t A -> exists X, In X (cbo_tuples t) /\ same_set X A.
Proof. exact cbo_tuples_complete. Qed.
Print Assumptions C02_cbo_complete.

Theorem C02_cbo_fbarray_all_concepts : forall K,
  wf (k_table K) -> lists_all_concepts (k_table K) (map pair_of_concept (cbo_fbarray K)).
Proof. exact cbo_fbarray_all_concepts. Qed.
Print Assumptions C02_cbo_fbarray_all_concepts.

Theorem C02_cbo_fbarray_exact : forall K,
  wf (k_table K) ->
  NoDup (map c_ext_i (cbo_fbarray K)) /\
  (forall A, In A (map c_ext_i (cbo_fbarray K)) <-> In A (extents_spec (k_table K))).
Proof. exact cbo_fbarray_exact. Qed.
Print Assumptions C02_cbo_fbarray_exact.

(* close_by_one_objectwise yields the extent as the (unsorted, duplicate-free) tuple it built *)
Theorem C02_cbo_objectwise_all_concepts : forall K,
  wf (k_table K) ->
  lists_all_concepts (k_table K)
    (map (fun c => (canon_set (k_n K) (c_ext_i c), c_int_i c)) (cbo_objectwise K)) /\
  Forall (fun c => NoDup (c_ext_i c) /\ in_range (k_n K) (c_ext_i c)) (cbo_objectwise K).
Proof. exact cbo_objectwise_all_concepts. Qed.
Print Assumptions C02_cbo_objectwise_all_concepts.

(* ---- close_by_one: wide tables directly, the others through the transposed context *)
Theorem C02_close_by_one_all_concepts : forall K,
  wf (k_table K) -> 0 < k_w K ->
  lists_all_concepts (k_table K) (map pair_of_concept (close_by_one K)) /\
  Forall (views_agree K) (close_by_one K).
Proof. exact close_by_one_all_concepts. Qed.
Print Assumptions C02_close_by_one_all_concepts.

(* ---- Lindig, both directions, EVERY iteration order of the candidate set and EVERY choice of
        the work-set element.  Soundness needs only that the order stays inside the set: the
        loop terminates within the fuel, returns only concepts (with agreeing views), none twice *)
Theorem C02_lindig_sound : forall K ie ord pick,
  wf (k_table K) -> (forall l, incl (ord l) l) -> (forall q, q <> [] -> pick q < length q) ->
  exists cs, lindig_with K ie ord pick = Some cs /\
             Forall (concept_ok K) cs /\ NoDup (map pair_of_concept cs).
Proof. exact lindig_sound. Qed.
Print Assumptions C02_lindig_sound.

(* the neighbour lemma (generic in the iteration direction: [sd] is either side, [cl] its closure
   operator): below any closed C strictly above the closed extent of c, direct_super_concepts
   returns a neighbour N with  extent c < N <= C - whatever permutation [ord] iterates in *)
Theorem C02_lindig_neighbours : forall sd ord,
  (forall l, Permutation (ord l) l) ->
  (forall A, in_range (s_n sd) A -> in_range (s_w sd) (s_int sd A)) ->
  (forall A, in_range (s_n sd) A -> s_int sd (s_ext sd (s_int sd A)) = s_int sd A) ->
  (forall B, in_range (s_w sd) B -> In (s_ext sd B) (sublists (seq 0 (s_n sd)))) ->
  (forall A, in_range (s_n sd) A -> incl A (cl sd A)) ->
  (forall A A', in_range (s_n sd) A -> in_range (s_n sd) A' -> incl A A' -> incl (cl sd A) (cl sd A')) ->
  forall c C,
  canonical sd (c_ext_i c) -> cl sd (c_ext_i c) = c_ext_i c -> canonical sd C -> cl sd C = C ->
  incl (c_ext_i c) C -> ~ incl C (c_ext_i c) ->
  exists x, In x (direct_super_concepts sd ord c) /\ incl (c_ext_i x) C /\
            incl (c_ext_i c) (c_ext_i x) /\ exists g, In g (c_ext_i x) /\ ~ In g (c_ext_i c).
Proof. exact neighbour_below. Qed.
Print Assumptions C02_lindig_neighbours.

(* completeness: every concept exactly once and nothing else *)
Theorem C02_lindig_complete : forall K ie ord pick,
  wf (k_table K) -> (forall l, Permutation (ord l) l) -> (forall q, q <> [] -> pick q < length q) ->
  exists cs, lindig_with K ie ord pick = Some cs /\
             lists_all_concepts (k_table K) (map pair_of_concept cs) /\ Forall (views_agree K) cs.
Proof. exact lindig_complete. Qed.
Print Assumptions C02_lindig_complete.

(* ---- ConceptLattice.from_context, every algorithm choice: 0 default (Lindig), 1 'CbO',
        2 'Lindig' with iterate_extents True / False / None, 3 'Sofia' with L_max not below the
        number of concepts *)
Theorem C02_from_context_exact : forall K algo ie lmax,
  wf (k_table K) -> 0 < k_w K ->
  algo <= 2 \/ length (concepts_spec (k_table K)) <= lmax ->
  exists l, from_context_concepts K algo ie lmax = Some l /\
            lists_all_concepts (k_table K) (map pair_of_concept l) /\ Forall (views_agree K) l.
Proof. exact from_context_all_exact. Qed.
Print Assumptions C02_from_context_exact.

(* ---- the executable check of the correspondence means "every concept exactly once, nothing
        else, views agree" *)
Theorem C02_check_meaning : forall c l,
  exactly_all_concepts c l = true <->
  forallb (views_ok c) l = true /\ lists_all_concepts (c_table c) (map (pair_of c) l).
Proof. exact exactly_all_concepts_spec. Qed.
Print Assumptions C02_check_meaning.

(* ---- non-vacuity: a tall 4x3 table with a duplicate row, nested rows and an empty column, and
        its wide transpose, meet the hypotheses; the miners return its 4 concepts *)
Definition ex_tall : table :=
  [[true; false; false]; [true; true; false]; [true; true; false]; [false; true; false]].
Definition ex_K (b : backend) := mkCtx b ex_tall [10; 11; 12; 13] [20; 21; 22].
Definition ex_KT (b : backend) := ctx_T (ex_K b).

Example C02_nonvacuous :
  wf ex_tall /\ 0 < k_w (ex_K BBitarray) /\ wf (k_table (ex_KT BNumpy)) /\ 0 < k_w (ex_KT BNumpy) /\
  in_range (k_n (ex_K BLists)) [2] /\
  length (concepts_spec ex_tall) = 5 /\
  from_objects (ex_K BBitarray) [2] false = mkC [1; 2] [11; 12] [0; 1] [20; 21] /\
  map pair_of_concept (close_by_one (ex_K BBitarray))
    = [([0; 1; 2; 3], []); ([0; 1; 2], [0]); ([1; 2], [0; 1]); ([], [0; 1; 2]); ([1; 2; 3], [1])] /\
  map pair_of_concept (close_by_one (ex_KT BNumpy))
    = [([], [0; 1; 2; 3]); ([0], [0; 1; 2]); ([0; 1], [1; 2]); ([0; 1; 2], []); ([1], [1; 2; 3])] /\
  map pair_of_concept (cbo_objectwise (ex_K BLists))
    = [([], [0; 1; 2]); ([0; 1; 2], [0]); ([0; 1; 2; 3], []); ([1; 2], [0; 1]); ([1; 2; 3], [1])] /\
  option_map (map pair_of_concept) (sofia (ex_K BNumpy) 5)
    = Some [([], [0; 1; 2]); ([1; 2], [0; 1]); ([0; 1; 2], [0]); ([1; 2; 3], [1]); ([0; 1; 2; 3], [])] /\
  sofia (ex_K BNumpy) 4 = None /\          (* below the number of concepts: outside the exact regime *)
  option_map (map pair_of_concept) (lindig (ex_K BLists) None)
    = Some [([0; 1; 2; 3], []); ([0; 1; 2], [0]); ([1; 2; 3], [1]); ([1; 2], [0; 1]); ([], [0; 1; 2])] /\
  option_map (map pair_of_concept) (lindig (ex_KT BLists) None)
    = Some [([], [0; 1; 2; 3]); ([0], [0; 1; 2]); ([1], [1; 2; 3]); ([0; 1], [1; 2]); ([0; 1; 2], [])].
Proof.
  repeat split; try (vm_compute; reflexivity); try (vm_compute; lia);
    try (repeat constructor; fail);
    try (intros x [H|[]]; subst; vm_compute; lia).
Qed.

(* Props/C02.v — property C02: every exact lattice construction returns precisely the set of all
   formal concepts, each once, with index and name views that denote the same sets.
   Only statements; proofs are in Lemmas/C02*.v.

   Vocabulary (Lemmas/C02.v):
     lists_all_concepts t ps := NoDup ps /\ forall A B, In (A,B) ps <-> In (A,B) (concepts_spec t)
                                (Spec/Closure.v: In (A,B) (concepts_spec t) <-> A = B' /\ B = A' (B in range))
     views_agree K c         := c_ext c = map oname (c_ext_i c) /\ c_int c = map aname (c_int_i c)
     pair_of_concept c       := (c_ext_i c, c_int_i c)

   Everything is proved in full, nothing is partial: from_objects, Sofia in the exact regime,
   the two object-wise CbO generators (soundness, no duplicates, completeness, and the
   found-intents set never fires on a canonical candidate), close_by_one on wide AND tall
   tables, Lindig in both directions for EVERY iteration order of the candidate set and EVERY
   choice of the work-set element (termination within the fuel, soundness, no duplicates,
   neighbour lemma, completeness), from_context for every algorithm choice. *)
From Coq Require Import Permutation.
From FCA Require Import Base.ListSet Model.BinTable Model.FormalContext Model.ConceptConstruction
     Model.ConceptConstructionStack Model.LatticeOrder Model.FromContextLattice
     Spec.Galois Spec.Closure Spec.LatticeOrderSpec Corr.C02 Lemmas.C02 Lemmas.C02_Sofia Lemmas.C02_CbO Lemmas.C02_CbOModel
     Lemmas.C02_CloseByOne Lemmas.C02_Lindig Lemmas.C02_LindigComplete Lemmas.C02_FromContext Lemmas.C02_Check Lemmas.C02_Stack Lemmas.C02_LindigCovers
     Lemmas.C02_FromContextLatticeBase Lemmas.C02_FromContextLattice.

(* ---- FormalConcept.from_objects closes an object set (any back-end) *)
Theorem C02_from_objects_closes : forall K A,
  wf (k_table K) -> in_range (k_n K) A ->
  from_objects K A false = concept_of K (cl_obj (k_table K) A) (int (k_table K) A).
Proof. exact from_objects_closes. Qed.
Print Assumptions C02_from_objects_closes.

Theorem C02_from_objects_is_concept : forall K A,
  wf (k_table K) -> in_range (k_n K) A ->
  is_concept (k_table K) (c_ext_i (from_objects K A false)) (c_int_i (from_objects K A false)).
Proof. exact from_objects_is_concept. Qed.
Print Assumptions C02_from_objects_is_concept.

Theorem C02_from_objects_views : forall K A f, views_agree K (from_objects K A f).
Proof. exact from_objects_views. Qed.
Print Assumptions C02_from_objects_views.

(* ---- Sofia with a size limit not below the number of concepts: never prunes, and its working
        set after the last attribute is every extent exactly once *)
Theorem C02_sofia_exact : forall K lmax,
  wf (k_table K) -> length (concepts_spec (k_table K)) <= lmax ->
  exists l, sofia K lmax = Some l /\
            lists_all_concepts (k_table K) (map pair_of_concept l) /\
            Forall (views_agree K) l.
Proof. exact sofia_exact. Qed.
Print Assumptions C02_sofia_exact.

(* ---- object-wise Close-by-One: the yielded SEQUENCE is the canonical pre-order traversal
        [cbo_tuples] (the found-intents set of the fbarray variant never rejects a canonical
        candidate) ... *)
Theorem C02_cbo_fbarray_sequence : forall K,
  wf (k_table K) ->
  cbo_fbarray K = map (fun X => from_objects K X false) (cbo_tuples (k_table K)).
Proof. exact cbo_fbarray_tuples. Qed.
Print Assumptions C02_cbo_fbarray_sequence.

Theorem C02_cbo_objectwise_sequence : forall K,
  wf (k_table K) ->
  cbo_objectwise K = map (fun X => from_objects K X true) (cbo_tuples (k_table K)).
Proof. exact cbo_objectwise_tuples. Qed.
Print Assumptions C02_cbo_objectwise_sequence.

(* ... and that traversal is sound, duplicate-free and complete (canonical-prefix argument) *)
Theorem C02_cbo_sound : forall t X,
  In X (cbo_tuples t) -> good t X /\ closed t X.
Proof. exact cbo_tuples_sound. Qed.
Print Assumptions C02_cbo_sound.

Theorem C02_cbo_nodup : forall t, NoDup (map (canon_set (height t)) (cbo_tuples t)).
Proof. exact cbo_tuples_nodup. Qed.
Print Assumptions C02_cbo_nodup.

Theorem C02_cbo_complete : forall t A,
  in_range (height t) A -> closed t A -> exists X, In X (cbo_tuples t) /\ same_set X A.
Proof. exact cbo_tuples_complete. Qed.
Print Assumptions C02_cbo_complete.

Theorem C02_cbo_fbarray_all_concepts : forall K,
  wf (k_table K) -> lists_all_concepts (k_table K) (map pair_of_concept (cbo_fbarray K)).
Proof. exact cbo_fbarray_all_concepts. Qed.
Print Assumptions C02_cbo_fbarray_all_concepts.

Theorem C02_cbo_fbarray_exact : forall K,
  wf (k_table K) ->
  NoDup (map c_ext_i (cbo_fbarray K)) /\
  (forall A, In A (map c_ext_i (cbo_fbarray K)) <-> In A (extents_spec (k_table K))).
Proof. exact cbo_fbarray_exact. Qed.
Print Assumptions C02_cbo_fbarray_exact.

(* close_by_one_objectwise yields the extent as the (unsorted, duplicate-free) tuple it built *)
Theorem C02_cbo_objectwise_all_concepts : forall K,
  wf (k_table K) ->
  lists_all_concepts (k_table K)
    (map (fun c => (canon_set (k_n K) (c_ext_i c), c_int_i c)) (cbo_objectwise K)) /\
  Forall (fun c => NoDup (c_ext_i c) /\ in_range (k_n K) (c_ext_i c)) (cbo_objectwise K).
Proof. exact cbo_objectwise_all_concepts. Qed.
Print Assumptions C02_cbo_objectwise_all_concepts.

(* ---- close_by_one: wide tables directly, the others through the transposed context *)
Theorem C02_close_by_one_all_concepts : forall K,
  wf (k_table K) -> 0 < k_w K ->
  lists_all_concepts (k_table K) (map pair_of_concept (close_by_one K)) /\
  Forall (views_agree K) (close_by_one K).
Proof. exact close_by_one_all_concepts. Qed.
Print Assumptions C02_close_by_one_all_concepts.

(* ---- Lindig, both directions, EVERY iteration order of the candidate set and EVERY choice of
        the work-set element.  Soundness needs only that the order stays inside the set: the
        loop terminates within the fuel, returns only concepts (with agreeing views), none twice *)
Theorem C02_lindig_sound : forall K ie ord pick,
  wf (k_table K) -> (forall l, incl (ord l) l) -> (forall q, q <> [] -> pick q < length q) ->
  exists cs, lindig_with K ie ord pick = Some cs /\
             Forall (concept_ok K) cs /\ NoDup (map pair_of_concept cs).
Proof. exact lindig_sound. Qed.
Print Assumptions C02_lindig_sound.

(* the neighbour lemma (generic in the iteration direction: [sd] is either side, [cl] its closure
   operator): below any closed C strictly above the closed extent of c, direct_super_concepts
   returns a neighbour N with  extent c < N <= C - whatever permutation [ord] iterates in *)
Theorem C02_lindig_neighbours : forall sd ord,
  (forall l, Permutation (ord l) l) ->
  (forall A, in_range (s_n sd) A -> in_range (s_w sd) (s_int sd A)) ->
  (forall A, in_range (s_n sd) A -> s_int sd (s_ext sd (s_int sd A)) = s_int sd A) ->
  (forall B, in_range (s_w sd) B -> In (s_ext sd B) (sublists (seq 0 (s_n sd)))) ->
  (forall A, in_range (s_n sd) A -> incl A (cl sd A)) ->
  (forall A A', in_range (s_n sd) A -> in_range (s_n sd) A' -> incl A A' -> incl (cl sd A) (cl sd A')) ->
  forall c C,
  canonical sd (c_ext_i c) -> cl sd (c_ext_i c) = c_ext_i c -> canonical sd C -> cl sd C = C ->
  incl (c_ext_i c) C -> ~ incl C (c_ext_i c) ->
  exists x, In x (direct_super_concepts sd ord c) /\ incl (c_ext_i x) C /\
            incl (c_ext_i c) (c_ext_i x) /\ exists g, In g (c_ext_i x) /\ ~ In g (c_ext_i c).
Proof. exact neighbour_below. Qed.
Print Assumptions C02_lindig_neighbours.

(* completeness: every concept exactly once and nothing else *)
Theorem C02_lindig_complete : forall K ie ord pick,
  wf (k_table K) -> (forall l, Permutation (ord l) l) -> (forall q, q <> [] -> pick q < length q) ->
  exists cs, lindig_with K ie ord pick = Some cs /\
             lists_all_concepts (k_table K) (map pair_of_concept cs) /\ Forall (views_agree K) cs.
Proof. exact lindig_complete. Qed.
Print Assumptions C02_lindig_complete.

(* ---- ConceptLattice.from_context, every algorithm choice: 0 default (Lindig), 1 'CbO',
        2 'Lindig' with iterate_extents True / False / None, 3 'Sofia' with L_max not below the
        number of concepts *)
Theorem C02_from_context_exact : forall K algo ie lmax,
  wf (k_table K) -> 0 < k_w K ->
  algo <= 2 \/ length (concepts_spec (k_table K)) <= lmax ->
  exists l, from_context_concepts K algo ie lmax = Some l /\
            lists_all_concepts (k_table K) (map pair_of_concept l) /\ Forall (views_agree K) l.
Proof. exact from_context_all_exact. Qed.
Print Assumptions C02_from_context_exact.

(* ---- the executable check of the correspondence means "every concept exactly once, nothing
        else, views agree" *)
Theorem C02_check_meaning : forall c l,
  exactly_all_concepts c l = true <->
  forallb (views_ok c) l = true /\ lists_all_concepts (c_table c) (map (pair_of c) l).
Proof. exact exactly_all_concepts_spec. Qed.
Print Assumptions C02_check_meaning.

(* ---- the code's explicit stack.  Model/ConceptConstructionStack.v transcribes the two CbO
        generators literally (deque of combinations, pop from the right, children pushed for
        g = n-1 .. last, intents_found as state, one unit of fuel per loop iteration).  With fuel
        >= n_objs * (number of concepts) + 1 the loop ends and yields exactly the sequence of the
        pre-order recursion of Model/ConceptConstruction.v *)
Theorem C02_cbo_stack_is_recursion : forall K fuel,
  wf (k_table K) -> k_n K * length (concepts_spec (k_table K)) + 1 <= fuel ->
  cbo_fbarray_stack K fuel = SDone (cbo_fbarray K) /\
  cbo_objectwise_stack K fuel = SDone (cbo_objectwise K).
Proof. exact cbo_stack_is_recursion. Qed.
Print Assumptions C02_cbo_stack_is_recursion.

(* the fuel bound in closed form (what the correspondence check runs with): m * 2^m + 1 for any
   m >= n_objs *)
Theorem C02_cbo_stack_fuel_bound : forall K m,
  wf (k_table K) -> k_n K <= m ->
  cbo_fbarray_stack K (stack_fuel m) = SDone (cbo_fbarray K) /\
  cbo_objectwise_stack K (stack_fuel m) = SDone (cbo_objectwise K).
Proof. exact cbo_stack_fuel_enough. Qed.
Print Assumptions C02_cbo_stack_fuel_bound.

Theorem C02_close_by_one_stack : forall K m,
  wf (k_table K) -> 0 < k_w K -> k_n K <= m -> k_w K <= m ->
  close_by_one_stack K (stack_fuel m) = SDone (close_by_one K).
Proof. exact close_by_one_stack_eq. Qed.
Print Assumptions C02_close_by_one_stack.

(* the machine and its equivalence with the recursion are generic in what one loop iteration
   does ([visit]); the only requirement is that the extent tuple built from a combination
   contains the object added last *)
Theorem C02_dfs_stack_generic : forall (S Y : Type) (n : nat)
    (visit : S -> list nat -> option (Y * list nat * S)),
  (forall st comb y E' st' g r, visit st comb = Some (y, E', st') -> rev comb = g :: r -> In g E') ->
  forall st0 y0 E0 st1 fuel,
  visit st0 [] = Some (y0, E0, st1) ->
  n * length (y0 :: fst (dfs_rec S Y visit E0 (seq 0 n) st1)) + 1 <= fuel ->
  dfs S Y n visit fuel st0 = SDone (y0 :: fst (dfs_rec S Y visit E0 (seq 0 n) st1)).
Proof. exact dfs_equiv_bound. Qed.
Print Assumptions C02_dfs_stack_generic.

(* ---- Lindig's neighbours are EXACTLY the upper covers (every iteration permutation) *)
Theorem C02_lindig_neighbours_exact : forall sd ord,
  (forall l, Permutation (ord l) l) ->
  (forall A, in_range (s_n sd) A -> in_range (s_w sd) (s_int sd A)) ->
  (forall A, in_range (s_n sd) A -> s_int sd (s_ext sd (s_int sd A)) = s_int sd A) ->
  (forall B, in_range (s_w sd) B -> In (s_ext sd B) (sublists (seq 0 (s_n sd)))) ->
  (forall A, in_range (s_n sd) A -> incl A (cl sd A)) ->
  (forall A A', in_range (s_n sd) A -> in_range (s_n sd) A' -> incl A A' -> incl (cl sd A) (cl sd A')) ->
  forall c N, closedc sd (c_ext_i c) ->
  ((exists x, In x (direct_super_concepts sd ord c) /\ c_ext_i x = N) <-> is_cover sd (c_ext_i c) N).
Proof. exact dsc_exact. Qed.
Print Assumptions C02_lindig_neighbours_exact.

(* ---- END TO END: the object ConceptLattice.from_context returns (Model/FromContextLattice.v:
        algorithm choice; for 'CbO' / 'Sofia' sort_concepts + the order computed lazily by POSet's
        cache-free routines over __le__ (the constructor ignores subconcepts_dict); for the default
        / 'Lindig' lindig_algorithm's index / children_dict / parents_dict bookkeeping, the
        constructor's closure of the cover dictionary and the re-sorting).  For every
        well-formed table, back-end, algorithm choice, iteration order of every Python set
        involved ([ord], [cord]: any permutations; [pick]: any choice) there is a closure-loop
        budget k with which the model returns a lattice v such that [lattice_ok]:
          (a) lv_concepts v lists exactly the concepts of the table, each once,
          (b) by non-increasing extent size, cached top = index 0 = all objects, cached bottom =
              last index = the objects having every attribute,
          (c) children / parents of every index are the lower / upper covers w.r.t. extent
              inclusion, descendants / ancestors the strictly smaller / larger extents
              (Spec/LatticeOrderSpec.v).
        Every hypothesis of the C03 lemmas used (lindig_path_total, lindig_top_bottom, listing,
        lattice_order_is_inclusion) is discharged here - in particular that lindig_algorithm's
        children_dict holds exactly the lower covers. *)
Theorem C02_from_context_lattice : forall K algo ie lmax ord pick cord,
  wf (k_table K) -> 0 < k_w K ->
  algo <= 2 \/ length (concepts_spec (k_table K)) <= lmax ->
  (forall l, Permutation (ord l) l) -> (forall q, q <> [] -> pick q < length q) ->
  (forall l, Permutation (cord l) l) ->
  exists k v, from_context_lattice_with K algo ie lmax ord pick cord k = LView v /\
              lattice_ok (k_table K) v.
Proof. exact from_context_lattice_ok. Qed.
Print Assumptions C02_from_context_lattice.

(* ---- non-vacuity: a tall 4x3 table with a duplicate row, nested rows and an empty column, and
        its wide transpose, meet the hypotheses; the miners return its 4 concepts *)
Definition ex_tall : table :=
  [[true; false; false]; [true; true; false]; [true; true; false]; [false; true; false]].
Definition ex_K (b : backend) := mkCtx b ex_tall [10; 11; 12; 13] [20; 21; 22].
Definition ex_KT (b : backend) := ctx_T (ex_K b).

Example C02_nonvacuous :
  wf ex_tall /\ 0 < k_w (ex_K BBitarray) /\ wf (k_table (ex_KT BNumpy)) /\ 0 < k_w (ex_KT BNumpy) /\
  in_range (k_n (ex_K BLists)) [2] /\
  length (concepts_spec ex_tall) = 5 /\
  from_objects (ex_K BBitarray) [2] false = mkC [1; 2] [11; 12] [0; 1] [20; 21] /\
  map pair_of_concept (close_by_one (ex_K BBitarray))
    = [([0; 1; 2; 3], []); ([0; 1; 2], [0]); ([1; 2], [0; 1]); ([], [0; 1; 2]); ([1; 2; 3], [1])] /\
  map pair_of_concept (close_by_one (ex_KT BNumpy))
    = [([], [0; 1; 2; 3]); ([0], [0; 1; 2]); ([0; 1], [1; 2]); ([0; 1; 2], []); ([1], [1; 2; 3])] /\
  map pair_of_concept (cbo_objectwise (ex_K BLists))
    = [([], [0; 1; 2]); ([0; 1; 2], [0]); ([0; 1; 2; 3], []); ([1; 2], [0; 1]); ([1; 2; 3], [1])] /\
  option_map (map pair_of_concept) (sofia (ex_K BNumpy) 5)
    = Some [([], [0; 1; 2]); ([1; 2], [0; 1]); ([0; 1; 2], [0]); ([1; 2; 3], [1]); ([0; 1; 2; 3], [])] /\
  sofia (ex_K BNumpy) 4 = None /\          (* below the number of concepts: outside the exact regime *)
  option_map (map pair_of_concept) (lindig (ex_K BLists) None)
    = Some [([0; 1; 2; 3], []); ([0; 1; 2], [0]); ([1; 2; 3], [1]); ([1; 2], [0; 1]); ([], [0; 1; 2])] /\
  option_map (map pair_of_concept) (lindig (ex_KT BLists) None)
    = Some [([], [0; 1; 2; 3]); ([0], [0; 1; 2]); ([1], [1; 2; 3]); ([0; 1], [1; 2]); ([0; 1; 2], [])].
Proof.
  repeat split; try (vm_compute; reflexivity); try (vm_compute; lia);
    try (repeat constructor; fail);
    try (intros x [H|[]]; subst; vm_compute; lia).
Qed.

(* the explicit stack on the same table: 10 loop iterations suffice, 3 do not; and the lattice
   from_context returns (Lindig over intents, closure budget 2^3 rounds; 2^1 rounds are too few) *)
Definition view_summary (r : lattice_res) :=
  match r with
  | LView v => Some (lv_concepts v, map (lv_children v) (seq 0 5), map (lv_parents v) (seq 0 5),
                     lv_top v, lv_bottom v)
  | _ => None
  end.

Example C02_nonvacuous_stack_and_lattice :
  cbo_fbarray_stack (ex_K BBitarray) 10 = SDone (cbo_fbarray (ex_K BBitarray)) /\
  cbo_fbarray_stack (ex_K BBitarray) 3 = SOutOfFuel /\
  cbo_objectwise_stack (ex_K BLists) (stack_fuel 4) = SDone (cbo_objectwise (ex_K BLists)) /\
  view_summary (from_context_lattice (ex_K BNumpy) 2 (Some false) 0 3)
    = Some ([([0; 1; 2; 3], []); ([0; 1; 2], [0]); ([1; 2; 3], [1]); ([1; 2], [0; 1]); ([], [0; 1; 2])],
            [[1; 2]; [3]; [3]; [4]; []], [[]; [0]; [0]; [1; 2]; [3]], Some 0, Some 4) /\
  from_context_lattice (ex_K BNumpy) 2 (Some false) 0 1 = LOutOfFuel.
Proof.
  do 4 (split; [vm_compute; reflexivity|]). vm_compute. reflexivity.
Qed.

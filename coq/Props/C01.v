(* Props/C01.v — property C01: derivation operators return exactly the prime sets.
   Only theorem statements, each closed by [exact] of a lemma from Lemmas/, with
   Print Assumptions beneath.  [b] ranges over the three back-end models. *)
From FCA Require Import Base.ListSet Model.BinTable Model.FormalContext Spec.Galois Spec.Closure Lemmas.C01 Lemmas.C01Galois.

Theorem C01_extension_i_correct : forall b t B base,
  wf t -> in_range (width t) B -> opt_in_range (height t) base ->
  extension_i b t B base = ext_spec t B (default (all_objs t) base).
Proof. exact extension_i_correct. Qed.
Print Assumptions C01_extension_i_correct.

Theorem C01_intention_i_correct : forall b t A base,
  wf t -> in_range (height t) A -> opt_in_range (width t) base ->
  intention_i b t A base = int_spec t A (default (all_attrs t) base).
Proof. exact intention_i_correct. Qed.
Print Assumptions C01_intention_i_correct.

Theorem C01_extension_mono_correct : forall b t B base,
  wf t -> in_range (width t) B -> opt_in_range (height t) base ->
  length B <> width t ->
  extension_monotone_i b t B base = ext_mono_spec t B (default (all_objs t) base).
Proof. exact extension_mono_correct. Qed.
Print Assumptions C01_extension_mono_correct.

Theorem C01_intention_mono_correct : forall b t A base,
  wf t -> in_range (height t) A -> NoDup A -> opt_in_range (width t) base ->
  intention_monotone_i b t A base = int_mono_spec t A (default (all_attrs t) base).
Proof. exact intention_mono_correct. Qed.
Print Assumptions C01_intention_mono_correct.

(* the same for listings with repeats, as long as the length shortcut does not fire *)
Theorem C01_intention_mono_listing_correct : forall b t A base,
  wf t -> in_range (height t) A -> (NoDup A \/ length A <> height t) -> opt_in_range (width t) base ->
  intention_monotone_i b t A base = int_mono_spec t A (default (all_attrs t) base).
Proof. exact intention_mono_correct_listing. Qed.
Print Assumptions C01_intention_mono_listing_correct.

Theorem C01_extension_named_ok : forall b t onames anames ai bi,
  wf t -> NoDup onames -> NoDup anames ->
  length onames = height t -> length anames = width t ->
  in_range (width t) ai -> in_range (height t) bi ->
  extension_named b t onames anames (map (oname anames) ai) (Some (map (oname onames) bi)) false
  = Ok (map (oname onames) (ext_spec t ai bi)).
Proof. exact extension_named_ok. Qed.
Print Assumptions C01_extension_named_ok.

Theorem C01_extension_named_nobase_ok : forall b t onames anames ai,
  wf t -> NoDup anames -> length anames = width t -> in_range (width t) ai ->
  extension_named b t onames anames (map (oname anames) ai) None false
  = Ok (map (oname onames) (ext_spec t ai (all_objs t))).
Proof. exact extension_named_nobase_ok. Qed.
Print Assumptions C01_extension_named_nobase_ok.

Theorem C01_extension_named_mono_ok : forall b t onames anames ai bi,
  wf t -> NoDup onames -> NoDup anames ->
  length onames = height t -> length anames = width t ->
  in_range (width t) ai -> in_range (height t) bi -> length ai <> width t ->
  extension_named b t onames anames (map (oname anames) ai) (Some (map (oname onames) bi)) true
  = Ok (map (oname onames) (ext_mono_spec t ai bi)).
Proof. exact extension_named_mono_ok. Qed.
Print Assumptions C01_extension_named_mono_ok.

Theorem C01_intention_named_ok : forall b t onames anames oi,
  wf t -> NoDup onames -> length onames = height t -> in_range (height t) oi ->
  intention_named b t onames anames (map (oname onames) oi) false
  = Ok (map (oname anames) (int_spec t oi (all_attrs t))).
Proof. exact intention_named_ok. Qed.
Print Assumptions C01_intention_named_ok.

Theorem C01_intention_named_mono_ok : forall b t onames anames oi,
  wf t -> NoDup onames -> length onames = height t -> in_range (height t) oi -> NoDup oi ->
  intention_named b t onames anames (map (oname onames) oi) true
  = Ok (map (oname anames) (int_mono_spec t oi (all_attrs t))).
Proof. exact intention_named_mono_ok. Qed.
Print Assumptions C01_intention_named_mono_ok.

Theorem C01_extension_named_keyerr_attr : forall b t onames anames known x rest base mono,
  NoDup anames -> in_range (length anames) known -> ~ In x anames ->
  extension_named b t onames anames (map (oname anames) known ++ x :: rest) base mono = ErrKey x.
Proof. exact extension_named_keyerr_attr. Qed.
Print Assumptions C01_extension_named_keyerr_attr.

Theorem C01_extension_named_keyerr_obj : forall b t onames anames ai known x rest mono,
  NoDup anames -> NoDup onames -> in_range (length anames) ai ->
  in_range (length onames) known -> ~ In x onames ->
  extension_named b t onames anames (map (oname anames) ai)
                  (Some (map (oname onames) known ++ x :: rest)) mono = ErrKey x.
Proof. exact extension_named_keyerr_obj. Qed.
Print Assumptions C01_extension_named_keyerr_obj.

Theorem C01_intention_named_keyerr : forall b t onames anames known x rest mono,
  NoDup onames -> in_range (length onames) known -> ~ In x onames ->
  intention_named b t onames anames (map (oname onames) known ++ x :: rest) mono = ErrKey x.
Proof. exact intention_named_keyerr. Qed.
Print Assumptions C01_intention_named_keyerr.

(* Corollaries: on every back-end model the two operators form a Galois connection and the
   closure of an object set is a formal concept; the answer does not depend on the back-end. *)
Theorem C01_galois_extensive : forall b t A,
  wf t -> in_range (height t) A -> incl A (extension_i b t (intention_i b t A None) None).
Proof. exact model_galois_extensive. Qed.
Print Assumptions C01_galois_extensive.

Theorem C01_triple_prime : forall b t B,
  wf t -> in_range (width t) B ->
  extension_i b t (intention_i b t (extension_i b t B None) None) None = extension_i b t B None.
Proof. exact model_triple_prime. Qed.
Print Assumptions C01_triple_prime.

Theorem C01_closure_is_concept : forall b t A,
  wf t -> in_range (height t) A ->
  is_concept t (extension_i b t (intention_i b t A None) None) (intention_i b t A None).
Proof. exact model_closure_is_concept. Qed.
Print Assumptions C01_closure_is_concept.

Theorem C01_backend_free : forall b1 b2 t B base,
  wf t -> in_range (width t) B -> opt_in_range (height t) base ->
  extension_i b1 t B base = extension_i b2 t B base.
Proof. exact model_backend_free. Qed.
Print Assumptions C01_backend_free.

(* Non-vacuity: a 3x3 table with a duplicate row, an empty column and an unsorted base meets
   every hypothesis, and the operators compute non-trivial sets on it. *)
Definition ex_t : table := [[true; false; true]; [true; false; true]; [false; false; true]].
Example C01_nonvacuous :
  wf ex_t /\ in_range (width ex_t) [0; 2] /\ opt_in_range (height ex_t) (Some [2; 0]) /\
  length [0; 2] <> width ex_t /\
  extension_i BBitarray ex_t [0; 2] (Some [2; 0]) = [0] /\
  intention_i BNumpy ex_t [0; 2] None = [2] /\
  extension_monotone_i BLists ex_t [0; 1] None = [0; 1] /\
  intention_monotone_i BBitarray ex_t [2] None = [1].
Proof.
  repeat split; try (vm_compute; reflexivity).
  - repeat constructor.
  - intros x [H|[H|[]]]; subst; vm_compute; lia.
  - intros x [H|[H|[]]]; subst; vm_compute; lia.
  - vm_compute. lia.
Qed.

(* Props/C07.v — property C07: every serialisation format round-trips contexts, concepts and
   lattices.  Only statements; proofs are in Lemmas/C07a.v (json / pandas / concept dict),
   Lemmas/C07b.v (cxt / csv text), Lemmas/C07c.v (many-valued json) and Lemmas/C07d.v (pattern
   concepts, lattices).
   Models: Model/C07_Serial.v.  Admissibility predicates (executable, also used by the
   correspondence check): Spec/C07_Roundtrip.v.  Text = list of code points; JSON = the value
   type [jv]; json.dumps/loads, pandas and file I/O are outside the model. *)
From FCA Require Import Base.C07_Str Model.C07_Serial Spec.C07_Roundtrip
  Lemmas.C07a Lemmas.C07b Lemmas.C07c Lemmas.C07d.

Definition no_desc (K : sctx) : sctx := mk_sctx (sc_onames K) (sc_anames K) None (sc_table K).

(* ---------------------------------------------------------------- formal contexts *)

(* cxt: at least 1x1, no name empty or containing a line break, the first object name does not
   begin with white space *)
Theorem C07_cxt_roundtrip : forall K,
  cxt_admissibleb K = true -> read_cxt (write_cxt K) = SOk (no_desc K).
Proof. exact cxt_roundtrip. Qed.
Print Assumptions C07_cxt_roundtrip.

(* csv with a one-character separator, exactly as the property states it: no name contains the
   separator, '\n' or '\r'; the two words are different and free of the separator and of line
   breaks; the separator is not a line break.  White space is allowed everywhere, also as the
   separator (tab-separated files): read_csv strips '\n' only (repair bd678e6 of defect D57) *)
Theorem C07_csv_roundtrip : forall sep wt wf K,
  csv_admissibleb sep wt wf K = true -> read_csv sep wt wf (write_csv sep wt wf K) = SOk (no_desc K).
Proof. exact csv_roundtrip. Qed.
Print Assumptions C07_csv_roundtrip.

(* json keeps the description as well *)
Theorem C07_ctx_json_roundtrip : forall K,
  table_okb K = true -> read_ctx_json (write_ctx_json K) = SOk K.
Proof. exact ctx_json_roundtrip. Qed.
Print Assumptions C07_ctx_json_roundtrip.

Theorem C07_pandas_roundtrip : forall K,
  table_okb K = true -> from_pandas (to_pandas K) = SOk (no_desc K).
Proof. exact pandas_roundtrip. Qed.
Print Assumptions C07_pandas_roundtrip.

(* the hypotheses are needed, not just convenient *)
Definition s_a : str := [97]%N.
Definition s_b : str := [98]%N.
Definition s_x : str := [120]%N.
Definition s_y : str := [121]%N.
Definition K22 (o1 o2 a1 a2 : str) : sctx := mk_sctx [o1; o2] [a1; a2] None [[true; false]; [false; true]].

(* an empty attribute name produces a third "\n\n" : the file is not even parsed *)
Theorem C07_cxt_empty_name_refuted :
  table_okb (K22 s_a s_b [] s_y) = true /\
  read_cxt (write_cxt (K22 s_a s_b [] s_y)) = SErr EValue.
Proof. split; vm_compute; reflexivity. Qed.
Print Assumptions C07_cxt_empty_name_refuted.

(* a leading blank of the FIRST object name is stripped: a different context comes back *)
Theorem C07_cxt_leading_space_refuted :
  table_okb (K22 (32%N :: s_a) s_b s_x s_y) = true /\
  read_cxt (write_cxt (K22 (32%N :: s_a) s_b s_x s_y)) = SOk (K22 s_a s_b s_x s_y).
Proof. split; vm_compute; reflexivity. Qed.
Print Assumptions C07_cxt_leading_space_refuted.

(* ... whereas blanks anywhere else are harmless (the example is admissible) *)
Example C07_cxt_inner_spaces_fine :
  cxt_admissibleb (K22 s_a (32%N :: s_b) (s_x ++ [32%N]) (32%N :: s_y)) = true.
Proof. vm_compute. reflexivity. Qed.

(* the former finding D57: a tab-separated file, names and words with blanks -- admissible now *)
Example C07_csv_tab_separated_admissible :
  csv_admissibleb 9 (s_True ++ [32%N]) (32%N :: s_False) (K22 (32%N :: s_a) s_b (s_x ++ [32%N]) s_y) = true
  /\ read_csv 9 s_True s_False (write_csv 9 s_True s_False (K22 s_a s_b s_x s_y)) = SOk (K22 s_a s_b s_x s_y).
Proof. split; vm_compute; reflexivity. Qed.

(* what is still excluded is excluded for a reason: a line break inside a word ends the line *)
Theorem C07_csv_newline_in_word_refuted :
  table_okb (K22 s_a s_b s_x s_y) = true /\
  read_csv 44 (s_True ++ [NL]) s_False (write_csv 44 (s_True ++ [NL]) s_False (K22 s_a s_b s_x s_y))
  = SErr EValue.
Proof. split; vm_compute; reflexivity. Qed.
Print Assumptions C07_csv_newline_in_word_refuted.

(* a separator inside an attribute name makes one name too many: rejected when read back *)
Theorem C07_csv_sep_in_name_refuted :
  table_okb (K22 s_a s_b (s_x ++ [44%N] ++ s_y) s_y) = true /\
  read_csv 44 s_True s_False (write_csv 44 s_True s_False (K22 s_a s_b (s_x ++ [44%N] ++ s_y) s_y))
  = SErr EAssert.
Proof. split; vm_compute; reflexivity. Qed.
Print Assumptions C07_csv_sep_in_name_refuted.

(* ---------------------------------------------------------------- many-valued contexts *)

(* interval end points may be infinite, with either sign on either side: the value +inf is (inf, inf) *)
Theorem C07_mv_json_roundtrip : forall K,
  mv_admissibleb K = true -> exists v, write_mv_json K = SOk v /\ read_mv_json v = SOk K.
Proof. exact mv_json_roundtrip. Qed.
Print Assumptions C07_mv_json_roundtrip.

(* ---------------------------------------------------------------- concepts *)

(* to_dict then from_dict (= write_json then read_json at the value level) returns the concept
   with every defining field intact; the measures dictionary comes back as
   {Supp, <the measures>, Context_Hash, Monotone} because from_dict stores every top-level key *)
Theorem C07_concept_dict_roundtrip : forall objs attrs c,
  fc_admissibleb objs attrs c = true ->
  exists v, fc_to_dict objs attrs c = SOk v /\ fc_from_dict v = SOk (fc_after c).
Proof. exact fc_dict_roundtrip. Qed.
Print Assumptions C07_concept_dict_roundtrip.

Theorem C07_concept_roundtrip_fields : forall c,
  (fv_extent_i (fc_after c), fv_extent (fc_after c), fv_intent_i (fc_after c), fv_intent (fc_after c),
   fv_hash (fc_after c), fv_mono (fc_after c))
  = (fv_extent_i c, fv_extent c, fv_intent_i c, fv_intent c, fv_hash c, fv_mono c)
  /\ fv_measures (fc_after c) = fc_measures_after c.
Proof. exact fc_after_fields. Qed.
Print Assumptions C07_concept_roundtrip_fields.

(* an extent that is not stored in increasing order (is_extent=True with a permuted subset) comes
   back sorted: as tuples the two concepts differ, so the library's == answers False *)
Definition c_unsorted : fcv := mk_fcv [1; 0] [s_b; s_a] [] [] [] None false.
Theorem C07_concept_noncanonical_refuted :
  exists v c', fc_to_dict [s_a; s_b] [s_x] c_unsorted = SOk v /\ fc_from_dict v = SOk c'
               /\ fv_extent_i c' = [0; 1] /\ fv_extent_i c' <> fv_extent_i c_unsorted.
Proof.
  eexists. eexists. split; [vm_compute; reflexivity|]. split; [vm_compute; reflexivity|].
  split; [reflexivity | discriminate].
Qed.
Print Assumptions C07_concept_noncanonical_refuted.

(* the same for a PatternConcept (to_dict(json_ready=True) / from_dict(json_ready=True)) *)
Theorem C07_pattern_concept_roundtrip : forall c,
  pc_admissibleb c = true -> exists v, pc_to_dict c = SOk v /\ pc_from_dict v = SOk (pc_after c).
Proof. exact pc_dict_roundtrip. Qed.
Print Assumptions C07_pattern_concept_roundtrip.

(* ---------------------------------------------------------------- lattices *)

(* a lattice with at least three concepts whose children_dict holds the true lower covers and
   whose top / bottom are the greatest / least concept: the file is written, read_json decodes the
   same concepts in the same order (defining fields intact, measures as above), and the order
   a ConceptLattice object derives from them -- read_json ignores the arcs and Top/Bottom -- has
   the same cover relation, top and bottom.  Formal (plain or monotone) and pattern lattices. *)
Theorem C07_lattice_json_roundtrip : forall objs attrs L,
  lat_admissibleb objs attrs L = true ->
  exists v, write_lattice_json objs attrs L = SOk v
    /\ read_lattice_json v = SOk (map conceptv_after (lv_concepts L))
    /\ children_eqb (lv_children L) (derived_children (map conceptv_after (lv_concepts L))) = true
    /\ is_top (map conceptv_after (lv_concepts L)) (lv_top L) = true
    /\ is_bottom (map conceptv_after (lv_concepts L)) (lv_bottom L) = true.
Proof. exact lattice_json_roundtrip. Qed.
Print Assumptions C07_lattice_json_roundtrip.

(* fewer than three concepts: the writer refuses (the documented precondition) *)
Theorem C07_lattice_too_small_rejected :
  write_lattice_json [] [] (mk_latv [FC (mk_fcv [] [] [] [] [] None false)] [(0, [])] 0 0) = SErr EAssert.
Proof. reflexivity. Qed.
Print Assumptions C07_lattice_too_small_rejected.

(* ---------------------------------------------------------------- non-vacuity *)

Definition s_g1 : str := [103; 49]%N.
Definition s_g2 : str := [103; 32; 50]%N.        (* "g 2" *)
Definition s_m1 : str := [1078]%N.               (* a Cyrillic letter *)
Definition s_m2 : str := [88; 46]%N.             (* "X." *)
Definition ex_K : sctx := mk_sctx [s_g1; s_g2] [s_m1; s_m2] (Some [100]%N) [[true; false]; [false; false]].
Definition ex_mv : smv :=
  mk_smv [s_g1; s_g2] [s_m1; s_m2] None [PInterval; PSet]
         [[CInterval (FFin 1024) FPosInf; CSet [1; 3]%Z]; [CInterval FNegInf FNegInf; CSet []]].
Definition ex_c (e : list nat) (i : list nat) : fcv :=
  mk_fcv e (names_at [s_g1; s_g2] e) i (names_at [s_m1; s_m2] i) [([115]%N, JFlt (FFin 512))] (Some 77%Z) false.
Definition ex_L : latv :=
  mk_latv [FC (ex_c [0; 1] []); FC (ex_c [0] [0]); FC (ex_c [] [0; 1])] [(0, [1]); (1, [2]); (2, [])] 0 2.
Definition ex_p : pcv :=
  mk_pcv [0] [s_g1] [CInterval FPosInf FPosInf; CSet [1; 3]%Z] [PIntervalNp; PSet] [s_m1; s_m2] [] (Some 5%Z).

Example C07_nonvacuous :
  cxt_admissibleb ex_K = true /\ csv_admissibleb 59 s_True s_False ex_K = true
  /\ csv_admissibleb 9 s_True s_False ex_K = true /\ table_okb ex_K = true
  /\ mv_admissibleb ex_mv = true /\ fc_admissibleb [s_g1; s_g2] [s_m1; s_m2] (ex_c [0] [0]) = true
  /\ pc_admissibleb ex_p = true /\ lat_admissibleb [s_g1; s_g2] [s_m1; s_m2] ex_L = true
  /\ write_cxt ex_K = [66; 10; 10; 50; 10; 50; 10; 10; 103; 49; 10; 103; 32; 50; 10; 1078; 10; 88; 46; 10;
                       88; 46; 10; 46; 46; 10]%N.
Proof. repeat split; vm_compute; reflexivity. Qed.

(* the sign of an infinite end point survives: the value +inf, i.e. the cell (inf, inf), is written as
   [Infinity, Infinity] and read back as (inf, inf) -- not as (-inf, inf) *)
Example C07_infinite_bounds_keep_their_sign :
  cell_to_json PIntervalNp (CInterval FPosInf FPosInf) = SOk (JDoc (JArr [JFlt FPosInf; JFlt FPosInf]))
  /\ cell_from_json PIntervalNp (JDoc (JArr [JFlt FPosInf; JFlt FPosInf])) = SOk (CInterval FPosInf FPosInf)
  /\ cellv_eqb (CInterval FPosInf FPosInf) (CInterval FNegInf FPosInf) = false.
Proof. repeat split; reflexivity. Qed.

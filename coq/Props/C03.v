(* Props/C03.v — property C03: lattice order, covers, top/bottom, meet and join are those of
   extent inclusion.  Only theorem statements, each closed by [exact] of a lemma from Lemmas/
   or Base/Order.v, with Print Assumptions beneath.

   A constructed lattice is represented by its list [cs] of concepts (extent_i, intent_i) in
   listing order.  [concept_list t cs]: every listed pair is a concept of table [t] and no extent
   is listed twice; [full_lattice t cs]: moreover every concept of [t] is listed (what C02 gives
   for CbO / Lindig / Sofia with a non-binding L_max).  The functions on the left-hand sides are
   the transcriptions in Model/LatticeOrder.v; the right-hand sides are Spec/LatticeOrderSpec.v. *)
From Coq Require Import Sorting.Sorted Permutation.
From FCA Require Import Base.ListSet Base.Order Model.LatticeOrder Spec.Closure Spec.LatticeOrderSpec
     Lemmas.C03 Lemmas.C03_lattice Lemmas.C03_corr Lemmas.C03_closed Lemmas.C03_chains Lemmas.C03_chains_total Lemmas.C03_lindig Lemmas.C03_glb Corr.C03 Lemmas.C03_statements.

(* ---- generic order theory (any decidable partial order on a list; reused by the poset cluster) *)

(* the "subtract the down-set of every remaining candidate" loop of POSet._children_nocache
   returns exactly the lower covers, for EVERY visiting order of the candidates *)
Theorem C03_nocache_children_are_covers :
  forall (E : Type) (eqb leq : E -> E -> bool) (els : list E) (x : E) (order : list E),
  eqb_ok eqb -> partial_order_on leq els -> In x els ->
  incl (strict_down eqb leq els x) order ->
  sub_loop eqb (strict_down eqb leq els) order (strict_down eqb leq els x) = lower_covers eqb leq els x.
Proof. exact C03_nocache_children_are_covers_proof. Qed.
Print Assumptions C03_nocache_children_are_covers.

Theorem C03_nocache_parents_are_covers :
  forall (E : Type) (eqb leq : E -> E -> bool) (els : list E) (x : E) (order : list E),
  eqb_ok eqb -> partial_order_on leq els -> In x els ->
  incl (strict_up eqb leq els x) order ->
  sub_loop eqb (strict_up eqb leq els) order (strict_up eqb leq els x) = upper_covers eqb leq els x.
Proof. exact C03_nocache_parents_are_covers_proof. Qed.
Print Assumptions C03_nocache_parents_are_covers.

Theorem C03_below_some_cover :
  forall (E : Type) (eqb leq : E -> E -> bool) (els : list E),
  eqb_ok eqb -> partial_order_on leq els ->
  forall x, In x els -> forall y, In y els -> slt eqb leq y x = true ->
  exists c, In c (lower_covers eqb leq els x) /\ leq y c = true.
Proof. exact C03_below_some_cover_proof. Qed.
Print Assumptions C03_below_some_cover.

(* re-indexing by an injective order embedding (re-sorting of the concept list) commutes with
   down-sets and covers; permuting the element list permutes them *)
Theorem C03_remap_preserves :
  forall (E F : Type) (eqbE : E -> E -> bool) (eqbF : F -> F -> bool)
         (leqE : E -> E -> bool) (leqF : F -> F -> bool) (f : E -> F) (els : list E),
  (forall a b, In a els -> In b els -> leqF (f a) (f b) = leqE a b) ->
  (forall a b, In a els -> In b els -> eqbF (f a) (f b) = eqbE a b) ->
  forall x, In x els ->
  strict_down eqbF leqF (map f els) (f x) = map f (strict_down eqbE leqE els x) /\
  lower_covers eqbF leqF (map f els) (f x) = map f (lower_covers eqbE leqE els x).
Proof. exact C03_remap_preserves_proof. Qed.
Print Assumptions C03_remap_preserves.

Theorem C03_perm_invariance :
  forall (E : Type) (eqb leq : E -> E -> bool) (els els' : list E) (x : E),
  Permutation els els' ->
  Permutation (strict_down eqb leq els x) (strict_down eqb leq els' x) /\
  Permutation (lower_covers eqb leq els x) (lower_covers eqb leq els' x).
Proof. exact C03_perm_invariance_proof. Qed.
Print Assumptions C03_perm_invariance.

(* ---- the concept lattice *)

(* AbstractConcept.__le__ (support shortcut + subset loop) is inclusion of extents *)
Theorem C03_concept_le_is_inclusion : forall c d,
  NoDup (fst c) -> concept_le c d = subsetb (fst c) (fst d).
Proof. exact concept_le_subset. Qed.
Print Assumptions C03_concept_le_is_inclusion.

(* descendants / ancestors = strictly smaller / larger extents, children / parents = lower /
   upper covers, for any duplicate-free list of concepts of one table *)
Theorem C03_lattice_order_is_inclusion : forall t cs i,
  concept_list t cs -> i < length cs ->
  descendants_nocache cs i = spec_descendants (map fst cs) i /\
  ancestors_nocache cs i = spec_ancestors (map fst cs) i /\
  children_nocache cs i = spec_children (map fst cs) i /\
  parents_nocache cs i = spec_parents (map fst cs) i /\
  (forall j, leq_i cs i j = spec_leq (map fst cs) i j).
Proof. exact C03_lattice_order_is_inclusion_proof. Qed.
Print Assumptions C03_lattice_order_is_inclusion.

(* ... whatever the order in which Python iterates the frozenset of candidates *)
Theorem C03_children_any_visiting_order : forall t cs i order,
  concept_list t cs -> i < length cs ->
  incl (descendants_nocache cs i) order ->
  sub_loop Nat.eqb (descendants_nocache cs) order (descendants_nocache cs i) = spec_children (map fst cs) i.
Proof. exact C03_children_any_visiting_order_proof. Qed.
Print Assumptions C03_children_any_visiting_order.

Theorem C03_parents_any_visiting_order : forall t cs i order,
  concept_list t cs -> i < length cs ->
  incl (ancestors_nocache cs i) order ->
  sub_loop Nat.eqb (ancestors_nocache cs) order (ancestors_nocache cs i) = spec_parents (map fst cs) i.
Proof. exact C03_parents_any_visiting_order_proof. Qed.
Print Assumptions C03_parents_any_visiting_order.

(* the unique top has all objects, the unique bottom exactly the objects having every attribute *)
Theorem C03_top_bottom : forall t cs, full_lattice t cs ->
  (exists k, k < length cs /\ top_index cs = Some k /\ extent cs k = all_objs t) /\
  (exists k, k < length cs /\ bottom_index cs = Some k /\ extent cs k = ext t (all_attrs t)).
Proof. exact C03_top_bottom_proof. Qed.
Print Assumptions C03_top_bottom.

(* sort_concepts lists by non-increasing extent size and only permutes *)
Theorem C03_sizes_sorted : forall cs,
  StronglySorted by_support (sort_concepts cs) /\ Permutation cs (sort_concepts cs).
Proof. exact C03_sizes_sorted_proof. Qed.
Print Assumptions C03_sizes_sorted.

(* the listing produced by from_context: top first, bottom last *)
Theorem C03_listing : forall t raw, full_lattice t raw ->
  let cs := sort_concepts raw in
  full_lattice t cs /\ StronglySorted by_support cs /\
  top_index cs = Some 0 /\ extent cs 0 = all_objs t /\
  bottom_index cs = Some (length cs - 1) /\ extent cs (length cs - 1) = ext t (all_attrs t).
Proof. exact C03_listing_proof. Qed.
Print Assumptions C03_listing.

(* the meet of a non-empty family has the intersection of the extents *)
Theorem C03_meet_is_intersection : forall t cs Sq, full_lattice t cs ->
  Sq <> [] -> (forall s, In s Sq -> s < length cs) ->
  exists k, k < length cs /\ meet_nocache cs Sq = Some k /\
            extent cs k = inter_all (all_objs t) (map (extent cs) Sq).
Proof. exact C03_meet_is_intersection_proof. Qed.
Print Assumptions C03_meet_is_intersection.

(* the join has the intersection of the intents *)
Theorem C03_join_is_intent_intersection : forall t cs Sq, full_lattice t cs ->
  Sq <> [] -> (forall s, In s Sq -> s < length cs) ->
  exists k, k < length cs /\ join_nocache cs Sq = Some k /\
            intent cs k = inter_all (all_attrs t) (map (intent cs) Sq).
Proof. exact C03_join_is_intent_intersection_proof. Qed.
Print Assumptions C03_join_is_intent_intersection.

(* after concepts were removed (any duplicate-free list of concepts, complete or not): whenever the
   listed concepts have a greatest lower / least upper bound of the family, meet / join return it *)
Theorem C03_meet_is_glb : forall t cs, concept_list t cs -> forall Sq k,
  Sq <> [] -> (forall s, In s Sq -> s < length cs) -> k < length cs ->
  is_glb (map fst cs) Sq k = true -> meet_nocache cs Sq = Some k.
Proof. exact meet_is_glb. Qed.
Print Assumptions C03_meet_is_glb.

Theorem C03_join_is_lub : forall t cs, concept_list t cs -> forall Sq k,
  Sq <> [] -> (forall s, In s Sq -> s < length cs) -> k < length cs ->
  is_lub (map fst cs) Sq k = true -> join_nocache cs Sq = Some k.
Proof. exact join_is_lub. Qed.
Print Assumptions C03_join_is_lub.

(* ---- the children_dict constructor path (used by lindig_algorithm / from_context 'Lindig') *)

(* _transpose_hierarchy: p is listed under e iff e is listed under p in the input *)
Theorem C03_transpose_hierarchy_correct : forall h e p,
  In p (get (transpose_hierarchy h) e) <-> exists vs, In (p, vs) h /\ In e vs.
Proof. exact get_transpose. Qed.
Print Assumptions C03_transpose_hierarchy_correct.

(* _closed_relation_cache_by_direct_cache, for any partial order on numbered elements, any
   dictionary holding the lower covers and any order of iterating the transposed sets: the loop
   never reuses a stale index (CStuck), never misses a key (CKeyErr), and when it ends within
   the 2^k rounds allowed its result holds exactly the strict down-sets *)
Theorem C03_closed_by_direct_every_fuel :
  forall (leq : nat -> nat -> bool) (els : list nat) (direct : assoc) (ord : list nat -> list nat) (k : nat),
  partial_order_on leq els -> NoDup (map fst direct) ->
  (forall x, In x els <-> In x (map fst direct)) ->
  (forall x, In x els -> forall y, In y (get direct x) <-> In y (lower_covers Nat.eqb leq els x)) ->
  (forall l x, In x (ord l) <-> In x l) ->
  match closed_relation ord k direct with
  | CDone a => (forall x, In x els ->
                exists v, lookup x a = Some v /\
                          forall y, In y v <-> In y (strict_down Nat.eqb leq els x)) /\
               NoDup (map fst a) /\ (forall x, In x (map fst a) -> In x els)
  | COutOfFuel => True
  | _ => False
  end.
Proof. exact C03_closed_by_direct_every_fuel_proof. Qed.
Print Assumptions C03_closed_by_direct_every_fuel.

(* ... and it does end: the number of rounds is the number of upward cover paths from the
   minimal elements (not n), each round lowers that measure by one.  Total correctness: *)
Theorem C03_closed_by_direct_correct :
  forall (leq : nat -> nat -> bool) (els : list nat) (direct : assoc) (ord : list nat -> list nat),
  partial_order_on leq els -> NoDup els -> NoDup (map fst direct) ->
  (forall x, In x els <-> In x (map fst direct)) ->
  (forall x, In x els -> forall y, In y (get direct x) <-> In y (lower_covers Nat.eqb leq els x)) ->
  (forall l, Permutation (ord l) l) ->
  exists k a, closed_relation ord k direct = CDone a /\
    (forall x, In x els ->
       exists v, lookup x a = Some v /\
                 forall y, In y v <-> In y (strict_down Nat.eqb leq els x)) /\
    NoDup (map fst a) /\ (forall x, In x (map fst a) -> In x els).
Proof. exact C03_closed_by_direct_correct_proof. Qed.
Print Assumptions C03_closed_by_direct_correct.

(* the Lindig path of from_context, composed: if the children_dict handed over by
   lindig_algorithm holds the lower covers of its (unsorted) concept list [pre], then -- whenever
   the closure loop ends (it does: C03_lindig_path_total) -- after the POSet constructor (closure, two transposes), sort_concepts
   and the re-mapping of the four caches, every cache of the re-sorted lattice holds exactly the
   proper-inclusion sets / covers of the SORTED listing *)
Theorem C03_lindig_path_correct :
  forall t pre (dict : assoc) (ord : list nat -> list nat) (k : nat),
  concept_list t pre -> NoDup (map fst dict) ->
  (forall x, In x (idxs pre) <-> In x (map fst dict)) ->
  (forall x, In x (idxs pre) ->
     forall y, In y (get dict x) <-> In y (spec_children (map fst pre) x)) ->
  (forall l x, In x (ord l) <-> In x l) ->
  match lindig_resorted ord k pre dict with
  | LOk l =>
      ll_concepts l = sort_concepts pre /\
      forall j, j < length pre ->
        let exts := map fst (sort_concepts pre) in
        (forall y, In y (get (ll_descendants l) j) <-> In y (spec_descendants exts j)) /\
        (forall y, In y (get (ll_ancestors l) j) <-> In y (spec_ancestors exts j)) /\
        (forall y, In y (get (ll_children l) j) <-> In y (spec_children exts j)) /\
        (forall y, In y (get (ll_parents l) j) <-> In y (spec_parents exts j))
  | LErr COutOfFuel => True
  | LErr _ => False
  end.
Proof. exact C03_lindig_path_correct_proof. Qed.
Print Assumptions C03_lindig_path_correct.

Theorem C03_lindig_path_total :
  forall t pre (dict : assoc) (ord : list nat -> list nat),
  concept_list t pre -> NoDup (map fst dict) ->
  (forall x, In x (idxs pre) <-> In x (map fst dict)) ->
  (forall x, In x (idxs pre) ->
     forall y, In y (get dict x) <-> In y (spec_children (map fst pre) x)) ->
  (forall l, Permutation (ord l) l) ->
  exists k l, lindig_resorted ord k pre dict = LOk l /\
    ll_concepts l = sort_concepts pre /\
    forall j, j < length pre ->
      let exts := map fst (sort_concepts pre) in
      (forall y, In y (get (ll_descendants l) j) <-> In y (spec_descendants exts j)) /\
      (forall y, In y (get (ll_ancestors l) j) <-> In y (spec_ancestors exts j)) /\
      (forall y, In y (get (ll_children l) j) <-> In y (spec_children exts j)) /\
      (forall y, In y (get (ll_parents l) j) <-> In y (spec_parents exts j)).
Proof. exact C03_lindig_path_total_proof. Qed.
Print Assumptions C03_lindig_path_total.

(* ... and the cached top / bottom index (found by the constructor through the closure and its
   transpose, then re-mapped) are the first and the last position of the sorted listing *)
Theorem C03_lindig_top_bottom :
  forall t pre (dict : assoc) (ord : list nat -> list nat) (k : nat) l,
  full_lattice t pre -> NoDup (map fst dict) ->
  (forall x, In x (idxs pre) <-> In x (map fst dict)) ->
  (forall x, In x (idxs pre) ->
     forall y, In y (get dict x) <-> In y (spec_children (map fst pre) x)) ->
  (forall l x, In x (ord l) <-> In x l) ->
  lindig_resorted ord k pre dict = LOk l ->
  ll_top l = Some 0 /\ ll_bottom l = Some (length pre - 1).
Proof. exact C03_lindig_top_bottom_proof. Qed.
Print Assumptions C03_lindig_top_bottom.

(* ---- get_chains *)

(* _get_chains always returns, every chain starts at the top concept, steps only parent -> child
   (each element is a parent of the next, which is one of its children) and the chains cover all
   concepts *)
Theorem C03_chains_ok : forall t cs, full_lattice t cs ->
  exists chains, get_chains_nocache cs = Some chains /\
  (forall ch, In ch chains ->
     ch <> [] /\ extent cs (hd 0 ch) = all_objs t /\ steps_down (parents_nocache cs) ch /\
     forall x, In x ch -> x < length cs) /\
  (forall i, i < length cs -> exists ch, In ch chains /\ In i ch).
Proof. exact C03_chains_ok_proof. Qed.
Print Assumptions C03_chains_ok.

Theorem C03_parent_child : forall t cs a b, concept_list t cs -> a < length cs -> b < length cs ->
  In a (parents_nocache cs b) -> In b (children_nocache cs a).
Proof. exact parent_child. Qed.
Print Assumptions C03_parent_child.

(* the cheap completeness test the correspondence uses for tables with more than 7 rows is sound *)
Theorem C03_generation_criterion_sound : forall t cs, concepts_of t cs ->
  complete_by_generation t (map fst cs) = true -> complete_for t cs.
Proof. exact generation_criterion. Qed.
Print Assumptions C03_generation_criterion_sound.

(* ---- non-vacuity: the hypotheses hold of every table's oracle enumeration ... *)
Theorem C03_hypotheses_satisfiable : forall t,
  full_lattice t (concepts_spec t) /\ full_lattice t (sort_concepts (concepts_spec t)).
Proof. exact C03_hypotheses_satisfiable_proof. Qed.
Print Assumptions C03_hypotheses_satisfiable.

(* ... and on a concrete table with a duplicated row (shared node) the lattice is non-trivial:
   5 concepts, two children under the top, a meet and a join that are neither argument *)
Definition ex_t : table :=
  [[true; false; true]; [true; false; true]; [false; false; true]; [false; true; false]].
Definition ex_cs : list concept := sort_concepts (concepts_spec ex_t).
Example C03_nonvacuous :
  full_lattice ex_t ex_cs /\ length ex_cs = 5 /\
  children_nocache ex_cs 0 = [1; 3] /\ parents_nocache ex_cs 4 = [2; 3] /\
  meet_nocache ex_cs [1; 3] = Some 4 /\ join_nocache ex_cs [2; 3] = Some 0 /\
  top_index ex_cs = Some 0 /\ bottom_index ex_cs = Some 4 /\
  get_chains_nocache ex_cs = Some [[0; 1; 2; 4]; [0; 3]] /\
  closed_relation (fun l => l) 5 [(0, [1; 3]); (1, [2]); (2, [4]); (3, [4]); (4, [])]
  = CDone [(4, []); (2, [4]); (3, [4]); (1, [2; 4]); (0, [1; 3; 2; 4])].
Proof.
  split; [exact (proj2 (C03_hypotheses_satisfiable ex_t))|].
  repeat split; vm_compute; reflexivity.
Qed.

(* Props/C09.v — property C09: poset answers never depend on the history of queries and
   mutations.  Theorem statements only; proofs are in Lemmas/C09*.v.

   [E] is any carrier with a partial-order comparison [leq] and a decidable equality [eqb]
   (record partial_order of Spec/PosetSpec.v).  The model of fcapy/poset/poset.py is
   Model/Poset.v ([step s o] = one public call: new state and output); the cache-free meaning is
   Spec/PosetSpec.v ([spec_step l uc o] works on the bare element list).
   [Sound E leq [] s] : every entry of the five caches is the spec value on the current element
   list (keys in range, values duplicate-free), the elements are duplicate-free, and an element
   with cached parents/children has cached ancestors/descendants.
   [Tidy E s]        : an instance built with use_cache=False has no cache entries.
   [Inv s] = Sound /\ Tidy.  [valid_op] only asks for in-range indexes (and, for ==, a
   duplicate-free other element list). *)
From FCA Require Import Base.ListSet Spec.PosetSpec Model.Poset Model.PosetExt
     Lemmas.C09Base Lemmas.C09Query Lemmas.C09Add Lemmas.C09Del Lemmas.C09InitCd Lemmas.C09 Lemmas.C09Ext.
From FCA Require Import Model.PosetLattice Lemmas.C11.

Section Statements.
  Variable E : Type.
  Variable leq eqb : E -> E -> bool.
  Hypothesis PO : partial_order E leq eqb.

  (* construction, without and with a true children_dict *)
  Theorem C09_init_sound : forall l uc, NoDup l -> Inv E leq (init E l uc).
  Proof. exact (init_inv E leq). Qed.

  Theorem C09_init_children_dict_sound : forall l cd,
    NoDup l -> covers_dict_ok E leq l cd ->
    exists s, init_cd E l cd = Some s /\ Inv E leq s /\ els s = l /\ use_cache s = true.
  Proof. exact (init_cd_inv E leq eqb PO). Qed.

  (* every public call preserves the invariant, reports what the cache-free machine reports and
     leaves the element list the cache-free machine leaves: queries, fill_up_*, add with and
     without cache filling, __delitem__, remove *)
  Theorem C09_step_sound : forall s o,
    Inv E leq s -> valid_op E s o ->
    Inv E leq (fst (step E leq eqb s o)) /\
    snd (step E leq eqb s o) = snd (spec_step E leq eqb (els s) (use_cache s) o) /\
    els (fst (step E leq eqb s o)) = fst (spec_step E leq eqb (els s) (use_cache s) o) /\
    use_cache (fst (step E leq eqb s o)) = use_cache s.
  Proof. exact (step_ok E leq eqb PO). Qed.

  (* every query kind (leq, reflexive included; ancestors, descendants, parents, children, tops,
     bottoms, join, meet, index, contains, len, ==) is answered by the spec *)
  Theorem C09_answer_is_spec : forall s q,
    Sound E leq [] s -> valid_op E s q -> mutating E q = false ->
    snd (step E leq eqb s q) = spec_query E leq eqb (els s) (use_cache s) q.
  Proof. exact (answer_is_spec E leq eqb PO). Qed.

  Theorem C09_add_sound : forall s e fill_up,
    Sound E leq [] s -> Tidy E s ->
    let r := add E leq eqb s e fill_up in
    Sound E leq [] (fst r) /\ Tidy E (fst r) /\
    els (fst r) = (if memE E eqb e (els s) then els s else els s ++ [e]) /\
    snd r = OEls (els (fst r)) /\ use_cache (fst r) = use_cache s.
  Proof.
    intros s e f HS HT.
    exact (add_with_ok E leq eqb PO (extremes_q E leq) s e f HS HT (extremes_q_starts_ok E leq [e] (els s))).
  Qed.

  (* __delitem__ never raises KeyError and keeps the caches exact (the D12 repair) *)
  Theorem C09_delitem_sound : forall s key,
    Sound E leq [] s -> Tidy E s -> key < size E s ->
    let r := delitem E leq s key in
    Sound E leq [] (fst r) /\ Tidy E (fst r) /\ els (fst r) = remove_nth key (els s) /\
    snd r = OEls (els (fst r)) /\ use_cache (fst r) = use_cache s.
  Proof. exact (delitem_ok E leq eqb PO). Qed.

  (* all histories, no bound on the length *)
  Theorem C09_reachable_sound : forall ops s,
    Inv E leq s -> valid_history E leq eqb (els s) (use_cache s) ops ->
    Inv E leq (fst (run E leq eqb s ops)) /\
    snd (run E leq eqb s ops) = snd (spec_run E leq eqb (els s) (use_cache s) ops) /\
    els (fst (run E leq eqb s ops)) = fst (spec_run E leq eqb (els s) (use_cache s) ops) /\
    use_cache (fst (run E leq eqb s ops)) = use_cache s.
  Proof. exact (run_ok E leq eqb PO). Qed.

  (* caching is an optimisation only: the cached instance, the uncached instance and the
     cache-free machine produce the same outputs along every history (the fill_up_* helpers,
     which assert that caching is on, are excluded) *)
  Theorem C09_history_free : forall l ops,
    NoDup l -> valid_history E leq eqb l true ops -> forallb (no_fill E) ops = true ->
    snd (run E leq eqb (init E l true) ops) = snd (spec_run E leq eqb l true ops) /\
    snd (run E leq eqb (init E l false) ops) = snd (spec_run E leq eqb l true ops) /\
    els (fst (run E leq eqb (init E l true) ops)) = els (fst (run E leq eqb (init E l false) ops)).
  Proof. exact (history_free E leq eqb PO). Qed.

  (* after any history every query returns what a freshly built, cache-free poset over the
     current elements returns *)
  Theorem C09_fresh_poset_same : forall l uc ops q,
    NoDup l -> valid_history E leq eqb l uc ops ->
    let s := fst (run E leq eqb (init E l uc) ops) in
    valid_op E s q -> mutating E q = false -> no_fill E q = true ->
    snd (step E leq eqb s q) = snd (step E leq eqb (init E (els s) false) q).
  Proof. exact (fresh_poset_same E leq eqb PO). Qed.

  Theorem C09_eq_is_spec : forall s1 s2,
    Sound E leq [] s1 -> Sound E leq [] s2 ->
    snd (poset_eq E leq eqb s1 s2) = spec_eq E eqb (els s1) (els s2).
  Proof. exact (eq_is_spec E leq eqb PO). Qed.

  (* the rest of the public surface (Model/PosetExt.v): trace_element(e, direction) called from
     outside (e need not be an element), children_dict / parents_dict / descendants_dict /
     ancestors_dict, supremum / infimum, == against a poset ordered by another partial order
     (xvalid asks for that) — each preserves the invariant and returns the
     cache-free answer [xspec_step]; [XB o] embeds the calls above *)
  Theorem C09_xstep_sound : forall s o,
    Inv E leq s -> xvalid E eqb s o ->
    Inv E leq (fst (xstep E leq eqb s o)) /\
    snd (xstep E leq eqb s o) = snd (xspec_step E leq eqb (els s) (use_cache s) o) /\
    els (fst (xstep E leq eqb s o)) = fst (xspec_step E leq eqb (els s) (use_cache s) o) /\
    use_cache (fst (xstep E leq eqb s o)) = use_cache s.
  Proof. exact (xstep_ok E leq eqb PO). Qed.

  (* in particular == against a poset over ANOTHER comparison ([XEq2], either direction): the
     answer is [spec_eq2]: same elements and the same order on them, which is symmetric *)
  Theorem C09_eq_other_order_symmetric : forall la lb l1 l2,
    NoDup l1 -> NoDup l2 -> spec_eq2 E eqb la lb l1 l2 = spec_eq2 E eqb lb la l2 l1.
  Proof. exact (spec_eq2_sym E leq eqb PO). Qed.

  Theorem C09_xreachable_sound : forall ops s,
    Inv E leq s -> xvalid_history E leq eqb (els s) (use_cache s) ops ->
    Inv E leq (fst (xrun E leq eqb s ops)) /\
    snd (xrun E leq eqb s ops) = snd (xspec_run E leq eqb (els s) (use_cache s) ops) /\
    els (fst (xrun E leq eqb s ops)) = fst (xspec_run E leq eqb (els s) (use_cache s) ops) /\
    use_cache (fst (xrun E leq eqb s ops)) = use_cache s.
  Proof. exact (xrun_ok E leq eqb PO). Qed.

  (* the boolean test the correspondence applies to the implementation's raw cache
     dictionaries holds of every state that satisfies the invariant *)
  Theorem C09_raw_sound_of_Sound : forall s,
    Sound E leq [] s ->
    raw_sound E leq (els s) (c_leq s) (c_desc s) (c_anc s) (c_ch s) (c_par s) = true.
  Proof. exact (raw_sound_of_Sound E leq). Qed.

  (* the semilattice classes are poset objects too (Model/PosetLattice.v: POSet state + cached
     top / bottom index): every call on them, the refused ones included, preserves their
     invariant and reports what the cache-free meaning reports — tops, bottoms, top / bottom
     included — along histories of any length (proofs: Lemmas/C11.v) *)
  Theorem C09_semilattice_step_sound : forall sl o,
    SLInv E leq sl -> sl_valid E sl o ->
    SLInv E leq (fst (sl_step E leq eqb sl o)) /\
    snd (sl_step E leq eqb sl o) =
      snd (sl_spec_step E leq eqb (kind sl) (els (ps sl)) (use_cache (ps sl)) o) /\
    els (ps (fst (sl_step E leq eqb sl o))) =
      fst (sl_spec_step E leq eqb (kind sl) (els (ps sl)) (use_cache (ps sl)) o) /\
    kind (fst (sl_step E leq eqb sl o)) = kind sl /\
    use_cache (ps (fst (sl_step E leq eqb sl o))) = use_cache (ps sl).
  Proof. exact (sl_step_ok E leq eqb PO). Qed.

  Theorem C09_semilattice_reachable_sound : forall ops sl,
    SLInv E leq sl ->
    sl_valid_history E leq eqb (kind sl) (els (ps sl)) (use_cache (ps sl)) ops ->
    SLInv E leq (fst (sl_run E leq eqb sl ops)) /\
    snd (sl_run E leq eqb sl ops) =
      snd (sl_spec_run E leq eqb (kind sl) (els (ps sl)) (use_cache (ps sl)) ops) /\
    els (ps (fst (sl_run E leq eqb sl ops))) =
      fst (sl_spec_run E leq eqb (kind sl) (els (ps sl)) (use_cache (ps sl)) ops) /\
    kind (fst (sl_run E leq eqb sl ops)) = kind sl /\
    use_cache (ps (fst (sl_run E leq eqb sl ops))) = use_cache (ps sl).
  Proof. exact (reachable_SL E leq eqb PO). Qed.
End Statements.

Print Assumptions C09_semilattice_step_sound.
Print Assumptions C09_semilattice_reachable_sound.

Print Assumptions C09_xstep_sound.
Print Assumptions C09_eq_other_order_symmetric.
Print Assumptions C09_xreachable_sound.
Print Assumptions C09_raw_sound_of_Sound.
Print Assumptions C09_init_sound.
Print Assumptions C09_init_children_dict_sound.
Print Assumptions C09_step_sound.
Print Assumptions C09_answer_is_spec.
Print Assumptions C09_add_sound.
Print Assumptions C09_delitem_sound.
Print Assumptions C09_reachable_sound.
Print Assumptions C09_history_free.
Print Assumptions C09_fresh_poset_same.
Print Assumptions C09_eq_is_spec.

(* ---- non-vacuity: a concrete non-linear order (pairs, componentwise), a history that queries a
   few elements, inserts with and without cache filling, deletes by index and by value; the
   hypotheses hold and the caches are really used *)
Import InitCdExample.

Definition ex_ops : list (op (nat * nat)) :=
  [QCover true 0; QClosed false 3; OAdd (2, 2) true; QLeq 4 4; ODel 1; QCover false 3;
   OAdd (1, 0) false; QBound true [1; 2]; ORemove (0, 1); QExtremes true; QEq [(1, 1); (0, 0); (2, 2); (1, 0)] true].

Example C09_history_nonvacuous :
  NoDup diamond /\ valid_history (nat * nat) leq2 eqb2 diamond true ex_ops /\
  forallb (no_fill (nat * nat)) ex_ops = true /\
  c_par (fst (run (nat * nat) leq2 eqb2 (init (nat * nat) diamond true) ex_ops)) <> [] /\
  snd (run (nat * nat) leq2 eqb2 (init (nat * nat) diamond true) ex_ops) =
  snd (run (nat * nat) leq2 eqb2 (init (nat * nat) diamond false) ex_ops).
Proof.
  split; [exact diamond_nodup|].
  split; [vm_compute; repeat split; try lia; try (intros x [<- | [<- | []]]; lia);
          repeat constructor; simpl; intuition congruence|].
  split; [reflexivity|]. split; [vm_compute; discriminate | vm_compute; reflexivity].
Qed.

Example C09_children_dict_nonvacuous :
  exists s, init_cd (nat * nat) diamond diamond_cd = Some s /\ Inv (nat * nat) leq2 s /\
            snd (step (nat * nat) leq2 eqb2 s (QLeq 3 3)) = OBool true.
Proof.
  destruct (C09_init_children_dict_sound _ _ _ PO2 diamond diamond_cd diamond_nodup diamond_cd_ok)
    as [s [H1 [H2 _]]].
  exists s. split; [exact H1|]. split; [exact H2|].
  vm_compute in H1. injection H1 as <-. vm_compute. reflexivity.
Qed.

Example C09_ext_nonvacuous :
  snd (xrun (nat * nat) leq2 eqb2 (init (nat * nat) diamond true)
            [XB (QCover true 0); XTrace (1, 1) true; XTrace (2, 0) false; XDict true false; XSup true [1; 2]]) =
  [XO (OSet [1; 2]); XTwo [3] [0; 1; 2; 3]; XTwo [] []; XMap [[]; [0]; [0]; [1; 2]]; XO (OOpt (Some 3))] /\
  snd (xrun (nat * nat) leq2 eqb2 (init (nat * nat) diamond true)
            [XB (QCover true 0); XTrace (1, 1) true; XTrace (2, 0) false; XDict true false; XSup true [1; 2]]) =
  snd (xspec_run (nat * nat) leq2 eqb2 diamond true
            [XB (QCover true 0); XTrace (1, 1) true; XTrace (2, 0) false; XDict true false; XSup true [1; 2]]).
Proof. split; vm_compute; reflexivity. Qed.

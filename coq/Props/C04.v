(* Props/C04.v — property C04: the reduced-labelled line diagram is a lossless representation
   of the context.  [cs] is the complete concept list of table [t] ([full_lattice t cs], supplied
   by C02 + C03 for both default algorithms); new_extent_i / new_intent_i transcribe
   get_concept_new_extent_i / get_concept_new_intent_i on top of the children / parents of C03. *)
From FCA Require Import Base.ListSet Base.Order Model.LatticeOrder Spec.Closure Spec.LatticeOrderSpec
     Lemmas.C03 Lemmas.C03_lattice Lemmas.C04 Lemmas.C04_statements.

(* the labels are those of the specification: node i carries g iff its extent is {g}'' *)
Theorem C04_labels_are_object_concepts : forall t cs i g, full_lattice t cs ->
  i < length cs -> g < height t ->
  (In g (new_extent_i cs i) <-> extent cs i = cl_obj t [g]).
Proof. exact C04_labels_are_object_concepts_proof. Qed.
Print Assumptions C04_labels_are_object_concepts.

Theorem C04_labels_are_attribute_concepts : forall t cs i m, full_lattice t cs ->
  i < length cs -> m < width t ->
  (In m (new_intent_i cs i) <-> intent cs i = cl_attr t [m]).
Proof. exact C04_labels_are_attribute_concepts_proof. Qed.
Print Assumptions C04_labels_are_attribute_concepts.

(* each object appears in the new extent of exactly one concept: the one with extent {g}'' *)
Theorem C04_object_concept_unique : forall t cs g, full_lattice t cs -> g < height t ->
  exists i, (i < length cs /\ In g (new_extent_i cs i) /\ extent cs i = cl_obj t [g]) /\
            forall j, j < length cs -> In g (new_extent_i cs j) -> j = i.
Proof. exact C04_object_concept_unique_proof. Qed.
Print Assumptions C04_object_concept_unique.

(* each attribute appears in the new intent of exactly one concept: the one with intent {m}'' *)
Theorem C04_attribute_concept_unique : forall t cs m, full_lattice t cs -> m < width t ->
  exists i, (i < length cs /\ In m (new_intent_i cs i) /\ intent cs i = cl_attr t [m]) /\
            forall j, j < length cs -> In m (new_intent_i cs j) -> j = i.
Proof. exact C04_attribute_concept_unique_proof. Qed.
Print Assumptions C04_attribute_concept_unique.

(* g has m in the table iff the node labelled g lies below or at the node labelled m *)
Theorem C04_reconstruct : forall t cs g m a b, full_lattice t cs ->
  g < height t -> m < width t -> a < length cs -> b < length cs ->
  In g (new_extent_i cs a) -> In m (new_intent_i cs b) ->
  (I t g m = true <-> leq_i cs a b = true).
Proof. exact C04_reconstruct_proof. Qed.
Print Assumptions C04_reconstruct.

(* the table is recovered exactly from the labels and the ancestors relation *)
Theorem C04_table_recovered : forall t cs, full_lattice t cs -> wf t ->
  rebuild (height t) (width t) (obj_labels cs) (attr_labels cs) (anc_lists cs) = t.
Proof. exact table_recovered. Qed.
Print Assumptions C04_table_recovered.

(* ... the same through the other order oracles of the API: leq_elements / <= on the concept
   objects (both are the concept comparison leq_i, C03) and descendants() *)
Theorem C04_table_recovered_by_leq : forall t cs, full_lattice t cs -> wf t ->
  rebuild_rel (height t) (width t) (obj_labels cs) (attr_labels cs) (leq_i cs) = t.
Proof. exact table_recovered_leq. Qed.
Print Assumptions C04_table_recovered_by_leq.

Theorem C04_table_recovered_by_descendants : forall t cs, full_lattice t cs -> wf t ->
  rebuild_rel (height t) (width t) (obj_labels cs) (attr_labels cs)
              (fun a b => Nat.eqb a b || mem a (nth b (desc_lists cs) [])) = t.
Proof. exact table_recovered_desc. Qed.
Print Assumptions C04_table_recovered_by_descendants.

(* non-vacuity: a table with a duplicated row (objects 0 and 1 share a node), an unlabelled
   top and bottom *)
Definition ex_t : table :=
  [[true; false; true]; [true; false; true]; [false; false; true]; [false; true; false]].
Definition ex_cs : list concept := sort_concepts (concepts_spec ex_t).
Example C04_nonvacuous :
  full_lattice ex_t ex_cs /\ wf ex_t /\
  obj_labels ex_cs = [[]; [2]; [0; 1]; [3]; []] /\
  attr_labels ex_cs = [[]; [2]; [0]; [1]; []] /\
  rebuild 4 3 (obj_labels ex_cs) (attr_labels ex_cs) (anc_lists ex_cs) = ex_t.
Proof.
  split; [exact (proj1 (listing_full ex_t _ (concepts_spec_full ex_t)))|].
  split; [repeat constructor|]. repeat split; vm_compute; reflexivity.
Qed.

(* Lemmas/C09DelCache.v — the cache surgery of POSet.__delitem__ (property C09, delete step):
   decrement_dict, and reconnect_relatives on caches that are correct for the old element list
   and sufficiently prefetched.  Everything here is stated with plain (fut-free) predicates on
   association lists; Lemmas/C09Del.v connects them with the invariant [Sound]. *)
From FCA Require Import Base.ListSet Spec.PosetSpec Model.Poset Lemmas.C09Base.
From WIP Require Import C09DelOrder.

#[local] Arguments upd : simpl never.
#[local] Arguments updl : simpl never.
#[local] Arguments lk : simpl never.
#[local] Arguments lkl : simpl never.

(* ------------------------------------------------------------------ key domains *)
Definition has (c : cache) (k : nat) : Prop := exists v, lk c k = Some v.
Definition same_keys (c c' : cache) : Prop := forall k, has c k <-> has c' k.

Lemma In_has c k v : In (k, v) c -> has c k.
Proof.
  induction c as [|[k' v'] c IH]; [intros []|]. unfold has, lk. simpl. intros [H | H].
  - injection H as -> ->. rewrite Nat.eqb_refl. eauto.
  - destruct (Nat.eqb k k'); [eauto | apply IH; exact H].
Qed.

Lemma has_upd c p v k : has (upd p v c) k <-> k = p \/ has c k.
Proof.
  unfold has. rewrite lk_upd. destruct (Nat.eqb_spec k p) as [-> | Hne].
  - split; [left; reflexivity | eauto].
  - split; [right; assumption | intros [H | H]; [contradiction | exact H]].
Qed.

Lemma same_keys_refl c : same_keys c c.
Proof. intros k. reflexivity. Qed.
Lemma same_keys_trans a b c : same_keys a b -> same_keys b c -> same_keys a c.
Proof. intros H1 H2 k. rewrite (H1 k). apply H2. Qed.
Lemma same_keys_upd c p v : has c p -> same_keys c (upd p v c).
Proof.
  intros Hp k. rewrite has_upd. split; [tauto|]. intros [-> | H]; assumption.
Qed.

(* ------------------------------------------------------------------ pop *)
Lemma In_pop c k x : In x (snd (pop c k)) -> In x c.
Proof.
  unfold pop. destruct (lk c k); simpl; [|tauto]. intros H. apply In_remove_key_nat in H. tauto.
Qed.

Lemma lk_pop c k k' : lk (snd (pop c k)) k' = if Nat.eqb k' k then None else lk c k'.
Proof.
  unfold pop. destruct (lk c k) eqn:Hk; simpl; [apply lk_remove_key|].
  destruct (Nat.eqb_spec k' k) as [-> | Hne]; [exact Hk | reflexivity].
Qed.

Lemma fst_pop c k v : lk c k = Some v -> fst (pop c k) = v.
Proof. unfold pop. intros ->. reflexivity. Qed.

Lemma has_pop c k k' : has (snd (pop c k)) k' <-> k' <> k /\ has c k'.
Proof.
  unfold has. rewrite lk_pop. destruct (Nat.eqb_spec k' k) as [-> | Hne].
  - split; [intros [v Hv]; discriminate | tauto].
  - tauto.
Qed.

(* ------------------------------------------------------------------ decrement_dict *)
Definition dc_step (t : nat) (acc : cache) (kv : nat * list nat) : cache :=
  if Nat.eqb t (fst kv) then acc else upd (decr t (fst kv)) (shift t (snd kv)) acc.

Lemma decrement_cache_eq t c : decrement_cache t c = fold_left (dc_step t) c [].
Proof. reflexivity. Qed.

Lemma In_decrement_cache t c k' v' :
  In (k', v') (decrement_cache t c) ->
  exists k v, In (k, v) c /\ k <> t /\ k' = decr t k /\ v' = shift t v.
Proof.
  rewrite decrement_cache_eq.
  assert (G : forall c acc, In (k', v') (fold_left (dc_step t) c acc) ->
            In (k', v') acc \/ exists k v, In (k, v) c /\ k <> t /\ k' = decr t k /\ v' = shift t v).
  { clear c. induction c as [|[k v] c IH]; intros acc H; simpl in H; [left; exact H|].
    apply IH in H. destruct H as [H | [k1 [v1 [H1 H2]]]].
    - unfold dc_step in H. cbn [fst snd] in H. destruct (Nat.eqb_spec t k) as [-> | Hne]; [left; exact H|].
      apply In_upd in H. destruct H as [H | [H _]]; [|left; exact H].
      injection H as -> ->. right. exists k, v. split; [left; reflexivity|]. auto.
    - right. exists k1, v1. split; [right; exact H1 | exact H2]. }
  intros H. apply G in H. destruct H as [[] | H]. exact H.
Qed.

Lemma has_decrement_cache t c k v : In (k, v) c -> k <> t -> has (decrement_cache t c) (decr t k).
Proof.
  rewrite decrement_cache_eq. intros Hin Hne.
  assert (G : forall c acc k',
            (has acc k' \/ exists k v, In (k, v) c /\ k <> t /\ decr t k = k') ->
            has (fold_left (dc_step t) c acc) k').
  { clear. induction c as [|[k0 v0] c IH]; intros acc k' H; simpl.
    - destruct H as [H | [k [v [[] _]]]]. exact H.
    - apply IH. destruct H as [H | [k [v [[Heq | Hin] [Hne Hd]]]]].
      + left. unfold dc_step. cbn [fst snd]. destruct (Nat.eqb t k0); [exact H|].
        apply has_upd. right. exact H.
      + injection Heq as -> ->. left. unfold dc_step. cbn [fst snd].
        destruct (Nat.eqb_spec t k) as [-> | Hne']; [congruence|].
        apply has_upd. left. symmetry. exact Hd.
      + right. exists k, v. auto. }
  apply G. right. exists k, v. auto.
Qed.

Definition dl_step (t : nat) (acc : lcache) (kv : (nat * nat) * bool) : lcache :=
  let '(a, b) := fst kv in
  if Nat.eqb t a || Nat.eqb t b then acc else updl (decr t a, decr t b) (snd kv) acc.

Lemma decrement_leq_eq t c : decrement_leq t c = fold_left (dl_step t) c [].
Proof. reflexivity. Qed.

Lemma In_decrement_leq t c k' r :
  In (k', r) (decrement_leq t c) ->
  exists a b, In ((a, b), r) c /\ a <> t /\ b <> t /\ k' = (decr t a, decr t b).
Proof.
  rewrite decrement_leq_eq.
  assert (G : forall c acc, In (k', r) (fold_left (dl_step t) c acc) ->
            In (k', r) acc \/ exists a b, In ((a, b), r) c /\ a <> t /\ b <> t /\ k' = (decr t a, decr t b)).
  { clear c. induction c as [|[[a b] v] c IH]; intros acc H; simpl in H; [left; exact H|].
    apply IH in H. destruct H as [H | [a1 [b1 [H1 H2]]]].
    - unfold dl_step in H. cbn [fst snd] in H.
      destruct (Nat.eqb_spec t a) as [-> | Hna]; [left; exact H|].
      destruct (Nat.eqb_spec t b) as [-> | Hnb]; [left; exact H|].
      cbn [orb] in H. apply In_updl in H. destruct H as [H | [H _]]; [|left; exact H].
      injection H as -> ->. right. exists a, b. split; [left; reflexivity|]. auto.
    - right. exists a1, b1. split; [right; exact H1 | exact H2]. }
  intros H. apply G in H. destruct H as [[] | H]. exact H.
Qed.

(* ------------------------------------------------------------------ state plumbing *)
Section Plumbing.
  Variable E : Type.
  Notation state := (state E).

  Lemma cc_set_closed up up' (s : state) c :
    closed_cache E up' (set_closed E up s c) = if Bool.eqb up up' then c else closed_cache E up' s.
  Proof. destruct up, up'; reflexivity. Qed.
  Lemma vc_set_closed up up' (s : state) c : cover_cache E up' (set_closed E up s c) = cover_cache E up' s.
  Proof. destruct up, up'; reflexivity. Qed.
  Lemma cc_set_cover up up' (s : state) c : closed_cache E up' (set_cover E up s c) = closed_cache E up' s.
  Proof. destruct up, up'; reflexivity. Qed.
  Lemma vc_set_cover up up' (s : state) c :
    cover_cache E up' (set_cover E up s c) = if Bool.eqb up up' then c else cover_cache E up' s.
  Proof. destruct up, up'; reflexivity. Qed.

  (* nothing but the cover cache of direction [up] changes, and its key set stays *)
  Definition frame_cov (up : bool) (s s' : state) : Prop :=
    els s' = els s /\ use_cache s' = use_cache s /\ c_leq s' = c_leq s /\
    (forall up', closed_cache E up' s' = closed_cache E up' s) /\
    cover_cache E (negb up) s' = cover_cache E (negb up) s /\
    same_keys (cover_cache E up s) (cover_cache E up s').
  Definition frame_clo (up : bool) (s s' : state) : Prop :=
    els s' = els s /\ use_cache s' = use_cache s /\ c_leq s' = c_leq s /\
    (forall up', cover_cache E up' s' = cover_cache E up' s) /\
    closed_cache E (negb up) s' = closed_cache E (negb up) s /\
    same_keys (closed_cache E up s) (closed_cache E up s').

  Lemma frame_cov_refl up s : frame_cov up s s.
  Proof. unfold frame_cov. auto 10 using same_keys_refl. Qed.
  Lemma frame_clo_refl up s : frame_clo up s s.
  Proof. unfold frame_clo. auto 10 using same_keys_refl. Qed.

  Lemma frame_cov_trans up s1 s2 s3 : frame_cov up s1 s2 -> frame_cov up s2 s3 -> frame_cov up s1 s3.
  Proof.
    intros [A1 [A2 [A3 [A4 [A5 A6]]]]] [B1 [B2 [B3 [B4 [B5 B6]]]]].
    split; [congruence|]. split; [congruence|]. split; [congruence|].
    split; [intros up'; rewrite B4; apply A4|]. split; [congruence|].
    eapply same_keys_trans; eauto.
  Qed.
  Lemma frame_clo_trans up s1 s2 s3 : frame_clo up s1 s2 -> frame_clo up s2 s3 -> frame_clo up s1 s3.
  Proof.
    intros [A1 [A2 [A3 [A4 [A5 A6]]]]] [B1 [B2 [B3 [B4 [B5 B6]]]]].
    split; [congruence|]. split; [congruence|]. split; [congruence|].
    split; [intros up'; rewrite B4; apply A4|]. split; [congruence|].
    eapply same_keys_trans; eauto.
  Qed.

  Lemma frame_cov_set up (s : state) p v :
    has (cover_cache E up s) p -> frame_cov up s (set_cover E up s (upd p v (cover_cache E up s))).
  Proof.
    intros Hp. unfold frame_cov. split; [destruct up; reflexivity|].
    split; [destruct up; reflexivity|]. split; [destruct up; reflexivity|].
    split; [intros up'; apply cc_set_cover|].
    split; [destruct up; reflexivity|].
    rewrite vc_set_cover, eqb_reflx. apply same_keys_upd. exact Hp.
  Qed.
  Lemma frame_clo_set up (s : state) p v :
    has (closed_cache E up s) p -> frame_clo up s (set_closed E up s (upd p v (closed_cache E up s))).
  Proof.
    intros Hp. unfold frame_clo. split; [destruct up; reflexivity|].
    split; [destruct up; reflexivity|]. split; [destruct up; reflexivity|].
    split; [intros up'; apply vc_set_closed|].
    split; [destruct up; reflexivity|].
    rewrite cc_set_closed, eqb_reflx. apply same_keys_upd. exact Hp.
  Qed.
End Plumbing.

(* ------------------------------------------------------------------ reconnect_relatives *)
Section Reconnect.
  Variable E : Type.
  Variable leq eqb : E -> E -> bool.
  Hypothesis PO : partial_order E leq eqb.
  Variable l : list E.
  Hypothesis Hnd : NoDup l.
  Variable key : nat.
  Hypothesis Hkey : key < length l.

  Notation state := (state E).
  Notation lq := (lq E leq).
  Notation SR := (strict_rel E leq).
  Notation covers := (covers E leq).
  Notation subcov := (subcov E leq l key).
  Notation l' := (remove_nth key l).

  (* plain correctness of a cache for an element list *)
  Definition leq_ok0 (l0 : list E) (c : lcache) : Prop :=
    forall a b r, In ((a, b), r) c -> a < length l0 /\ b < length l0 /\ r = lq l0 a b.
  Definition clo_ok (l0 : list E) (up : bool) (c : cache) : Prop :=
    forall i X, In (i, X) c ->
      i < length l0 /\ NoDup X /\ forall j, In j X <-> In j (SR l0 up i).
  Definition cov_ok (l0 : list E) (up : bool) (c : cache) : Prop :=
    forall i X, In (i, X) c ->
      i < length l0 /\ NoDup X /\ forall j, In j X <-> In j (covers l0 up i).
  (* correctness, in the OLD indexing, for the order without [key] *)
  Definition clo_sub (up : bool) (c : cache) : Prop :=
    forall i X, In (i, X) c ->
      i < length l /\ NoDup X /\ forall j, j <> key -> (In j X <-> In j (SR l up i)).
  Definition cov_sub (up : bool) (c : cache) : Prop :=
    forall i X, In (i, X) c ->
      i < length l /\ NoDup X /\ (i <> key -> forall j, j <> key -> (In j X <-> subcov up i j)).

  (* ---- decrement_dict transports old-indexed correctness to the shortened list *)
  Lemma clo_sub_decrement up c : clo_sub up c -> clo_ok l' up (decrement_cache key c).
  Proof.
    intros H k' v' Hin. apply In_decrement_cache in Hin.
    destruct Hin as [k [v [Hin [Hne [-> ->]]]]]. destruct (H k v Hin) as [A [B C]].
    split; [rewrite length_remove_nth by exact Hkey; apply decr_lt; assumption|].
    split; [apply NoDup_shift; exact B|].
    intros j. rewrite In_shift, In_SR_remove, incr_decr by exact Hne. apply C. apply incr_neq.
  Qed.

  Lemma cov_sub_decrement up c : cov_sub up c -> cov_ok l' up (decrement_cache key c).
  Proof.
    intros H k' v' Hin. apply In_decrement_cache in Hin.
    destruct Hin as [k [v [Hin [Hne [-> ->]]]]]. destruct (H k v Hin) as [A [B C]].
    split; [rewrite length_remove_nth by exact Hkey; apply decr_lt; assumption|].
    split; [apply NoDup_shift; exact B|].
    intros j. rewrite In_shift, In_covers_remove, incr_decr by exact Hne.
    apply C; [exact Hne | apply incr_neq].
  Qed.

  Lemma leq_decrement c : leq_ok0 l c -> leq_ok0 l' (decrement_leq key c).
  Proof.
    intros H a' b' r Hin. apply In_decrement_leq in Hin.
    destruct Hin as [a [b [Hin [Ha [Hb Heq]]]]]. injection Heq as -> ->.
    destruct (H a b r Hin) as [A [B C]]. rewrite length_remove_nth by exact Hkey.
    split; [apply decr_lt; assumption|]. split; [apply decr_lt; assumption|].
    rewrite lq_remove, !incr_decr by assumption. exact C.
  Qed.

  Lemma clo_ok_sub up c : clo_ok l up c -> clo_sub up c.
  Proof.
    intros H i X Hin. destruct (H i X Hin) as [A [B C]]. split; [exact A|]. split; [exact B|].
    intros j _. apply C.
  Qed.

  (* ---- the two closed-cache loops: for ancestor in ancestors: descendants[ancestor] -= {item} *)
  Definition rcl_step (up : bool) (s : state) (a : nat) : state :=
    match lk (closed_cache E up s) a with
    | None => s
    | Some d => set_closed E up s (upd a (diff d [key]) (closed_cache E up s))
    end.

  Lemma reconnect_closed_eq up rel s : reconnect_closed E up key rel s = fold_left (rcl_step up) rel s.
  Proof. reflexivity. Qed.

  Lemma rcl_step_ok up s a :
    frame_clo E up s (rcl_step up s a) /\
    (clo_sub up (closed_cache E up s) -> clo_sub up (closed_cache E up (rcl_step up s a))).
  Proof.
    unfold rcl_step. destruct (lk (closed_cache E up s) a) as [d|] eqn:Hd.
    - split; [apply frame_clo_set; exists d; exact Hd|].
      intros H i X Hin. rewrite cc_set_closed, eqb_reflx in Hin. apply In_upd in Hin.
      destruct Hin as [Heq | [Hin _]]; [|exact (H i X Hin)].
      injection Heq as -> ->. destruct (H a d (lk_In _ _ _ Hd)) as [A [B C]].
      split; [exact A|]. split; [apply NoDup_diff; exact B|].
      intros j Hj. rewrite In_diff. rewrite <- (C j Hj). simpl. split; [tauto|].
      intros Hjd. split; [exact Hjd|]. intros [Hk | []]. congruence.
    - split; [apply frame_clo_refl | auto].
  Qed.

  Lemma reconnect_closed_ok up rel : forall s,
    frame_clo E up s (reconnect_closed E up key rel s) /\
    (clo_sub up (closed_cache E up s) -> clo_sub up (closed_cache E up (reconnect_closed E up key rel s))).
  Proof.
    induction rel as [|a rel IH]; intros s; rewrite reconnect_closed_eq; simpl.
    - split; [apply frame_clo_refl | auto].
    - destruct (rcl_step_ok up s a) as [A B]. rewrite <- reconnect_closed_eq.
      destruct (IH (rcl_step up s a)) as [A' B'].
      split; [eapply frame_clo_trans; eauto | auto].
  Qed.

  (* ---- the two cover-cache loops *)
  Definition minimise (clo : cache) (cand : list nat) (cur : list nat) : option (list nat) :=
    fold_left (fun (acc : option (list nat)) c =>
                 match acc with
                 | None => None
                 | Some cur => match lk clo c with
                               | None => None
                               | Some dc => Some (diff cur dc) end
                 end) cand (Some cur).

  Lemma minimise_ok up clo : clo_ok l up clo -> forall cand cur,
    (forall c, In c cand -> has clo c) ->
    exists fin, minimise clo cand cur = Some fin /\ (NoDup cur -> NoDup fin) /\
      forall j, In j fin <-> In j cur /\ forall c, In c cand -> ~ In j (SR l up c).
  Proof.
    intros Hclo. unfold minimise. induction cand as [|c cand IH]; intros cur Hc; simpl.
    - exists cur. split; [reflexivity|]. split; [auto|]. intros j. split; [|tauto].
      intros H. split; [exact H | intros c []].
    - destruct (Hc c (or_introl eq_refl)) as [dc Hdc]. rewrite Hdc.
      destruct (IH (diff cur dc)) as [fin [F1 [F2 F3]]].
      { intros c' Hc'. apply Hc. right. exact Hc'. }
      exists fin. split; [exact F1|]. split; [intros Hn; apply F2; apply NoDup_diff; exact Hn|].
      destruct (Hclo c dc (lk_In _ _ _ Hdc)) as [_ [_ Hm]].
      intros j. rewrite F3, In_diff, Hm. split.
      + intros [[H1 H2] H3]. split; [exact H1|]. intros c' [<- | Hc']; auto.
      + intros [H1 H2]. split; [split; [exact H1 | apply H2; left; reflexivity]|].
        intros c' Hc'. apply H2. right. exact Hc'.
  Qed.

  Definition rcv_step (up : bool) (near : list nat) (so : option state) (p : nat) : option state :=
    match so with
    | None => None
    | Some s =>
        match lk (cover_cache E up s) p with
        | None => Some s
        | Some cp =>
            let cand := diff (union cp near) [key] in
            match minimise (closed_cache E up s) cand cand with
            | None => None
            | Some fin => Some (set_cover E up s (upd p fin (cover_cache E up s)))
            end
        end
    end.

  Lemma reconnect_cover_eq up far near so :
    reconnect_cover E up key far near so = fold_left (rcv_step up near) far so.
  Proof. reflexivity. Qed.

  (* entries of already patched keys (D) are right for the order without key, the others for l *)
  Definition cov_mix (up : bool) (D : nat -> Prop) (c : cache) : Prop :=
    forall i X, In (i, X) c ->
      i < length l /\ NoDup X /\
      (D i -> forall j, j <> key -> (In j X <-> subcov up i j)) /\
      (~ D i -> forall j, In j X <-> In j (covers l up i)).

  Lemma rcv_step_ok up near D s p :
    NoDup near -> (forall j, In j near <-> In j (covers l up key)) ->
    clo_ok l up (closed_cache E up s) ->
    (forall x, In x (covers l up p) \/ In x (covers l up key) -> x <> key ->
               has (closed_cache E up s) x) ->
    In key (covers l up p) -> ~ D p ->
    cov_mix up D (cover_cache E up s) ->
    exists s', rcv_step up near (Some s) p = Some s' /\ frame_cov E up s s' /\
               cov_mix up (fun i => i = p \/ D i) (cover_cache E up s').
  Proof.
    intros Hnn Hnear Hclo Hpre Hkp HDp Hmix. unfold rcv_step.
    destruct (lk (cover_cache E up s) p) as [cp|] eqn:Hcp.
    - pose proof (lk_In _ _ _ Hcp) as Hcpin.
      destruct (Hmix p cp Hcpin) as [Pr [Pn [_ Pm]]]. specialize (Pm HDp).
      set (cand := diff (union cp near) [key]).
      assert (Hcand : forall j, In j cand <->
                (In j (covers l up p) \/ In j (covers l up key)) /\ j <> key).
      { intros j. unfold cand. rewrite In_diff, In_union, Pm, Hnear. simpl. split.
        - intros [H1 H2]. split; [exact H1|]. intros ->. apply H2. left. reflexivity.
        - intros [H1 H2]. split; [exact H1|]. intros [H | []]. congruence. }
      destruct (minimise_ok up (closed_cache E up s) Hclo cand cand) as [fin [F1 [F2 F3]]].
      { intros c Hc. apply Hcand in Hc. destruct Hc as [Hc1 Hc2]. apply Hpre; assumption. }
      rewrite F1. eexists. split; [reflexivity|].
      split; [apply frame_cov_set; exists cp; exact Hcp|].
      assert (Hfin : forall j, In j fin <-> subcov up p j).
      { intros j. rewrite F3. rewrite <- (subcov_patched E leq eqb PO l Hnd key up p j Hkp).
        rewrite Hcand. split; intros [H1 H2]; (split; [exact H1|]); intros c Hc; apply H2; apply Hcand; exact Hc. }
      intros i X Hin. rewrite vc_set_cover, eqb_reflx in Hin. apply In_upd in Hin.
      destruct Hin as [Heq | [Hin Hne]].
      + injection Heq as -> ->. split; [exact Pr|].
        split; [apply F2; unfold cand; apply NoDup_diff, NoDup_union; assumption|].
        split; [intros _ j _; apply Hfin|]. intros H. exfalso. apply H. left. reflexivity.
      + simpl in Hne. destruct (Hmix i X Hin) as [Q1 [Q2 [Q3 Q4]]].
        split; [exact Q1|]. split; [exact Q2|]. split.
        * intros [-> | HD]; [contradiction | exact (Q3 HD)].
        * intros H. apply Q4. intros HD. apply H. right. exact HD.
    - eexists. split; [reflexivity|]. split; [apply frame_cov_refl|].
      intros i X Hin. destruct (Hmix i X Hin) as [Q1 [Q2 [Q3 Q4]]].
      split; [exact Q1|]. split; [exact Q2|]. split.
      + intros [-> | HD]; [|exact (Q3 HD)].
        apply In_has in Hin. destruct Hin as [v Hv]. congruence.
      + intros H. apply Q4. intros HD. apply H. right. exact HD.
  Qed.

  Lemma cov_mix_iff up D D' c : (forall i, D i <-> D' i) -> cov_mix up D c -> cov_mix up D' c.
  Proof.
    intros HD H i X Hin. destruct (H i X Hin) as [Q1 [Q2 [Q3 Q4]]].
    split; [exact Q1|]. split; [exact Q2|]. split.
    - intros Hi. apply Q3. apply HD. exact Hi.
    - intros Hi. apply Q4. intros Hd. apply Hi. apply HD. exact Hd.
  Qed.

  Lemma reconnect_cover_ok up near :
    NoDup near -> (forall j, In j near <-> In j (covers l up key)) ->
    forall far D s,
    NoDup far -> (forall p, In p far -> ~ D p) -> (forall p, In p far -> In key (covers l up p)) ->
    clo_ok l up (closed_cache E up s) ->
    (forall p x, In p far -> In x (covers l up p) \/ In x (covers l up key) -> x <> key ->
                 has (closed_cache E up s) x) ->
    cov_mix up D (cover_cache E up s) ->
    exists s', reconnect_cover E up key far near (Some s) = Some s' /\ frame_cov E up s s' /\
               cov_mix up (fun i => In i far \/ D i) (cover_cache E up s').
  Proof.
    intros Hnn Hnear. induction far as [|p far IH]; intros D s Hnf HD Hk Hclo Hpre Hmix;
      rewrite reconnect_cover_eq.
    - simpl. exists s. split; [reflexivity|]. split; [apply frame_cov_refl|].
      eapply cov_mix_iff; [|exact Hmix]. intros i. simpl. tauto.
    - cbn [fold_left]. inversion Hnf as [|? ? Hp Hnf']; subst.
      destruct (rcv_step_ok up near D s p Hnn Hnear Hclo) as [s1 [E1 [Fr1 M1]]].
      + intros x Hx. apply (Hpre p x); [left; reflexivity | exact Hx].
      + apply Hk. left. reflexivity.
      + apply HD. left. reflexivity.
      + exact Hmix.
      + rewrite E1. rewrite <- reconnect_cover_eq.
        pose proof Fr1 as [_ [_ [_ [Fc _]]]].
        destruct (IH (fun i => i = p \/ D i) s1 Hnf') as [s2 [E2 [Fr2 M2]]].
        * intros q Hq [-> | Hd]; [contradiction | apply (HD q); [right; exact Hq | exact Hd]].
        * intros q Hq. apply Hk. right. exact Hq.
        * rewrite Fc. exact Hclo.
        * intros q x Hq Hx Hxk. rewrite Fc. apply (Hpre q x); [right; exact Hq | exact Hx | exact Hxk].
        * exact M1.
        * exists s2. split; [exact E2|]. split; [eapply frame_cov_trans; eauto|].
          eapply cov_mix_iff; [|exact M2]. intros i. simpl. split.
          -- intros [H | [H | H]]; [left; right; exact H | left; left; auto | right; exact H].
          -- intros [[H | H] | H]; [right; left; auto | left; exact H | right; right; exact H].
  Qed.

  Lemma cov_ok_mix up c : cov_ok l up c -> cov_mix up (fun _ => False) c.
  Proof.
    intros H i X Hin. destruct (H i X Hin) as [A [B C]]. split; [exact A|]. split; [exact B|].
    split; [intros [] | intros _; exact C].
  Qed.

  Lemma cov_mix_sub up far c :
    (forall p, In p far <-> In p (covers l (negb up) key)) ->
    cov_mix up (fun i => In i far \/ False) c -> cov_sub up c.
  Proof.
    intros Hfar H i X Hin. destruct (H i X Hin) as [A [B [C D]]]. split; [exact A|]. split; [exact B|].
    intros Hi j Hj. destruct (in_dec Nat.eq_dec i far) as [Hif | Hif].
    - apply C; [left; exact Hif | exact Hj].
    - rewrite D by tauto. apply (subcov_untouched E leq eqb PO l Hnd key up i j); [|exact Hj].
      intros Hk. apply Hif. apply Hfar. apply (proj1 (covers_flip E leq l up i key)). exact Hk.
  Qed.

  (* ---- reconnect_relatives as a whole *)
  Theorem reconnect_relatives_ok (s : state) :
    (forall up, clo_ok l up (closed_cache E up s)) ->
    (forall up, cov_ok l up (cover_cache E up s)) ->
    (forall up i, has (cover_cache E up s) i -> has (closed_cache E up s) i) ->
    (forall up, has (cover_cache E up s) key) ->
    (forall up p x, In p (covers l (negb up) key) ->
                    In x (covers l up p) \/ In x (covers l up key) -> has (closed_cache E up s) x) ->
    exists s3, reconnect_relatives E s key = Some s3 /\
      els s3 = els s /\ use_cache s3 = use_cache s /\ c_leq s3 = c_leq s /\
      (forall up, clo_sub up (closed_cache E up s3)) /\
      (forall up, cov_sub up (cover_cache E up s3)) /\
      (forall up i, has (cover_cache E up s3) i -> has (closed_cache E up s3) i).
  Proof.
    intros Hclo Hcov Hdom Hkey' Hpre. unfold reconnect_relatives.
    destruct (pop (c_anc s) key) as [ancs ca] eqn:Ea.
    destruct (pop (c_desc s) key) as [descs cd] eqn:Ed.
    destruct (pop (c_par s) key) as [pars cp] eqn:Ep.
    destruct (pop (c_ch s) key) as [chs cc] eqn:Ec.
    set (s0 := set_ch E (set_par E (set_desc E (set_anc E s ca) cd) cp) cc).
    assert (Hca : ca = snd (pop (c_anc s) key)) by (rewrite Ea; reflexivity).
    assert (Hcd : cd = snd (pop (c_desc s) key)) by (rewrite Ed; reflexivity).
    assert (Hcp : cp = snd (pop (c_par s) key)) by (rewrite Ep; reflexivity).
    assert (Hcc : cc = snd (pop (c_ch s) key)) by (rewrite Ec; reflexivity).
    assert (Hclo0 : forall up, closed_cache E up s0 = snd (pop (closed_cache E up s) key)).
    { intros [|]; simpl; assumption. }
    assert (Hcov0 : forall up, cover_cache E up s0 = snd (pop (cover_cache E up s) key)).
    { intros [|]; simpl; assumption. }
    (* the popped parents and children *)
    destruct (Hkey' true) as [pars' Hpars]. destruct (Hkey' false) as [chs' Hchs].
    assert (pars = pars').
    { change pars with (fst (pars, cp)). rewrite <- Ep. apply fst_pop. exact Hpars. }
    assert (chs = chs').
    { change chs with (fst (chs, cc)). rewrite <- Ec. apply fst_pop. exact Hchs. }
    subst pars' chs'.
    destruct (Hcov true key pars (lk_In _ _ _ Hpars)) as [_ [Npars Mpars]].
    destruct (Hcov false key chs (lk_In _ _ _ Hchs)) as [_ [Nchs Mchs]].
    assert (Hclo0' : forall up, clo_ok l up (closed_cache E up s0)).
    { intros up i X Hin. rewrite Hclo0 in Hin. apply In_pop in Hin. exact (Hclo up i X Hin). }
    assert (Hcov0' : forall up, cov_ok l up (cover_cache E up s0)).
    { intros up i X Hin. rewrite Hcov0 in Hin. apply In_pop in Hin. exact (Hcov up i X Hin). }
    assert (Hpre0 : forall up p x, In p (covers l (negb up) key) ->
                      In x (covers l up p) \/ In x (covers l up key) -> x <> key ->
                      has (closed_cache E up s0) x).
    { intros up p x Hp Hx Hxk. rewrite Hclo0. apply has_pop. split; [exact Hxk|]. eapply Hpre; eauto. }
    assert (Hflip : forall up p, In p (covers l (negb up) key) -> In key (covers l up p)).
    { intros up p Hp. apply (proj2 (covers_flip E leq l up p key)). exact Hp. }
    (* for parent in parents: patch the children cache *)
    destruct (reconnect_cover_ok false chs Nchs Mchs pars (fun _ => False) s0 Npars) as [s1 [E1 [Fr1 M1]]].
    { intros p _ []. }
    { intros p Hp. apply (Hflip false). simpl. apply Mpars. exact Hp. }
    { apply Hclo0'. }
    { intros p x Hp. apply (Hpre0 false). simpl. apply Mpars. exact Hp. }
    { apply cov_ok_mix. apply Hcov0'. }
    rewrite E1.
    destruct Fr1 as [F1a [F1b [F1c [F1d [F1e F1f]]]]]. change (negb false) with true in F1e.
    (* for child in children: patch the parents cache *)
    destruct (reconnect_cover_ok true pars Npars Mpars chs (fun _ => False) s1 Nchs) as [s2 [E2 [Fr2 M2]]].
    { intros p _ []. }
    { intros p Hp. apply (Hflip true). simpl. apply Mchs. exact Hp. }
    { rewrite F1d. apply Hclo0'. }
    { intros p x Hp. rewrite F1d. apply (Hpre0 true). simpl. apply Mchs. exact Hp. }
    { apply cov_ok_mix. rewrite F1e. apply Hcov0'. }
    rewrite E2.
    destruct Fr2 as [F2a [F2b [F2c [F2d [F2e F2f]]]]]. change (negb true) with false in F2e.
    (* the two closed loops *)
    destruct (reconnect_closed_ok false ancs s2) as [[G1a [G1b [G1c [G1d [G1e G1f]]]]] G1].
    set (s2' := reconnect_closed E false key ancs s2) in *. change (negb false) with true in G1e.
    destruct (reconnect_closed_ok true descs s2') as [[G2a [G2b [G2c [G2d [G2e G2f]]]]] G2].
    set (s3 := reconnect_closed E true key descs s2') in *. change (negb true) with false in G2e.
    exists s3. split; [reflexivity|].
    split; [rewrite G2a, G1a, F2a, F1a; reflexivity|].
    split; [rewrite G2b, G1b, F2b, F1b; reflexivity|].
    split; [rewrite G2c, G1c, F2c, F1c; reflexivity|].
    assert (Hsub1 : cov_sub false (cover_cache E false s1)).
    { apply (cov_mix_sub false pars); [exact Mpars | exact M1]. }
    assert (Hsub2 : cov_sub true (cover_cache E true s2)).
    { apply (cov_mix_sub true chs); [exact Mchs | exact M2]. }
    split; [|split].
    - intros [|].
      + apply G2. rewrite G1e, F2d, F1d. apply clo_ok_sub. apply Hclo0'.
      + rewrite G2e. apply G1. rewrite F2d, F1d. apply clo_ok_sub. apply Hclo0'.
    - intros [|].
      + rewrite G2d, G1d. exact Hsub2.
      + rewrite G2d, G1d. rewrite F2e. exact Hsub1.
    - intros up i Hi. rewrite G2d, G1d in Hi.
      assert (Hi0 : has (cover_cache E up s0) i).
      { destruct up.
        - apply F2f in Hi. rewrite F1e in Hi. exact Hi.
        - rewrite F2e in Hi. apply F1f in Hi. exact Hi. }
      rewrite Hcov0 in Hi0. apply has_pop in Hi0. destruct Hi0 as [Hik Hi0].
      apply Hdom in Hi0.
      assert (Hc0 : has (closed_cache E up s0) i) by (rewrite Hclo0; apply has_pop; tauto).
      rewrite <- F1d, <- F2d in Hc0.
      destruct up.
      + apply G2f. rewrite G1e. exact Hc0.
      + rewrite G2e. apply G1f. exact Hc0.
  Qed.
End Reconnect.

(* Model/Sofia.v — transcription of fcapy/algorithms/concept_construction.py:sofia (and of the
   two stability-bound closures it defines).  Definitions only.

   Extents are bit rows ([list bool] of length n = number of objects), as the frozenbitarrays
   of the code.  Python builds [set(extents_proj) | new_extents] and sorts it by support with a
   stable sort: the iteration order of that set (hash order) is NOT part of the model — it is
   the section variable [shuffle]; the theorems hold for every [shuffle] that returns a
   permutation of its argument, the executable instance is the identity.
   The interestingness measure is the section variable [mu]; the two measures of the code are
   [stability_lbounds_log] and [stability_lbounds_delta] below. *)
From Coq Require Import QArith.
From Coq Require Export ZArith.
From FCA Require Export Model.FormalContext.
Local Open Scope nat_scope.

Definition extent := list bool.
Definition bcount (e : extent) : nat := length (filter id e).          (* fbarray.count() *)
Definition bnot (e : extent) : extent := map negb e.
Definition subset_ba (p e : extent) : bool := bool_list_eqb (band p e) p.   (* p & e == p *)
Definition cntQ (e : extent) : Q := inject_Z (Z.of_nat (bcount e)).
Definition Qlt_b (x y : Q) : bool := negb (Qle_bool y x).

(* a Python set of frozenbitarrays: each value once *)
Fixpoint dedup (l : list extent) : list extent :=
  match l with
  | [] => []
  | x :: l' => if existsb (bool_list_eqb x) l' then dedup l' else x :: dedup l'
  end.

(* sorted(..., key=count): stable insertion sort *)
Fixpoint insert_by_count (e : extent) (l : list extent) : list extent :=
  match l with
  | [] => [e]
  | x :: l' => if bcount e <=? bcount x then e :: l else x :: insert_by_count e l'
  end.
Definition sort_by_count (l : list extent) : list extent := fold_right insert_by_count [] l.

(* sorted(values) on rationals *)
Fixpoint qinsert (v : Q) (l : list Q) : list Q :=
  match l with
  | [] => [v]
  | x :: l' => if Qle_bool v x then v :: l else x :: qinsert v l'
  end.
Definition qsort (l : list Q) : list Q := fold_right qinsert [] l.

(* thold = sorted(measure_values)[::-1][L_max] *)
Definition threshold (vals : list Q) (L : nat) : Q := nth L (rev (qsort vals)) 0%Q.

(* [extent for i, (extent, measure) in enumerate(zip(extents, values))
    if measure > thold or i in {0, len(extents)-1}] *)
Fixpoint prune_from (k last : nat) (th : Q) (evs : list (extent * Q)) : list extent :=
  match evs with
  | [] => []
  | (e, m) :: r =>
      if Qlt_b th m || (k =? 0) || (k =? last)
      then e :: prune_from (S k) last th r else prune_from (S k) last th r
  end.
Definition prune (exts : list extent) (vals : list Q) (L : nat) : list extent :=
  prune_from 0 (length exts - 1) (threshold vals L) (combine exts vals).

(* extents_proj[:1] + [e for e in extents_proj[1:] if e.count() >= min_supp] *)
Definition support_filter (ms : Q) (s : list extent) : list extent :=
  firstn 1 s ++ filter (fun e => Qle_bool ms (cntQ e)) (skipn 1 s).

Section SofiaCore.
  Variable shuffle : list extent -> list extent.
  Variable mu : list extent -> list Q.

  (* one projection up to the support filter; None = the attribute is skipped *)
  Definition sofia_candidates (ms : Q) (exts : list extent) (a : extent) : option (list extent) :=
    if ball a then None
    else if Qlt_b (cntQ a) ms then None
    else
      let new := map (fun e => band e a) exts in
      Some (support_filter ms (sort_by_count (shuffle (dedup (exts ++ new))))).

  Definition sofia_step (ms : Q) (L : nat) (exts : list extent) (a : extent) : list extent :=
    match sofia_candidates ms exts a with
    | None => exts
    | Some s => if L <? length s then prune s (mu s) L else s
    end.

  Definition sofia_extents (n : nat) (attrs : list extent) (ms : Q) (L : nat) : list extent :=
    fold_left (sofia_step ms L) attrs [repeat true n].
End SofiaCore.

(* min_supp = min_supp * len(K) if min_supp < 1 else min_supp *)
Definition eff_min_supp (ms : Q) (n : nat) : Q :=
  if Qlt_b ms 1%Q then (ms * inject_Z (Z.of_nat n))%Q else ms.

(* FormalContext.to_bin_attr_extents: the columns of the table, in attribute order *)
Definition column (t : table) (j : nat) : extent := map (fun r => nth j r false) t.
Definition attr_extents_formal (t : table) : list extent := map (column t) (seq 0 (width t)).

(* FormalConcept.from_objects(extent.search(True), K, is_extent=True) *)
Definition sofia_formal (shuffle : list extent -> list extent) (mu : list extent -> list Q)
           (b : backend) (t : table) (L : nat) (min_supp : Q) : list (list nat * list nat) :=
  map (fun e => let A := search1 e in (A, intention_i b t A None))
      (sofia_extents shuffle mu (height t) (attr_extents_formal t)
                     (eff_min_supp min_supp (height t)) L).

(* ------------------------------------------------------------------ the two measures *)

(* use_log_stability_bound=True:
     bound = extent.count()
     for potent_child in extents[i-1::-1]:         (i = 0: the whole list reversed)
         if potent_child & extent == potent_child: bound -= potent_child.count(); break *)
Definition potent_children (exts : list extent) (i : nat) : list extent :=
  match i with 0 => rev exts | _ => rev (firstn i exts) end.

Definition lbound_log (exts : list extent) (i : nat) (e : extent) : Z :=
  match find (fun p => subset_ba p e) (potent_children exts i) with
  | Some p => (Z.of_nat (bcount e) - Z.of_nat (bcount p))%Z
  | None => Z.of_nat (bcount e)
  end.

Definition stability_lbounds_log (exts : list extent) : list Q :=
  map (fun ie => inject_Z (lbound_log exts (fst ie) (snd ie)))
      (combine (seq 0 (length exts)) exts).

(* use_log_stability_bound=False: caspailleur.order.sort_intents_inclusion (the covering
   relation it finds in a list sorted by ascending count), inverse_order, then
   1 - sum(2**-(|extent \ child|) for child in children)   (or 2**-|extent| without children) *)
Fixpoint nodup_nat (l : list nat) : list nat :=
  match l with
  | [] => []
  | x :: l' => if mem x l' then nodup_nat l' else x :: nodup_nat l'
  end.

(* processes intents k, k+1, ... (the list l) from the last to the first; returns
   (lattice, trans_lattice) restricted to those indexes *)
Fixpoint casp_from (all : list extent) (nobj k : nat) (l : list extent)
  : list (list nat) * list (list nat) :=
  match l with
  | [] => ([], [])
  | e :: l' =>
      let r := casp_from all nobj (S k) l' in
      let lat := fst r in let tr := snd r in
      let common j := subset_ba e (nth j all []) in
      let found :=
        flat_map (fun m =>
          if nth m e false then []
          else match find (fun j => common j && nth m (nth j all []) false) (seq 0 (length all)) with
               | Some j => [j]
               | None => []
               end) (seq 0 nobj) in
      let children := nodup_nat found in
      let transch := flat_map (fun c => nth (c - S k) tr []) children in
      (filter (fun c => negb (mem c transch)) children :: lat, (children ++ transch) :: tr)
  end.

Definition sort_intents_inclusion (exts : list extent) : list (list nat) :=
  fst (casp_from exts (length (hd [] exts)) 0 exts).

Definition inverse_order (order : list (list nat)) : list (list nat) :=
  map (fun i => filter (fun j => mem i (nth j order [])) (seq 0 (length order)))
      (seq 0 (length order)).

Definition two_pow_neg (v : nat) : Q := Qmake 1 (Z.to_pos (2 ^ Z.of_nat v)).
Definition qsum (l : list Q) : Q := fold_left Qplus l 0%Q.

Definition stability_lbounds_delta (exts : list extent) : list Q :=
  let children := inverse_order (sort_intents_inclusion exts) in
  map (fun ce =>
         let ch := fst ce in let e := snd ce in
         let inters := match ch with
                       | [] => [bcount e]
                       | _ => map (fun c => bcount (band e (bnot (nth c exts [])))) ch
                       end in
         (1 - qsum (map two_pow_neg inters))%Q)
      (combine children exts).

Definition measure_of (use_log : bool) : list extent -> list Q :=
  if use_log then stability_lbounds_log else stability_lbounds_delta.
